(* Props/C09.v — Constant folding is invisible (partial: see the level note). *)
From Coq Require Import ZArith List Bool.
From Rscel Require Import Base.Prims Model.Value Model.Ops Model.Funcs Model.Interp Model.Ast Model.Compile.
From Rscel Require Import Proofs.Blocks Proofs.OpsColl Proofs.Fold Proofs.Resolve Proofs.FoldSim.
Import ListNotations.
Import Coq.Strings.String.StringSyntax.
Open Scope Z_scope.

Theorem C09_vm_binop_on_constants : forall rs E d i f x y st lg,
  instr_fun i = Some f -> plainv x -> plainv y ->
  loop rs 4 E d [IPush x; IPush y; i] O st lg = (ROk (SVal (f x y) :: st), lg).
Proof. exact vm_binop_on_constants. Qed.
Print Assumptions C09_vm_binop_on_constants.

Theorem C09_compile2_folds_with_vm_function : forall i f x y pa pb,
  cp_node (compile2 i f (mkCP (NConst x) pa) (mkCP (NConst y) pb)) = NConst (f x y).
Proof. exact compile2_folds_with_vm_function. Qed.
Print Assumptions C09_compile2_folds_with_vm_function.

Theorem C09_compile_sites_use_vm_functions :
  (forall op, exists i f, instr_fun i = Some f /\
     forall cl cr, (match op with MOMul => compile2 IMul mul cl cr | MODiv => compile2 IDiv div cl cr
                                  | MOMod => compile2 IMod rem cl cr end) = compile2 i f cl cr) /\
  (forall op, exists i f, instr_fun i = Some f /\
     forall cl cr, (match op with AOAdd => compile2 IAdd add cl cr | AOSub => compile2 ISub sub cl cr end)
                   = compile2 i f cl cr) /\
  (forall op, exists i f, instr_fun i = Some f /\
     forall cl cr, (match op with
                    | RLt => compile2 ILt lt cl cr | RLe => compile2 ILe le cl cr
                    | REq => compile2 IEq eq_ cl cr | RNe => compile2 INe neq cl cr
                    | RGe => compile2 IGe ge cl cr | RGt => compile2 IGt gt cl cr
                    | RIn => compile2 IIn in_ cl cr end) = compile2 i f cl cr).
Proof. exact compile_sites_use_vm_functions. Qed.
Print Assumptions C09_compile_sites_use_vm_functions.

(** map literals: the folder and MkDict compute the same map (duplicate keys included) *)
Theorem C09_folded_map_equals_mkdict : forall rs E d pairs st lg,
  Forall (fun kv => not_ident (snd kv)) pairs ->
  step rs E d (IMkDict (zlen pairs)) (dict_stack (rev pairs) ++ st) lg =
    (ROk (None, SVal (const_map (interleave pairs) []) :: st), lg).
Proof. intros. rewrite const_map_is_build_map. apply mkdict_spec. assumption. Qed.
Print Assumptions C09_folded_map_equals_mkdict.

(** ... with any keys: when a key is not a string both give the same error *value*
    (the VM used to abort the evaluation there: [{0: 1}] vs [{x: 1}]) *)
Theorem C09_mkdict_equals_folder : forall rs E d prs st lg,
  Forall (fun kv => not_ident (fst kv) /\ not_ident (snd kv)) prs ->
  step rs E d (IMkDict (zlen prs)) (dict_stack_v (rev prs) ++ st) lg =
    (ROk (None, SVal (const_map (interleave_v prs) []) :: st), lg).
Proof. exact mkdict_equals_folder. Qed.
Print Assumptions C09_mkdict_equals_folder.

(** a name the compiler cannot call (has, coalesce, a function bound by the caller) ends the
    compile-time evaluation instead of becoming an error value that a match arm could absorb *)
Theorem C09_not_callable_stops_folding : forall rs E d name st lg,
  has_func E name = false -> has_macro E name = false -> env_type E name = None -> folding E = true ->
  step rs E d (ICall 0) (SVal (VIdent name) :: st) lg = (RErr ERuntime, runtime_mark :: lg).
Proof. exact not_callable_stops_folding. Qed.
Print Assumptions C09_not_callable_stops_folding.

(** the condition of ?: : the folder selects by [is_truthy] / keeps the error,
    exactly what the emitted code does for a constant condition (C05 block theorems) *)
Theorem C09_ternary_fold_agrees_with_code : forall rs E d v ct cf lg svt lg3,
  plainv v -> is_err v = false -> is_truthy v = true ->
  pushes rs E d ct lg svt lg3 ->
  forall st, exists f, loop rs f E d (tern_code [IPush v] ct cf) O st lg = (ROk (svt :: st), lg3).
Proof.
  intros rs E d v ct cf lg svt lg3 Hp He Ht Hct.
  eapply (tern_true rs E d [IPush v] ct cf lg (SVal v) lg v lg svt lg3); eauto.
  - split.
    + intros pc i Hn. destruct pc as [|[|]]; cbn in Hn; inversion Hn; exact I.
    + intros st. exists 2%nat. reflexivity.
  - apply resolves_plain. exact Hp.
Qed.
Print Assumptions C09_ternary_fold_agrees_with_code.

Theorem C09_compile_time_clock_reads_fail : forall this,
  e_now compile_env = None /\
  call_default None #"now" this [] = Some (ROk (VErr ERuntime)) /\
  construct_type None #"timestamp" [] = ROk (VErr ERuntime).
Proof. exact compile_time_clock_reads_fail. Qed.
Print Assumptions C09_compile_time_clock_reads_fail.

Theorem C09_check_for_const_keeps_failing_calls : forall fuel node n bc,
  resolve (into_bytecode (cp_node node)) = Some bc ->
  (exists e lg, run fuel compile_env bc true O [] = (RErr e, lg)) ->
  check_for_const fuel node n = COk (mkCP (NBytecode (of_code bc)) (cp_params node)) n.
Proof. exact check_for_const_keeps_failing_calls. Qed.
Print Assumptions C09_check_for_const_keeps_failing_calls.

(** an evaluation that asked for the clock is never frozen, whatever it ended with (a match arm or a
    counting macro can absorb the refusal); the request is recorded exactly where the clock is refused,
    it cannot be forgotten, and every other call of those names does not depend on the clock *)
Theorem C09_check_for_const_rejects_clock_requests : forall fuel node n bc v lg,
  resolve (into_bytecode (cp_node node)) = Some bc ->
  run fuel compile_env bc true O [] = (ROk v, lg) -> runtime_requested lg = true ->
  check_for_const fuel node n = COk (mkCP (NBytecode (of_code bc)) (cp_params node)) n.
Proof. exact check_for_const_rejects_clock_requests. Qed.
Print Assumptions C09_check_for_const_rejects_clock_requests.

Theorem C09_clock_request_is_recorded : forall E this lg, folding E = true -> assoc #"now" (e_ufuncs E) = None ->
  call_func E #"now" this [] lg = (ROk (VErr ERuntime), runtime_mark :: lg).
Proof. exact clock_request_is_recorded. Qed.
Print Assumptions C09_clock_request_is_recorded.

Theorem C09_runtime_mark_stays : forall e lg, runtime_requested lg = true -> runtime_requested (e :: lg) = true.
Proof. exact runtime_mark_stays. Qed.
Print Assumptions C09_runtime_mark_stays.

Theorem C09_unasked_calls_ignore_the_clock : forall now now' name this args tn,
  (asks_clock_fn name args = false -> call_default now name this args = call_default now' name this args) /\
  (asks_clock_ty tn args = false -> construct_type now tn args = construct_type now' tn args).
Proof. exact unasked_calls_ignore_the_clock. Qed.
Print Assumptions C09_unasked_calls_ignore_the_clock.

(** the program that showed the defect: the folded call would have been the constant 2 *)
Example C09_match_on_clock_is_not_frozen :
  match compile_source 40 #"int(match now() { case timestamp: 1, case _: 2 })" with
  | COk p _ => existsb (fun i => match i with ICall _ => true | _ => false end) (pr_code p)
  | _ => false
  end = true.
Proof. vm_compute. reflexivity. Qed.

Theorem C09_check_for_const_rejects_nested_errors : forall fuel node n bc v lg,
  resolve (into_bytecode (cp_node node)) = Some bc ->
  run fuel compile_env bc true O [] = (ROk v, lg) -> contains_err v = true ->
  check_for_const fuel node n = COk (mkCP (NBytecode (of_code bc)) (cp_params node)) n.
Proof. exact check_for_const_rejects_nested_errors. Qed.
Print Assumptions C09_check_for_const_rejects_nested_errors.

(** THE SUBSTITUTION THEOREM (whole interpreter, every macro and built-in, every nested run, any fuel):
    an evaluation on a folding environment Ef - no clock, no caller-bound functions, no stored programs -
    that ends without having asked for a run-time input is reproduced, outcome for outcome (value, error,
    fuel), on every environment E that extends Ef with variables, programs, a clock, has / coalesce and
    caller-bound functions whose names replace no built-in, whatever was logged before *)
Theorem C09_folding_is_reproduced_at_run_time : forall fuel Ef E c d lg r lg1,
  frel Ef E -> run fuel Ef c true d lg = (r, lg1) -> runtime_requested lg1 = false ->
  forall lg2, exists lg2', run fuel E c true d lg2 = (r, lg2').
Proof.
  intros fuel Ef E c d lg r lg1 HA R Hu.
  exact (proj2 (proj2 (fold_simulation fuel Ef E c true d HA (or_introl eq_refl) lg r lg1 R)) Hu).
Qed.
Print Assumptions C09_folding_is_reproduced_at_run_time.

(** a request for a run-time input is never forgotten during an evaluation: the compiler sees it *)
Theorem C09_requests_are_never_forgotten : forall fuel Ef c d lg r lg1,
  frel Ef Ef -> run fuel Ef c true d lg = (r, lg1) -> runtime_requested lg = true -> runtime_requested lg1 = true.
Proof.
  intros fuel Ef c d lg r lg1 HA R Hm.
  exact (proj1 (proj2 (fold_simulation fuel Ef Ef c true d HA (or_introl eq_refl) lg r lg1 R)) Hm).
Qed.
Print Assumptions C09_requests_are_never_forgotten.

(** hence: the value the compiler freezes is the value the bytecode it replaces evaluates to at every
    execution, under any variables, stored programs, clock and caller-bound functions *)
Theorem C09_frozen_constant_is_what_runs : forall fuel node n n' bc v params,
  resolve (into_bytecode (cp_node node)) = Some bc ->
  check_for_const fuel node n = COk (mkCP (NConst v) params) n' ->
  forall vars progs ufs rt now lg, smap vars -> no_builtin_replaced ufs ->
  exists lg', run fuel (mkEnv true vars progs ufs rt now) bc true O lg = (ROk v, lg').
Proof. exact frozen_constant_is_what_runs. Qed.
Print Assumptions C09_frozen_constant_is_what_runs.

(** the premises are met by an ordinary binding, and the compiler does freeze a macro over constants *)
Example C09_frozen_constant_example :
  let E := mkEnv true [(#"x", VInt 5)] [(#"p", [IPush (VInt 1)])] [(#"f", UFArg0)] true (Some 1700000000000) in
  smap (e_params E) /\ no_builtin_replaced (e_ufuncs E) /\
  match compile_source 40 #"[1, 2, 3].map(v, v * 2)[1] + size('ab')" with
  | COk p _ => pr_code p
  | _ => []
  end = [IPush (VInt 6)].
Proof. exact frozen_constant_example. Qed.
