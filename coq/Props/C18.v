(* Props/C18.v — spans: the algebra every parent span is computed with, and positions. *)
From Coq Require Import ZArith List Bool.
From Rscel Require Import Base.Prims Model.Value Model.Lexer Model.Ast Model.Parser.
From Rscel Require Import Proofs.Literals Proofs.Spans Proofs.ParseSpans Proofs.LexFwd Proofs.ParseBounds Proofs.ParseFwd.
Import Coq.Strings.String.StringSyntax.
Import ListNotations.
Open Scope Z_scope.

Theorem C18_surrounding_contains : forall a b, within a (surrounding a b) /\ within b (surrounding a b).
Proof. exact surrounding_contains. Qed.
Print Assumptions C18_surrounding_contains.

Theorem C18_surrounding_least : forall a b c, within a c -> within b c -> within (surrounding a b) c.
Proof. exact surrounding_least. Qed.
Print Assumptions C18_surrounding_least.

Theorem C18_surrounding_ordered : forall a b, well_ordered a -> well_ordered b -> before a b ->
  r_start (surrounding a b) = r_start a /\ r_end (surrounding a b) = r_end b.
Proof. exact surrounding_ordered. Qed.
Print Assumptions C18_surrounding_ordered.

Theorem C18_surrounding_well_ordered : forall a b, well_ordered a -> well_ordered (surrounding a b).
Proof. exact surrounding_well_ordered. Qed.
Print Assumptions C18_surrounding_well_ordered.

Theorem C18_within_trans : forall a b c, within a b -> within b c -> within a c.
Proof. exact within_trans. Qed.
Print Assumptions C18_within_trans.

Theorem C18_member_span_grows : forall ms r0,
  within r0 (fold_left (fun r m => surrounding r (mprime_range m)) ms r0) /\
  Forall (fun m => within (mprime_range m) (fold_left (fun r m => surrounding r (mprime_range m)) ms r0)) ms.
Proof. exact member_span_grows. Qed.
Print Assumptions C18_member_span_grows.

(** every position the scanner can report is the position after a prefix of the source *)
Theorem C18_advance_loc : forall pre s rest, sc_rest s = pre ++ rest ->
  sc_loc (advance s pre) = loc_after (sc_loc s) pre /\ sc_rest (advance s pre) = rest.
Proof. exact advance_loc. Qed.
Print Assumptions C18_advance_loc.

Theorem C18_loc_after_counts : forall pre l,
  loc_after l pre = mkLoc (l_line l + count_nl pre) (since_nl pre (l_col l)).
Proof. exact loc_after_counts. Qed.
Print Assumptions C18_loc_after_counts.

Theorem C18_positions_move_forward : forall pre l, loc_le l (loc_after l pre).
Proof. exact loc_after_forward. Qed.
Print Assumptions C18_positions_move_forward.

(** errors inside f-string segments: located at the literal (a position of the source),
    not at the nested parser's segment-relative position *)
Theorem C18_segment_error_at_literal : forall rec_src at_ segs t l,
  check_segments rec_src at_ segs t = PErr l -> l = at_.
Proof. exact segment_error_at_literal. Qed.
Print Assumptions C18_segment_error_at_literal.

(** * Nesting, for every tree the parser returns and at every depth of it: a node that is built from operands
    spans them - the binary operators of all five levels, prefix runs and postfix chains (the member spans
    its primary and every postfix operator, a field access spans its name), the outer operands of a
    conditional, match arms (pattern and arm) and map entries (key and value); a node without an operator
    has exactly its operand's span.  ([sp] is the conjunction of these facts over the whole tree.) *)
Theorem C18_parser_spans_nest : forall fuel depth t e t', p_expr_at fuel depth t = POk e t' -> sp fuel e.
Proof. exact parser_spans_nest. Qed.
Print Assumptions C18_parser_spans_nest.

Theorem C18_program_spans_nest : forall fuel src e t, parse_program fuel src = POk e t -> sp fuel e.
Proof. exact program_spans_nest. Qed.
Print Assumptions C18_program_spans_nest.

(** what [sp] says at the root of a conditional, spelled out *)
Example C18_spans_nest_unfolded : forall f r c t e,
  sp (S f) (ETernary r c t e) -> within (cor_range c) r /\ within (expr_range e) r /\ sp_cor (sp f) c /\ sp_cor (sp f) t /\ sp f e.
Proof. intros f r c t e H. exact H. Qed.

Example C18_spans_nest_somewhere :
  match parse_program 40 #"a + b * -c.d[0] ? {'k': f(x)} : match y { case 1: [2] }" with POk _ _ => true | _ => false end = true.
Proof. vm_compute. reflexivity. Qed.

(** * Positions.  The scanner only moves forward, so the tokenizer reports tokens with well-ordered spans that
    increase and do not overlap, all inside the source ([chain]: each span starts at or after the end of the
    one before and the last ends at or before the position reached, which is the position of a prefix of the
    source text). *)
Theorem C18_tokens_in_order : forall src toks s', lex src = LOk toks s' ->
  chain (mkLoc 0 0) toks (sc_loc s') /\ exists pre, src = pre ++ sc_rest s' /\ sc_loc s' = loc_after (mkLoc 0 0) pre.
Proof. exact tokens_inside_source. Qed.
Print Assumptions C18_tokens_in_order.

(** ... and through the parser, for every tree it returns and at every depth ([br]): a bracketed node -
    parentheses, list, map, call, index, match - contains its contents; the elements of a list, the entries of
    a map (key before value), the arguments of a call and the postfix operators of a chain follow one another
    without overlap, as do the operands of every binary operator and the three parts of a conditional; and the
    whole tree lies between the position where parsing started and the position it reached. *)
Theorem C18_parser_positions : forall fuel depth t e t', tzinv t -> p_expr_at fuel depth t = POk e t' ->
  st t t' /\ nd t (expr_range e) t' /\ br fuel e.
Proof. exact parser_positions. Qed.
Print Assumptions C18_parser_positions.

(** for a whole program: the properties above hold of its tree, its span starts at or after the beginning of the
    source and ends at or before the position the parser reached, and that position is one of the source *)
Theorem C18_program_positions : forall fuel src e t, parse_program fuel src = POk e t ->
  br fuel e /\ bnd (mkLoc 0 0) (expr_range e) (reach t) /\
  exists pre, src = pre ++ sc_rest (tz_scan t) /\ reach t = loc_after (mkLoc 0 0) pre.
Proof.
  intros fuel src e t H. split; [exact (proj1 (program_positions _ _ _ _ H))|exact (program_inside_source _ _ _ _ H)].
Qed.
Print Assumptions C18_program_positions.

(** what [br] says at a parenthesised primary, a list and a binary operator, spelled out *)
Example C18_positions_unfolded : forall rec r e es l op b,
  (br_primary rec (PrParens r e) -> within (expr_range e) r) /\
  (br_primary rec (PrList r es) -> Forall (fun x => within (expr_range x) r /\ rec x) es /\ ordered (map expr_range es)) /\
  (br_mult rec (MulBin r l op b) -> before (mult_range l) (unary_range b)).
Proof. intros rec r e es l op b. split; [intros H; exact (proj1 H)|]. split; [intros H; exact H|intros H; exact (proj1 H)]. Qed.
