(* Props/C05.v — ||, &&, ?: are lazy and absorb failures by fixed rules; one truthiness. *)
From Coq Require Import ZArith List Bool.
From Rscel Require Import Base.Prims Model.Value Model.Ops Model.Funcs Model.Interp.
From Rscel Require Import Model.Lexer Model.Ast Model.Parser Model.Compile Proofs.Blocks Proofs.BlocksAnd Proofs.Chains Proofs.MatchBlock Proofs.Truthy Proofs.Shapes.
From Coq Require Strings.String.
Import Coq.Strings.String.StringSyntax.
Import ListNotations.
Import Coq.Strings.String.StringSyntax.
Open Scope Z_scope.

(** a || b with a truthy: true, and NOTHING of b runs — the statement holds for
    every code [cb] whatsoever (even code that would crash the VM). *)
Theorem C05_or_short_circuit : forall rs E d ca cb lg sva lg1 va lg2,
  pushes rs E d ca lg sva lg1 -> resolves rs E d sva lg1 va lg2 ->
  is_err va = false -> is_truthy va = true ->
  forall st, exists f, loop rs f E d (or_code ca cb) O st lg = (ROk (SVal (VBool true) :: st), lg2).
Proof. exact or_short_circuit. Qed.
Print Assumptions C05_or_short_circuit.

(** a && b with a falsy or failing: false resp. the failure of a, and nothing of b runs. *)
Theorem C05_and_short_circuit : forall rs E d ca cb lg sva lg1 va lg2,
  pushes rs E d ca lg sva lg1 -> resolves rs E d sva lg1 va lg2 ->
  (is_err va = true \/ is_truthy va = false) ->
  forall st, exists f,
    loop rs f E d (and_code ca cb) O st lg =
    (ROk (SVal (if is_err va then va else VBool false) :: st), lg2).
Proof. exact and_short_circuit. Qed.
Print Assumptions C05_and_short_circuit.

(** a || b when a does not decide: b is evaluated (its calls are logged after a's)
    and the result is Ops.or_ of the two. *)
Theorem C05_or_evaluates_rhs : forall rs E d ca cb lg sva lg1 va lg2 svb lg3 vb lg4,
  pushes rs E d ca lg sva lg1 -> resolves rs E d sva lg1 va lg2 ->
  (is_err va = true \/ is_truthy va = false) ->
  pushes rs E d cb lg2 svb lg3 -> resolves rs E d svb lg3 vb lg4 ->
  forall st, exists f, loop rs f E d (or_code ca cb) O st lg = (ROk (SVal (or_ (tested va) vb) :: st), lg4).
Proof. exact or_evaluates_rhs. Qed.
Print Assumptions C05_or_evaluates_rhs.

Theorem C05_or_rhs_fails : forall rs E d ca cb lg sva lg1 va lg2 e lg3,
  pushes rs E d ca lg sva lg1 -> resolves rs E d sva lg1 va lg2 ->
  (is_err va = true \/ is_truthy va = false) ->
  fails rs E d cb lg2 e lg3 ->
  forall st, exists f, loop rs f E d (or_code ca cb) O st lg = (RErr e, lg3).
Proof. exact or_rhs_fails. Qed.
Print Assumptions C05_or_rhs_fails.

(** a && b when a is truthy (does not decide): b is evaluated and the result is Ops.and_ of true and b's value;
    a hard failure of b fails the whole expression *)
Theorem C05_and_evaluates_rhs : forall rs E d ca cb lg sva lg1 va lg2 svb lg3 vb lg4,
  pushes rs E d ca lg sva lg1 -> resolves rs E d sva lg1 va lg2 ->
  is_err va = false -> is_truthy va = true ->
  pushes rs E d cb lg2 svb lg3 -> resolves rs E d svb lg3 vb lg4 ->
  forall st, exists f, loop rs f E d (and_code ca cb) O st lg = (ROk (SVal (and_ (VBool true) vb) :: st), lg4).
Proof. exact and_evaluates_rhs. Qed.
Print Assumptions C05_and_evaluates_rhs.

Theorem C05_and_rhs_fails : forall rs E d ca cb lg sva lg1 va lg2 e lg3,
  pushes rs E d ca lg sva lg1 -> resolves rs E d sva lg1 va lg2 ->
  is_err va = false -> is_truthy va = true ->
  fails rs E d cb lg2 e lg3 ->
  forall st, exists f, loop rs f E d (and_code ca cb) O st lg = (RErr e, lg3).
Proof. exact and_rhs_fails. Qed.
Print Assumptions C05_and_rhs_fails.

(** || yields true when either side is truthy even if the other fails; otherwise a failing operand fails. *)
Theorem C05_or_spec : forall a b,
  or_ a b =
  if truthy_ok a || truthy_ok b then VBool true
  else if is_err a then a else if is_err b then b else VBool false.
Proof. exact or_spec. Qed.
Print Assumptions C05_or_spec.

Theorem C05_and_spec : forall a b,
  and_ a b = if is_err a then a else if is_err b then b else VBool (is_truthy a && is_truthy b).
Proof. exact and_spec. Qed.
Print Assumptions C05_and_spec.

(** c ? x : y evaluates exactly one branch, chosen by the truthiness of c ... *)
Theorem C05_ternary_true : forall rs E d cc ct cf lg sva lg1 va lg2 svt lg3,
  pushes rs E d cc lg sva lg1 -> resolves rs E d sva lg1 va lg2 ->
  is_err va = false -> is_truthy va = true ->
  pushes rs E d ct lg2 svt lg3 ->
  forall st, exists f, loop rs f E d (tern_code cc ct cf) O st lg = (ROk (svt :: st), lg3).
Proof. exact tern_true. Qed.
Print Assumptions C05_ternary_true.

Theorem C05_ternary_false : forall rs E d cc ct cf lg sva lg1 va lg2 svf lg3,
  pushes rs E d cc lg sva lg1 -> resolves rs E d sva lg1 va lg2 ->
  is_err va = false -> is_truthy va = false ->
  pushes rs E d cf lg2 svf lg3 ->
  forall st, exists f, loop rs f E d (tern_code cc ct cf) O st lg = (ROk (svf :: st), lg3).
Proof. exact tern_false. Qed.
Print Assumptions C05_ternary_false.

(** ... and fails when c fails (neither branch runs). *)
Theorem C05_ternary_cond_fails : forall rs E d cc ct cf lg sva lg1 e lg2,
  pushes rs E d cc lg sva lg1 -> resolves rs E d sva lg1 (VErr e) lg2 ->
  forall st, exists f, loop rs f E d (tern_code cc ct cf) O st lg = (ROk (SVal (VErr e) :: st), lg2).
Proof. exact tern_cond_fails. Qed.
Print Assumptions C05_ternary_cond_fails.

(** One truthiness: the table, and its use by !, TEST and bool(). *)
Theorem C05_truthy_table : forall v,
  is_truthy v =
  match v with
  | VInt i => negb (i =? 0) | VUInt u => negb (u =? 0)
  | VFloat f => match f with SpecFloat.S754_zero _ => false | _ => true end
  | VBool b => b
  | VString s => match s with [] => false | _ => true end
  | VBytes s => match s with [] => false | _ => true end
  | VList l => match l with [] => false | _ => true end
  | VMap m => match m with [] => false | _ => true end
  | VType _ | VTime _ | VDur _ => true
  | VNull | VErr _ | VIdent _ | VCode _ => false
  end.
Proof. exact truthy_table. Qed.
Print Assumptions C05_truthy_table.

Theorem C05_not_spec : forall a, not_ a = if is_err a then a else VBool (negb (is_truthy a)).
Proof. exact not_spec. Qed.
Print Assumptions C05_not_spec.

Theorem C05_test_is_truthiness : forall rs E d st lg sv v lg',
  resolves rs E d sv lg v lg' ->
  step rs E d ITest (sv :: st) lg = (ROk (None, SVal (tested v) :: st), lg').
Proof. exact step_test. Qed.
Print Assumptions C05_test_is_truthiness.

(** bool() is the same truthiness outside the recorded finding (the five spellings of false) ... *)
Theorem C05_bool_is_truthy_outside_known : forall now v,
  is_err v = false -> false_spelling v = false ->
  construct_type now #"bool" [v] = ROk (VBool (is_truthy v)).
Proof. exact bool_is_truthy_outside_known. Qed.
Print Assumptions C05_bool_is_truthy_outside_known.

(** ... and the full statement is false of the faithful model: bool('0') is the witness. *)
Theorem C05_bool_truthy_refuted : exists now v,
  is_err v = false /\ construct_type now #"bool" [v] <> ROk (VBool (is_truthy v)).
Proof. exact bool_truthy_refuted. Qed.
Print Assumptions C05_bool_truthy_refuted.

(** * Chains  a || b || c ...  and  a && b && c ...  as emitted: one end label shared by every link

    [chain_run] is the left fold with early exit: the accumulated value is tested; when it decides
    (true for ||; false or a failure for &&) the chain ends with it and nothing more runs, otherwise
    the next operand runs and the operator folds its value in. *)
Theorem C05_or_chain_evaluates : forall rs E d c1 cs lg sva lg1 va lg2 res lg3,
  pushes rs E d c1 lg sva lg1 -> resolves rs E d sva lg1 va lg2 -> cs <> [] ->
  chain_run rs E d true or_ va lg2 cs res lg3 ->
  forall st, exists f, loop rs f E d (or_chain_code c1 cs) O st lg = (ROk (SVal res :: st), lg3).
Proof. exact or_chain_evaluates. Qed.
Print Assumptions C05_or_chain_evaluates.

Theorem C05_and_chain_evaluates : forall rs E d c1 cs lg sva lg1 va lg2 res lg3,
  pushes rs E d c1 lg sva lg1 -> resolves rs E d sva lg1 va lg2 -> cs <> [] ->
  chain_run rs E d false and_ va lg2 cs res lg3 ->
  forall st, exists f, loop rs f E d (and_chain_code c1 cs) O st lg = (ROk (SVal res :: st), lg3).
Proof. exact and_chain_evaluates. Qed.
Print Assumptions C05_and_chain_evaluates.

(** nothing after the deciding operand runs: the rest of the chain is ANY code *)
Theorem C05_chain_stops_early : forall rs E d w op opf,
  (forall st, step rs E d op st = bin rs E d opf st) -> (forall a b, plainv (opf a b)) ->
  forall c1 c r lg sva lg1 va lg2,
  pushes rs E d c1 lg sva lg1 -> resolves rs E d sva lg1 va lg2 -> decides w (tested va) = true ->
  forall st, exists f, loop rs f E d (chain_code w op c1 (c :: r)) O st lg = (ROk (SVal (tested va) :: st), lg2).
Proof. exact chain_stops_early. Qed.
Print Assumptions C05_chain_stops_early.

(** the chain shape is the compiler's: a mixed chain compiles to exactly these blocks *)
Example C05_chain_shape :
  match compile_source 40 #"a || b || c && d && e" with
  | COk p _ => Some (pr_code p)
  | _ => None
  end = Some (or_chain_code [IPush (VIdent #"a")] [[IPush (VIdent #"b")];
               and_chain_code [IPush (VIdent #"c")] [[IPush (VIdent #"d")]; [IPush (VIdent #"e")]]]).
Proof. vm_compute. reflexivity. Qed.

(** * match, as emitted: the scrutinee is evaluated once, the patterns are tried in order, the arm of
    the first pattern that yields true runs; a pattern that yields false or fails is skipped; null when
    none matches.  Arms of skipped cases, and every case after the chosen one, are ANY code. *)
Theorem C05_match_evaluates : forall rs E d cc cs lg sv lg1 v lg2 res lg3,
  pushes rs E d cc lg sv lg1 -> resolves rs E d sv lg1 v lg2 -> plainv v -> cs <> [] ->
  match_run rs E d v lg2 cs res lg3 ->
  forall st, exists f, loop rs f E d (match_code cc cs) O st lg = (ROk (res :: st), lg3).
Proof. exact match_evaluates. Qed.
Print Assumptions C05_match_evaluates.

Theorem C05_match_first_hit : forall rs E d cc pb arm r lg sv lg1 v lg2 lg3 sva lg4,
  pushes rs E d cc lg sv lg1 -> resolves rs E d sv lg1 v lg2 -> plainv v ->
  pat_eval rs E d pb v lg2 (VBool true) lg3 -> pushes rs E d arm lg3 sva lg4 ->
  forall st, exists f, loop rs f E d (match_code cc ((pb, arm) :: r)) O st lg = (ROk (sva :: st), lg4).
Proof. exact match_first_hit. Qed.
Print Assumptions C05_match_first_hit.

(** the block shape is the compiler's *)
Example C05_match_shape :
  match compile_source 40 #"match x { case y: a, case int: b, case _: c }" with
  | COk p _ => Some (pr_code p)
  | _ => None
  end = Some (match_code [IPush (VIdent #"x")]
                [([IPush (VIdent #"y"); IEq], [IPush (VIdent #"a")]);
                 ([IPush (VIdent #"type"); ICall 1; IPush (VIdent #"int"); IEq], [IPush (VIdent #"b")]);
                 ([IPop; IPush (VBool true)], [IPush (VIdent #"c")])]).
Proof. vm_compute. reflexivity. Qed.

(** * The emitted code IS those blocks — for every expression, not only the examples above.
    Resolving the label code the compiler emits for a chain of two or more `||` (`&&`) operands gives
    [or_chain_code] ([and_chain_code]) of the resolved programs of the operands, compiled one after the
    other in source order; likewise `?:` gives [tern_code] and match gives [match_code].  Together with
    the block theorems above this settles laziness and absorption for every compiled program. *)
Theorem C05_or_compiles_to_chain : forall f e n cp n',
  c_cor f (c_expr f) e n = COk cp n' -> snd (cor_ops e) <> [] ->
  exists cph cpt ch cts,
    compiled_seq (c_cand f (c_expr f)) (S n) (fst (cor_ops e) :: snd (cor_ops e)) (cph :: cpt) n' /\
    resolve (bc_of cph) = Some ch /\ Forall2 (fun c code => resolve (bc_of c) = Some code) cpt cts /\
    resolve (bc_of cp) = Some (or_chain_code ch cts).
Proof. exact or_compiles_to_chain_all. Qed.
Print Assumptions C05_or_compiles_to_chain.

Theorem C05_and_compiles_to_chain : forall f e n cp n',
  c_cand f (c_expr f) e n = COk cp n' -> snd (cand_ops e) <> [] ->
  exists cph cpt ch cts,
    compiled_seq (c_rel f (c_expr f)) (S n) (fst (cand_ops e) :: snd (cand_ops e)) (cph :: cpt) n' /\
    resolve (bc_of cph) = Some ch /\ Forall2 (fun c code => resolve (bc_of c) = Some code) cpt cts /\
    resolve (bc_of cp) = Some (and_chain_code ch cts).
Proof. exact and_compiles_to_chain_all. Qed.
Print Assumptions C05_and_compiles_to_chain.

(** c ? t : e.  A condition that is not a compile-time constant: the conditional block.  A constant
    condition: the compiler chooses as the block would — a failure stays that failure, otherwise the
    truthiness of the constant selects the branch's program. *)
Theorem C05_ternary_compiles_to_block : forall f r c t e n cp n',
  c_expr (S f) (ETernary r c t e) n = COk cp n' ->
  exists cc ct cf n1 n2 n3,
    c_cor f (c_expr f) c n = COk cc n1 /\ c_cor f (c_expr f) t n1 = COk ct n2 /\ c_expr f e n2 = COk cf n3 /\
    match cp_node cc with
    | NConst v => cp_node cp = if is_err v then NConst v else if is_truthy v then cp_node ct else cp_node cf
    | NBytecode _ =>
        exists c1 c2 c3, resolve (bc_of cc) = Some c1 /\ resolve (bc_of ct) = Some c2 /\ resolve (bc_of cf) = Some c3 /\
                         resolve (bc_of cp) = Some (tern_code c1 c2 c3)
    end.
Proof. exact ternary_compiles_to_block_all. Qed.
Print Assumptions C05_ternary_compiles_to_block.

Theorem C05_match_compiles_to_block : forall f r c cases n cp n',
  c_expr (S f) (EMatch r c cases) n = COk cp n' ->
  exists cc n1 cps n2 c0 cs,
    c_expr f c n = COk cc n1 /\ compiled_cases f (c_expr f) n1 cases cps n2 /\
    resolve (bc_of cc) = Some c0 /\
    Forall2 (fun pc co => resolve (fst pc) = Some (fst co) /\ resolve (bc_of (snd pc)) = Some (snd co)) cps cs /\
    resolve (bc_of cp) = Some (match_code c0 cs).
Proof. exact match_compiles_to_block_all. Qed.
Print Assumptions C05_match_compiles_to_block.

(** both halves in one statement, for `||` *)
Theorem C05_or_program_evaluates : forall f e n cp n',
  c_cor f (c_expr f) e n = COk cp n' -> snd (cor_ops e) <> [] ->
  exists code ch cts, resolve (bc_of cp) = Some code /\ length cts = length (snd (cor_ops e)) /\
    forall rs E d lg sva lg1 va lg2 res lg3,
      pushes rs E d ch lg sva lg1 -> resolves rs E d sva lg1 va lg2 ->
      chain_run rs E d true or_ va lg2 cts res lg3 ->
      forall st, exists fu, loop rs fu E d code O st lg = (ROk (SVal res :: st), lg3).
Proof. exact or_program_evaluates. Qed.
Print Assumptions C05_or_program_evaluates.

(** the premises are met by parsed source: a three-operand chain has two links *)
Example C05_compiles_to_chain_somewhere :
  match parse_program 40 #"a || b || c" with
  | POk (EUnary _ c) _ =>
      match c_cor 39 (c_expr 39) c O with COk _ _ => Some (length (snd (cor_ops c))) | _ => None end
  | _ => None
  end = Some 2%nat.
Proof. vm_compute. reflexivity. Qed.
