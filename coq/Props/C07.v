(* Props/C07.v — Comprehension macros equal their defining folds; loop variables are lexical. *)
From Coq Require Import ZArith List Bool.
From Rscel Require Import Base.Prims Model.Value Model.Ops Model.Funcs Model.Interp.
From Rscel Require Import Proofs.Macros Proofs.Map3.
Import ListNotations.
Import Coq.Strings.String.StringSyntax.
Open Scope Z_scope.

(** [trace rs E d x body l lg bs lg']: the bodies of the elements of [l], run in
    order under E[x := element] at the loop's depth, succeed with results [bs]. *)

Theorem C07_all_every_truthy : forall rs E d x body l lg bs lg',
  trace rs E d x body l lg bs lg' -> truthy_all bs = true ->
  all_loop rs E d x body l lg = (ROk (VBool true), lg').
Proof. exact all_every_truthy. Qed.
Print Assumptions C07_all_every_truthy.

Theorem C07_all_stops_at_first_falsy : forall rs E d x body pre v post lg bs lg1 b lg2,
  trace rs E d x body pre lg bs lg1 -> truthy_all bs = true ->
  B rs E d x body v lg1 = (ROk (inr b), lg2) -> is_truthy b = false ->
  all_loop rs E d x body (pre ++ v :: post) lg = (ROk (VBool false), lg2).
Proof. exact all_stops_at_first_falsy. Qed.
Print Assumptions C07_all_stops_at_first_falsy.

Theorem C07_all_stops_at_first_failure : forall rs E d x body pre v post lg bs lg1 e lg2,
  trace rs E d x body pre lg bs lg1 -> truthy_all bs = true ->
  B rs E d x body v lg1 = (ROk (inl e), lg2) ->
  all_loop rs E d x body (pre ++ v :: post) lg = (ROk e, lg2).
Proof. exact all_stops_at_first_failure. Qed.
Print Assumptions C07_all_stops_at_first_failure.

Theorem C07_exists_none_truthy : forall rs E d x body l lg bs lg',
  trace rs E d x body l lg bs lg' -> falsy_all bs = true ->
  exists_loop rs E d x body l lg = (ROk (VBool false), lg').
Proof. exact exists_none_truthy. Qed.
Print Assumptions C07_exists_none_truthy.

Theorem C07_exists_stops_at_first_truthy : forall rs E d x body pre v post lg bs lg1 b lg2,
  trace rs E d x body pre lg bs lg1 -> falsy_all bs = true ->
  B rs E d x body v lg1 = (ROk (inr b), lg2) -> is_truthy b = true ->
  exists_loop rs E d x body (pre ++ v :: post) lg = (ROk (VBool true), lg2).
Proof. exact exists_stops_at_first_truthy. Qed.
Print Assumptions C07_exists_stops_at_first_truthy.

Theorem C07_exists_one_counts : forall rs E d x body l lg bs lg' k,
  trace rs E d x body l lg bs lg' -> 0 <= k -> k + count_truthy bs <= 1 ->
  exists_one_loop rs E d x body l k lg = (ROk (VBool (k + count_truthy bs =? 1)), lg').
Proof. exact exists_one_counts. Qed.
Print Assumptions C07_exists_one_counts.

Theorem C07_exists_one_stops_at_second : forall rs E d x body pre v post lg bs lg1 b lg2,
  trace rs E d x body pre lg bs lg1 -> count_truthy bs = 1 ->
  B rs E d x body v lg1 = (ROk (inr b), lg2) -> is_truthy b = true ->
  exists_one_loop rs E d x body (pre ++ v :: post) 0 lg = (ROk (VBool false), lg2).
Proof. exact exists_one_stops_at_second. Qed.
Print Assumptions C07_exists_one_stops_at_second.

(** filter keeps the elements with a truthy predicate, in order and multiplicity *)
Theorem C07_filter_keeps_truthy : forall rs E d x body l lg bs lg' acc,
  trace rs E d x body l lg bs lg' ->
  filter_loop rs E d x body l acc lg = (ROk (VList (rev acc ++ keep l bs)), lg').
Proof. exact filter_keeps_truthy. Qed.
Print Assumptions C07_filter_keeps_truthy.

Theorem C07_filter_stops_at_first_failure : forall rs E d x body pre v post lg bs lg1 e lg2 acc,
  trace rs E d x body pre lg bs lg1 -> B rs E d x body v lg1 = (ROk (inl e), lg2) ->
  filter_loop rs E d x body (pre ++ v :: post) acc lg = (ROk e, lg2).
Proof. exact filter_stops_at_first_failure. Qed.
Print Assumptions C07_filter_stops_at_first_failure.

(** map(x, e) collects e for every element *)
Theorem C07_map2_collects : forall rs E d x body l lg bs lg' acc,
  trace rs E d x body l lg bs lg' ->
  map_loop rs E d x None body l acc lg = (ROk (VList (rev acc ++ bs)), lg').
Proof. exact map2_collects. Qed.
Print Assumptions C07_map2_collects.

(** reduce threads the accumulator from the seed through the step, left to right *)
Theorem C07_reduce_threads_accumulator : forall rs E d cur next body l seed lg a lg',
  rtrace rs E d cur next body l seed lg a lg' ->
  reduce_loop rs E d cur next body l seed lg = (ROk a, lg').
Proof. exact reduce_threads_accumulator. Qed.
Print Assumptions C07_reduce_threads_accumulator.

Theorem C07_reduce_stops_at_first_failure : forall rs E d cur next body pre v post seed lg a lg1 e lg2,
  rtrace rs E d cur next body pre seed lg a lg1 -> S_ rs E d cur next body a v lg1 = (ROk (inl e), lg2) ->
  reduce_loop rs E d cur next body (pre ++ v :: post) seed lg = (ROk e, lg2).
Proof. exact reduce_stops_at_first_failure. Qed.
Print Assumptions C07_reduce_stops_at_first_failure.

(** reduce's nesting bound (the repair of the stack exhaustion by accumulated nesting): an accumulator
    more than 1000 containers deep ends the loop with a value error *)
Theorem C07_reduce_stops_at_deep_accumulator : forall rs E d cur next body pre v post seed lg a lg1 a1 lg2,
  rtrace rs E d cur next body pre seed lg a lg1 -> S_ rs E d cur next body a v lg1 = (ROk (inr a1), lg2) ->
  nested_too_deep a1 = true ->
  reduce_loop rs E d cur next body (pre ++ v :: post) seed lg = (ROk (VErr EValue), lg2).
Proof. exact reduce_stops_at_deep_accumulator. Qed.
Print Assumptions C07_reduce_stops_at_deep_accumulator.

(** the body sees the caller's environment with only the loop variable (re)bound *)
Theorem C07_macro_scope : forall E x v,
  let E' := bind_param E x v in
  map_get (e_params E') x = map_get (map_insert (e_params E) x v) x /\
  e_params E' = map_insert (e_params E) x v /\
  e_progs E' = e_progs E /\ e_ufuncs E' = e_ufuncs E /\ e_runtime E' = e_runtime E /\
  e_now E' = e_now E /\ e_bound E' = e_bound E.
Proof. exact macro_scope. Qed.
Print Assumptions C07_macro_scope.

(** every body of a loop runs at the same depth: iterations do not consume the budget *)
Theorem C07_macro_body_depth_constant : forall rs E d x body v lg,
  B rs E d x body v lg =
  match rs (bind_param E x v) body true d lg with
  | (ROk r, lg') => (ROk (inr r), lg')
  | (RErr e, lg') => (ROk (inl (VErr e)), lg')
  | (o, lg') => (mcast o, lg')
  end.
Proof. exact macro_body_depth_constant. Qed.
Print Assumptions C07_macro_body_depth_constant.

(** on maps filter and map range over the keys in the (sorted) order of the canonical form *)
Theorem C07_map_macros_visit_sorted_keys : forall rs E d m a0 a1,
  call_macro_impl rs E d #"filter" (VMap m) [a0; a1] =
    with_ident rs E a0 (fun x => filter_loop rs E d x a1 (map (fun kv => VString (fst kv)) m) []) /\
  call_macro_impl rs E d #"map" (VMap m) [a0; a1] =
    with_ident rs E a0 (fun x => map_loop rs E d x None a1 (map (fun kv => VString (fst kv)) m) []).
Proof. exact map_macros_visit_sorted_keys. Qed.
Print Assumptions C07_map_macros_visit_sorted_keys.

(** the three-argument map  l.map(x, pred, f): pred on every element in order, f exactly on those whose
    predicate is truthy (right after it), f's values in order; the first failing pred or f ends the loop *)
Theorem C07_map3_filters_then_maps : forall rs E d x pred body l lg ys lg' acc,
  trace3 rs E d x pred body l lg ys lg' ->
  map_loop rs E d x (Some pred) body l acc lg = (ROk (VList (rev acc ++ ys)), lg').
Proof. exact map3_filters_then_maps. Qed.
Print Assumptions C07_map3_filters_then_maps.

Theorem C07_map3_stops_at_failing_predicate : forall rs E d x pred body pre v post lg ys lg1 e lg2 acc,
  trace3 rs E d x pred body pre lg ys lg1 -> Bp rs E d x pred v lg1 = (ROk (inl e), lg2) ->
  map_loop rs E d x (Some pred) body (pre ++ v :: post) acc lg = (ROk e, lg2).
Proof. exact map3_stops_at_failing_predicate. Qed.
Print Assumptions C07_map3_stops_at_failing_predicate.

Theorem C07_map3_stops_at_failing_body : forall rs E d x pred body pre v post lg ys lg1 b lg2 e lg3 acc,
  trace3 rs E d x pred body pre lg ys lg1 -> Bp rs E d x pred v lg1 = (ROk (inr b), lg2) -> is_truthy b = true ->
  Bf rs E d x body v lg2 = (ROk (inl e), lg3) ->
  map_loop rs E d x (Some pred) body (pre ++ v :: post) acc lg = (ROk e, lg3).
Proof. exact map3_stops_at_failing_body. Qed.
Print Assumptions C07_map3_stops_at_failing_body.
