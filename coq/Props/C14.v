(* Props/C14.v — conversions are exact on their domain and reject the rest; f-strings. *)
From Coq Require Import ZArith List Bool Floats.SpecFloat.
From Rscel Require Import Base.Prims Base.F64 Base.Text Base.FloatText Model.Value Model.Ops Model.Dispatch Model.Funcs Model.Interp.
From Rscel Require Import Base.FloatPrint Proofs.Blocks Proofs.Conv Proofs.Seq Proofs.FloatPrint.
Import ListNotations.
Import Coq.Strings.String.StringSyntax.
Open Scope Z_scope.

Theorem C14_int_string_roundtrip : forall now z, in_i64 z = true ->
  construct_type now #"string" [VInt z] = ROk (VString (dec_of_Z z)) /\
  construct_type now #"int" [VString (dec_of_Z z)] = ROk (VInt z).
Proof. exact int_of_string_of_int. Qed.
Print Assumptions C14_int_string_roundtrip.

Theorem C14_uint_string_roundtrip : forall now z, in_u64 z = true ->
  construct_type now #"string" [VUInt z] = ROk (VString (dec_of_Z z)) /\
  construct_type now #"uint" [VString (dec_of_Z z)] = ROk (VUInt z).
Proof. exact uint_of_string_of_uint. Qed.
Print Assumptions C14_uint_string_roundtrip.

(** no wrapped values: negative to uint, uint above the int range *)
Theorem C14_uint_of_int : forall now z,
  construct_type now #"uint" [VInt z] = ROk (if 0 <=? z then VUInt z else VErr EValue).
Proof. exact uint_of_int. Qed.
Print Assumptions C14_uint_of_int.

Theorem C14_int_of_uint : forall now z,
  construct_type now #"int" [VUInt z] = ROk (if z <=? i64_max then VInt z else VErr EValue).
Proof. exact int_of_uint. Qed.
Print Assumptions C14_int_of_uint.

Theorem C14_minus_has_no_unsigned_reading : forall r, parse_u64 (45 :: r) = None.
Proof. exact parse_u64_negative. Qed.
Print Assumptions C14_minus_has_no_unsigned_reading.

(** double -> integer truncates toward zero and saturates *)
Theorem C14_int_of_double : forall now f, construct_type now #"int" [VFloat f] = ROk (VInt (f64_to_i64 f)).
Proof. exact int_of_double. Qed.
Theorem C14_uint_of_double : forall now f, construct_type now #"uint" [VFloat f] = ROk (VUInt (f64_to_u64 f)).
Proof. exact uint_of_double. Qed.
Theorem C14_f64_to_i64_range : forall f, -9223372036854775808 <= f64_to_i64 f <= 9223372036854775807.
Proof. exact f64_to_i64_range. Qed.
Theorem C14_f64_to_u64_range : forall f, 0 <= f64_to_u64 f <= 18446744073709551615.
Proof. exact f64_to_u64_range. Qed.
Theorem C14_f64_to_i64_exact : forall s m e z, f64_trunc (S754_finite s m e) = Some z ->
  -9223372036854775808 <= z <= 9223372036854775807 -> f64_to_i64 (S754_finite s m e) = z.
Proof. exact f64_to_i64_exact. Qed.
Theorem C14_f64_trunc_spec : forall s m e,
  f64_trunc (S754_finite s m e) =
  Some (let mag := if 0 <=? e then Zpos m * 2 ^ e else Zpos m / 2 ^ (- e) in if s then - mag else mag).
Proof. exact f64_trunc_spec. Qed.
Print Assumptions C14_int_of_double.
Print Assumptions C14_uint_of_double.
Print Assumptions C14_f64_to_u64_range.
Print Assumptions C14_f64_trunc_spec.
Print Assumptions C14_f64_to_i64_range.
Print Assumptions C14_f64_to_i64_exact.

Theorem C14_double_of_string : forall now s,
  construct_type now #"double" [VString s] =
  ROk (match rust_parse_f64 s with Some x => VFloat x | None => VErr EValue end).
Proof. exact double_of_string. Qed.
Print Assumptions C14_double_of_string.

(** double(string(d)) == d: what string() prints for a finite double - the shortest digit string that
    reads back, the closer neighbour first - is read back by double() as exactly that double *)
Theorem C14_print_reads_back : forall s m e t,
  print_f64 (S754_finite s m e) = Some t -> rust_parse_f64 t = Some (S754_finite s m e).
Proof. exact print_reads_back. Qed.
Print Assumptions C14_print_reads_back.

Theorem C14_double_of_string_of_double : forall now s m e t,
  construct_type now #"string" [VFloat (S754_finite s m e)] = ROk (VString t) ->
  construct_type now #"double" [VString t] = ROk (VFloat (S754_finite s m e)).
Proof.
  intros now s m e t H. rewrite double_of_string.
  assert (P : print_f64 (S754_finite s m e) = Some t).
  { change (construct_type now #"string" [VFloat (S754_finite s m e)]) with
      (match print_f64 (S754_finite s m e) with Some t0 => ok (VString t0) | None => unmod end) in H.
    destruct (print_f64 (S754_finite s m e)); [inversion H; reflexivity|discriminate]. }
  rewrite (print_reads_back s m e t P). reflexivity.
Qed.
Print Assumptions C14_double_of_string_of_double.

Theorem C14_print_specials :
  print_f64 S754_nan = Some [78; 97; 78] /\ print_f64 (S754_infinity false) = Some [105; 110; 102] /\
  print_f64 (S754_infinity true) = Some [45; 105; 110; 102] /\ print_f64 (S754_zero false) = Some [48] /\
  print_f64 (S754_zero true) = Some [45; 48] /\
  rust_parse_f64 [78; 97; 78] = Some S754_nan /\ rust_parse_f64 [105; 110; 102] = Some (S754_infinity false) /\
  rust_parse_f64 [45; 105; 110; 102] = Some (S754_infinity true) /\ rust_parse_f64 [48] = Some (S754_zero false) /\
  rust_parse_f64 [45; 48] = Some (S754_zero true).
Proof. exact print_specials. Qed.
Print Assumptions C14_print_specials.

(** string(bytes(s)) == s: every string of Unicode scalar values is valid UTF-8 decoding to itself *)
Theorem C14_utf8_roundtrip : forall cs, Forall (fun c => is_scalar c = true) cs ->
  utf8_decode (utf8_encode cs) = Some cs /\ utf8_valid (utf8_encode cs) = true.
Proof. exact utf8_valid_encode. Qed.
Print Assumptions C14_utf8_roundtrip.

Theorem C14_string_of_bytes : forall now b,
  construct_type now #"string" [VBytes b] = ROk (if utf8_valid b then VString b else VErr EValue).
Proof. exact string_of_bytes. Qed.
Theorem C14_bytes_of_string : forall now s, construct_type now #"bytes" [VString s] = ROk (VBytes s).
Proof. exact bytes_of_string. Qed.
Theorem C14_dyn_is_identity : forall now v, construct_type now #"dyn" [v] = ROk v.
Proof. exact dyn_is_identity. Qed.
Print Assumptions C14_string_of_bytes.
Print Assumptions C14_bytes_of_string.
Print Assumptions C14_dyn_is_identity.

(** type(T(x)) == T: whatever a constructor returns is of its type, or an error *)
Theorem C14_result_types : forall now args,
  result_type_ok #"int" (construct_type now #"int" args) /\
  result_type_ok #"uint" (construct_type now #"uint" args) /\
  result_type_ok #"float" (construct_type now #"double" args) /\
  result_type_ok #"string" (construct_type now #"string" args) /\
  result_type_ok #"bytes" (construct_type now #"bytes" args) /\
  result_type_ok #"bool" (construct_type now #"bool" args) /\
  result_type_ok #"duration" (construct_type now #"duration" args) /\
  result_type_ok #"timestamp" (construct_type now #"timestamp" args).
Proof.
  intros now args. repeat split.
  - apply int_result_type. - apply uint_result_type. - apply double_result_type. - apply string_result_type.
  - apply bytes_result_type. - apply bool_result_type. - apply duration_result_type. - apply timestamp_result_type.
Qed.
Print Assumptions C14_result_types.

(** f-strings: segment blocks in order, then FMT = concatenation of the segments' strings *)
Theorem C14_fstring_block : forall rs E d cs lg ts lg',
  pushes_all rs E d cs lg (map (fun t => SVal (VString t)) ts) lg' ->
  forall st, runs rs E d (concat cs ++ [IFmt (Z.of_nat (length ts))]) lg st (SVal (VString (concat ts)) :: st) lg'.
Proof. exact fstring_block. Qed.
Print Assumptions C14_fstring_block.

Example C14_examples :
  construct_type None #"int" [VString #"-9223372036854775808"] = ROk (VInt (-9223372036854775808)) /\
  construct_type None #"uint" [VString #"-1"] = ROk (VErr EValue) /\
  construct_type None #"uint" [VInt (-1)] = ROk (VErr EValue) /\
  construct_type None #"int" [VUInt 18446744073709551615] = ROk (VErr EValue) /\
  construct_type None #"string" [VBytes [255]] = ROk (VErr EValue).
Proof. vm_compute. repeat split. Qed.
