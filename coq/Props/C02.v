(* Props/C02.v — the parser assigns the grammar's precedence, associativity and grouping. *)
From Coq Require Import ZArith List Bool.
From Rscel Require Import Base.Prims Model.Value Model.Lexer Model.Ast Model.Parser.
From Rscel Require Import Proofs.ParseAssoc Proofs.Literals Proofs.StrLit Proofs.Whitespace.
Import ListNotations.
Open Scope Z_scope.

(** equal precedence groups to the left — for the loop every binary level uses *)
Theorem C02_lloop_left_assoc : forall (A B O : Type) (opof : token -> option O) (rhs : P B) (mk : A -> O -> B -> A)
  t items tend, chain opof rhs t items tend ->
  forall n acc, (length items < n)%nat ->
    lloop n opof rhs mk acc t = POk (fold_left (fun a ob => mk a (fst ob) (snd ob)) items acc) tend.
Proof. intros A B O opof rhs mk. exact (lloop_left_assoc opof rhs mk). Qed.
Print Assumptions C02_lloop_left_assoc.

(** the precedence ladder || < && < relations < + - < * / % < unary *)
Theorem C02_levels_are_left_loops : forall rec_expr rec_src,
  p_cor rec_expr rec_src =
    (let! u := p_cand rec_expr rec_src in
     fun t => lloop (loop_fuel t) (fun k => match k with TOrOr => Some tt | _ => None end) (p_cand rec_expr rec_src)
                (fun acc _ b => OrBin (surrounding (cor_range acc) (cand_range b)) acc b) (OrUn (cand_range u) u) t) /\
  p_cand rec_expr rec_src =
    (let! u := p_rel rec_expr rec_src in
     fun t => lloop (loop_fuel t) (fun k => match k with TAndAnd => Some tt | _ => None end) (p_rel rec_expr rec_src)
                (fun acc _ b => AndBin (surrounding (cand_range acc) (rel_range b)) acc b) (AndUn (rel_range u) u) t) /\
  p_rel rec_expr rec_src =
    (let! u := p_addn rec_expr rec_src in
     fun t => lloop (loop_fuel t) relop_of (p_addn rec_expr rec_src)
                (fun acc op b => RelBin (surrounding (rel_range acc) (addn_range b)) acc op b) (RelUn (addn_range u) u) t) /\
  p_addn rec_expr rec_src =
    (let! u := p_mult rec_expr rec_src in
     fun t => lloop (loop_fuel t) addop_of (p_mult rec_expr rec_src)
                (fun acc op b => AddBin (surrounding (addn_range acc) (mult_range b)) acc op b) (AddUn (mult_range u) u) t) /\
  p_mult rec_expr rec_src =
    (let! u := p_unary rec_expr rec_src in
     fun t => lloop (loop_fuel t) mulop_of (p_unary rec_expr rec_src)
                (fun acc op b => MulBin (surrounding (mult_range acc) (unary_range b)) acc op b) (MulUn (unary_range u) u) t).
Proof. exact levels_are_left_loops. Qed.
Print Assumptions C02_levels_are_left_loops.

Theorem C02_operator_classes :
  (forall t, relop_of t <> None <-> In t [TLessThan; TLessEqual; TEqualEqual; TNotEqual; TGreaterEqual; TGreaterThan; TIn]) /\
  (forall t, addop_of t <> None <-> In t [TAdd; TMinus]) /\
  (forall t, mulop_of t <> None <-> In t [TMultiply; TDivide; TMod]).
Proof. exact operator_classes. Qed.
Print Assumptions C02_operator_classes.

(** ?: binds loosest; its else branch is a whole expression (nests to the right) *)
Theorem C02_ternary_shape : forall rec_expr rec_src t o t0 l t1 q t2 x t3 tc t4 col t5 fc t6,
  peek t = POk o t0 -> (forall ml, o <> Some (mkTok TMatch ml)) ->
  p_cor rec_expr rec_src t0 = POk l t1 ->
  peek t1 = POk q t2 -> is_tok q TQuestion = true ->
  next t2 = POk x t3 -> p_cor rec_expr rec_src t3 = POk tc t4 ->
  next t4 = POk col t5 -> is_tok col TColon = true ->
  rec_expr t5 = POk fc t6 ->
  p_expr_body rec_expr rec_src t = POk (ETernary (surrounding (cor_range l) (expr_range fc)) l tc fc) t6.
Proof. exact ternary_shape. Qed.
Print Assumptions C02_ternary_shape.

Theorem C02_no_question_is_plain : forall rec_expr rec_src t o t0 l t1 q t2,
  peek t = POk o t0 -> (forall ml, o <> Some (mkTok TMatch ml)) ->
  p_cor rec_expr rec_src t0 = POk l t1 -> peek t1 = POk q t2 -> is_tok q TQuestion = false ->
  p_expr_body rec_expr rec_src t = POk (EUnary (cor_range l) l) t2.
Proof. exact no_question_is_plain. Qed.
Print Assumptions C02_no_question_is_plain.

(** parentheses override: what stands between them is parsed as a whole expression *)
Theorem C02_parens_restart : forall rec_expr rec_src t l t1 e t2 rl t3,
  next t = POk (Some (mkTok TLParen l)) t1 -> rec_expr t1 = POk e t2 ->
  next t2 = POk (Some (mkTok TRParen rl)) t3 ->
  p_primary rec_expr rec_src t = POk (PrParens (surrounding l rl) e) t3.
Proof. exact parens_restart. Qed.
Print Assumptions C02_parens_restart.

(** non-vacuity: a - b - c * d groups as (a - b) - (c * d); a ? b : c ? d : e nests right *)
Definition shape_of (src : chars) : option (list token) :=
  match lex src with LOk l _ => Some (map t_tok l) | _ => None end.
Example C02_example :
  (match parse_program 50 [97; 45; 98; 45; 99; 42; 100] with
   | POk (EUnary _ (OrUn _ (AndUn _ (RelUn _ (AddBin _ (AddBin _ (AddUn _ _) AOSub (MulUn _ _)) AOSub (MulBin _ (MulUn _ _) MOMul _)))))) _ => true
   | _ => false end) = true /\
  (match parse_program 50 [97; 63; 98; 58; 99; 63; 100; 58; 101] with
   | POk (ETernary _ _ _ (ETernary _ _ _ (EUnary _ _))) _ => true
   | _ => false end) = true.
Proof. vm_compute. split; reflexivity. Qed.

(** white space before a token is skipped whatever its amount: the tokenizer reaches the same character
    with the same remaining input after any run of blanks, tabs and newlines *)
Theorem C02_leading_whitespace_irrelevant : forall ws1 ws2 c rest,
  Forall (fun x => is_ws x = true) ws1 -> Forall (fun x => is_ws x = true) ws2 -> is_ws c = false ->
  let r1 := skip_ws (S (length (ws1 ++ c :: rest))) (mkScan (ws1 ++ c :: rest) 0 0) in
  let r2 := skip_ws (S (length (ws2 ++ c :: rest))) (mkScan (ws2 ++ c :: rest) 0 0) in
  snd (fst r1) = snd (fst r2) /\ sc_rest (snd r1) = sc_rest (snd r2) /\ sc_rest (snd r1) = rest.
Proof. exact leading_whitespace_irrelevant. Qed.
Print Assumptions C02_leading_whitespace_irrelevant.
