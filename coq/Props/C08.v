(* Props/C08.v — has() and coalesce() distinguish absent data from every other failure. *)
From Coq Require Import ZArith List Bool.
From Rscel Require Import Base.Prims Model.Value Model.Ops Model.Funcs Model.Interp.
From Rscel Require Import Proofs.Blocks Proofs.Absent.
Import ListNotations.
Import Coq.Strings.String.StringSyntax.
Open Scope Z_scope.

Theorem C08_has_spec : forall rs E d this c lg,
  call_macro_impl rs E d #"has" this [c] lg =
  match rs E c true d lg with
  | (ROk _, lg') => (ROk (VBool true), lg')
  | (RErr e, lg') => if absent e then (ROk (VBool false), lg') else (ROk (VErr e), lg')
  | (o, lg') => (mcast o, lg')
  end.
Proof. exact has_spec. Qed.
Print Assumptions C08_has_spec.

Theorem C08_has_arity : forall rs E d this args,
  length args <> 1%nat -> forall lg, call_macro_impl rs E d #"has" this args lg = (ROk (VErr EArgument), lg).
Proof. exact has_arity. Qed.
Print Assumptions C08_has_arity.

Theorem C08_coalesce_first_present : forall rs E d pre c post lg lg1 v lg2,
  all_skipped rs E d pre lg lg1 -> rs E c true d lg1 = (ROk v, lg2) -> v <> VNull ->
  coalesce_loop rs E d (pre ++ c :: post) lg = (ROk v, lg2).
Proof. exact coalesce_first_present. Qed.
Print Assumptions C08_coalesce_first_present.

Theorem C08_coalesce_other_failure : forall rs E d pre c post lg lg1 e lg2,
  all_skipped rs E d pre lg lg1 -> rs E c true d lg1 = (RErr e, lg2) -> absent e = false ->
  coalesce_loop rs E d (pre ++ c :: post) lg = (ROk (VErr e), lg2).
Proof. exact coalesce_other_failure. Qed.
Print Assumptions C08_coalesce_other_failure.

Theorem C08_coalesce_nothing_qualifies : forall rs E d args lg lg',
  all_skipped rs E d args lg lg' -> coalesce_loop rs E d args lg = (ROk VNull, lg').
Proof. exact coalesce_nothing_qualifies. Qed.
Print Assumptions C08_coalesce_nothing_qualifies.

(** a field path computes the fold of [field] over its names, at any offset of any block *)
Theorem C08_path_run : forall rs E d, e_bound E = true -> folding E = false ->
  forall fs v st lg,
    Forall (plainv) (path_vals v fs) ->
    (forall f, In f fs -> has_func E f = false /\ has_macro E f = false) ->
    forall p q, exists fuel, forall extra,
      loop rs (fuel + extra) E d (p ++ path_code fs ++ q) (length p) (SVal v :: st) lg =
      loop rs extra E d (p ++ path_code fs ++ q) (length p + length (path_code fs)) (SVal (fold_left field fs v) :: st) lg.
Proof. exact path_run. Qed.
Print Assumptions C08_path_run.

(** classification: once a step is missing (or meets a non-map, or an error
    such as an unbound root) the path denotes an absent-field error *)
Theorem C08_path_absent_propagates : forall fs v,
  (forall m, v <> VMap m) -> is_err v = false -> fs <> [] ->
  exists f, fold_left field fs v = VErr (EAttribute f).
Proof. exact path_absent_propagates. Qed.
Print Assumptions C08_path_absent_propagates.

(** a failure is carried along the path unchanged: an unbound root stays
    "unbound" (absent data), a division by zero stays a division by zero *)
Theorem C08_path_from_error : forall fs e, fold_left field fs (VErr e) = VErr e.
Proof. exact path_from_error. Qed.
Print Assumptions C08_path_from_error.

Example C08_witness :
  fold_left field [[97]; [98]] (VMap [([97], VMap [([98], VInt 7)])]) = VInt 7 /\
  fold_left field [[97]; [122]] (VMap [([97], VMap [([98], VInt 7)])]) = VErr (EAttribute [122]) /\
  fold_left field [[97]; [98]] (VErr (EBinding [120])) = VErr (EBinding [120]) /\
  absent (EAttribute [98]) = true /\ absent EDivZero = false.
Proof. vm_compute. repeat split. Qed.
