(* Props/C12.v — resolution order, call order, fields before methods, replacement,
   depth-bounded chains of program references. *)
From Coq Require Import ZArith List Bool.
From Rscel Require Import Base.Prims Model.Value Model.Ops Model.Funcs Model.Interp Model.Compile Model.Context.
From Rscel Require Import Model.Json Spec.Wf.
From Rscel Require Import Proofs.Blocks Proofs.OpsColl Proofs.Macros Proofs.Context Proofs.Resolve Proofs.Json.
Import ListNotations.
Open Scope Z_scope.

Theorem C12_resolve_order : forall rs E d name lg,
  resolve_ident rs E d name lg =
  match env_type E name, env_param E name, assoc name (e_progs E) with
  | Some t, _, _ => (ROk t, lg)
  | None, Some v, _ => (ROk v, lg)
  | None, None, Some c => rs E c true d lg
  | None, None, None =>
      match e_now E with
      | None => (RErr (EBinding name), runtime_mark :: lg)
      | Some _ => (ROk (VErr (EBinding name)), lg)
      end
  end.
Proof. exact resolve_order. Qed.
Print Assumptions C12_resolve_order.

Theorem C12_call_order : forall rs E d name n st lg,
  step rs E d (ICall n) (SVal (VIdent name) :: st) lg =
  match pop_n rs E d (Z.to_nat n) st lg with
  | (ROk (args, st2), lg1) =>
      if has_func E name then
        (do vals <- resolve_args rs E d args; do r <- call_func E name VNull vals; mret (None, push r st2)) lg1
      else if has_macro E name then
        (do r <- call_macro rs E d name VNull args; mret (None, push r st2)) lg1
      else match env_type E name with
           | Some (VType tn) =>
               (do vals <- resolve_args rs E d args;
                do _ <- note_clock E (asks_clock_ty tn vals);
                do r <- mlift (construct_type (e_now E) tn vals); mret (None, push r st2)) lg1
           | _ => (if folding E then mfail_runtime ERuntime else mret (None, push (VErr ERuntime) st2)) lg1
           end
  | (o, lg1) => (mcast o, lg1)
  end.
Proof. exact call_order. Qed.
Print Assumptions C12_call_order.

Theorem C12_field_over_method : forall rs E d m f v st lg,
  map_get m f = Some v ->
  step rs E d IAccess (SVal (VIdent f) :: SVal (VMap m) :: st) lg = (ROk (None, push v st), lg).
Proof. exact field_over_method. Qed.
Print Assumptions C12_field_over_method.

(** rebinding / re-adding replaces for later executions *)
Theorem C12_bind_replaces : forall fuel w b name v k, sorted_world w ->
  map_get (get_bind (fst (step_op fuel w (OBind b name v))) b) k =
  if bytes_eqb k name then Some v else map_get (get_bind w b) k.
Proof. exact bind_replaces. Qed.
Print Assumptions C12_bind_replaces.

Theorem C12_add_program_replaces : forall fuel w c name src k, sorted_world w ->
  map_get (get_ctx (fst (step_op fuel w (OAddProgram c name src))) c) k =
  match compiled fuel src with
  | Some s => if bytes_eqb k name then Some s else map_get (get_ctx w c) k
  | None => map_get (get_ctx w c) k
  end.
Proof. exact add_program_replaces. Qed.
Print Assumptions C12_add_program_replaces.

Theorem C12_histories_keep_stores_canonical : forall fuel ops w, sorted_world w -> sorted_world (fst (run_ops fuel w ops)).
Proof. exact history_sorted. Qed.
Print Assumptions C12_histories_keep_stores_canonical.

(** a value bound through JSON arrives as the value bound directly (an
    unsigned integer that fits a signed one arrives signed) *)
Theorem C12_json_roundtrip : forall v j, wf v = true -> json_of_value v = Some j -> value_of_json j = canon v.
Proof. exact json_roundtrip. Qed.
Print Assumptions C12_json_roundtrip.

(** the depth guard *)
Theorem C12_run_depth_guard : forall fuel E c r d lg, (32 <= d)%nat -> run (S fuel) E c r d lg = (RErr ERuntime, lg).
Proof. exact run_depth_guard. Qed.
Print Assumptions C12_run_depth_guard.

(** chains of up to 32 programs evaluate (for every fuel beyond the few steps needed) *)
Theorem C12_exec_chain_ok : forall E nm v k fuel,
  (forall i, env_type E (nm i) = None) -> (forall i, env_param E (nm i) = None) ->
  plainv v -> is_err v = false -> assoc (nm k) (e_progs E) = Some [IPush v] ->
  (forall i, (i < k)%nat -> links E nm i) -> (k < 32)%nat -> (k + 3 <= fuel)%nat ->
  exec fuel E (nm 0%nat) = (ROk v, []).
Proof. exact exec_chain_ok. Qed.
Print Assumptions C12_exec_chain_ok.

(** endless chains — cycles of any period, chains longer than the budget — end in a runtime error *)
Theorem C12_exec_chain_too_deep : forall E nm fuel,
  (forall i, env_type E (nm i) = None) -> (forall i, env_param E (nm i) = None) ->
  (forall i, links E nm i) -> (35 <= fuel)%nat ->
  exec fuel E (nm 0%nat) = (RErr ERuntime, []).
Proof. exact exec_chain_too_deep. Qed.
Print Assumptions C12_exec_chain_too_deep.

Theorem C12_self_reference_fails : forall E a fuel,
  env_type E a = None -> env_param E a = None -> assoc a (e_progs E) = Some [IPush (VIdent a)] ->
  (35 <= fuel)%nat -> exec fuel E a = (RErr ERuntime, []).
Proof. exact self_reference_fails. Qed.
Print Assumptions C12_self_reference_fails.

Theorem C12_mutual_reference_fails : forall E a b fuel,
  env_type E a = None -> env_param E a = None -> env_type E b = None -> env_param E b = None ->
  assoc a (e_progs E) = Some [IPush (VIdent b)] -> assoc b (e_progs E) = Some [IPush (VIdent a)] ->
  (35 <= fuel)%nat -> exec fuel E a = (RErr ERuntime, []).
Proof. exact mutual_reference_fails. Qed.
Print Assumptions C12_mutual_reference_fails.

(** loop iterations run at the loop's own depth: they do not use up the budget *)
Theorem C12_macro_body_depth_constant : forall rs E d x body v lg,
  B rs E d x body v lg =
  match rs (bind_param E x v) body true d lg with
  | (ROk r, lg') => (ROk (inr r), lg')
  | (RErr e, lg') => (ROk (inl (VErr e)), lg')
  | (o, lg') => (mcast o, lg')
  end.
Proof. exact macro_body_depth_constant. Qed.
Print Assumptions C12_macro_body_depth_constant.

(** non-vacuity: a chain of three in a real context, and a cycle through a macro body *)
Example C12_chain_example :
  let ops := [OAddProgram 0 [97] [98]%Z; OAddProgram 0 [98] [99]%Z; OAddProgram 0 [99] [55]%Z; OExec 0 0 [97];
              OAddProgram 0 [99] [97]%Z; OExec 0 0 [97]] in
  snd (run_ops 200 empty_world ops) =
  [OutNone; OutNone; OutNone; OutResult (ROk (VInt 7)); OutNone; OutResult (RErr ERuntime)].
Proof. vm_compute. reflexivity. Qed.
