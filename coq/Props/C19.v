(* Props/C19.v — serialized programs: what is written reads back as the same program. *)
From Coq Require Import ZArith List Bool.
From Rscel Require Import Base.Prims Model.Value Model.Serde.
From Rscel Require Import Proofs.Serde.
Import ListNotations.
Open Scope Z_scope.

Theorem C19_de_ser_roundtrip :
  (forall v, de_value (ser_value v) = Some (quant v)) /\ (forall i, de_instr (ser_instr i) = Some (quant_instr i)).
Proof. exact de_ser_roundtrip. Qed.
Print Assumptions C19_de_ser_roundtrip.

Theorem C19_quant_id :
  (forall v, ms_res v -> quant v = v) /\ (forall i, ms_res_instr i -> quant_instr i = i).
Proof. exact quant_id. Qed.
Print Assumptions C19_quant_id.

Theorem C19_code_roundtrip : forall c, Forall ms_res_instr c ->
  all_some (map de_instr (map ser_instr c)) = Some c.
Proof. exact code_roundtrip. Qed.
Print Assumptions C19_code_roundtrip.

Theorem C19_ser_injective : forall v1 v2, ser_value v1 = ser_value v2 -> quant v1 = quant v2.
Proof. exact ser_injective. Qed.
Print Assumptions C19_ser_injective.

Theorem C19_error_roundtrip : forall e, de_err (ser_err e) = Some e.
Proof. exact de_ser_err. Qed.
Print Assumptions C19_error_roundtrip.
