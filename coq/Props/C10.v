(* Props/C10.v — Emitted bytecode is well-formed on every path; the VM checks jumps. *)
From Coq Require Import ZArith List Bool.
From Rscel Require Import Base.Prims Model.Value Model.Interp Spec.WfCode Proofs.VM.
Import ListNotations.
Open Scope Z_scope.

(** Every instruction that does not fail has the fixed stack effect
    (pops, pushes) of Spec/WfCode.v; in particular it never succeeds on a
    stack that is too short, and only Jmp / JmpCond transfer control. *)
Theorem C10_step_stack_effect :
  forall rs E d i st lg j st' lg',
    step rs E d i st lg = (ROk (j, st'), lg') ->
    (pops i <= length st)%nat /\
    length st' = (length st - pops i + pushes i)%nat /\
    jump_of i j.
Proof. exact step_height. Qed.
Print Assumptions C10_step_stack_effect.

(** The checker accepts a block only with a validated height assignment,
    and every nested block it contains is accepted hereditarily. *)
Theorem C10_wf_code_has_certificate :
  forall f c, wf_code (S f) c = true -> exists H, validate (wf_code f) c H = true.
Proof.
  intros f c. cbn [wf_code]. destruct (infer c (init_heights c)) as [H|]; [|discriminate]. eauto.
Qed.
Print Assumptions C10_wf_code_has_certificate.

Theorem C10_nested_blocks_checked :
  forall wfn c H pc b, validate wfn c H = true -> nth_error c pc = Some (IPush (VCode b)) -> wfn b = true.
Proof.
  intros wfn c H pc b Hv Hn. pose proof (val_at wfn c H Hv pc _ Hn) as Ha.
  unfold valid_at in Ha. apply andb_true_iff in Ha. destruct Ha as [Ha _].
  apply andb_true_iff in Ha. destruct Ha as [Ha _]. exact Ha.
Qed.
Print Assumptions C10_nested_blocks_checked.

(** Invariant: along every execution path of a validated block the stack
    height is the assigned one; control only moves forward and stays inside
    the block or exactly at its end. *)
Theorem C10_validated_invariant :
  forall rs E d wfn c H, validate wfn c H = true ->
  forall pc st lg pc' st' lg',
    reach rs E d c pc st lg pc' st' lg' ->
    nth_error H pc = Some (Some (length st)) ->
    nth_error H pc' = Some (Some (length st')) /\ (pc <= pc' <= length c)%nat.
Proof. exact reach_invariant. Qed.
Print Assumptions C10_validated_invariant.

(** Each step moves strictly forward (so a block executes at most one step
    per instruction: control flow is loop-free), and its jump is in range. *)
Theorem C10_strictly_forward :
  forall rs E d wfn c H, validate wfn c H = true ->
  forall pc i st lg j st' lg',
    nth_error c pc = Some i ->
    nth_error H pc = Some (Some (length st)) ->
    step rs E d i st lg = (ROk (j, st'), lg') ->
    exists pc', next_pc c pc j = Some pc' /\ (pc < pc' <= length c)%nat /\
                nth_error H pc' = Some (Some (length st')).
Proof. exact step_preserves. Qed.
Print Assumptions C10_strictly_forward.

(** No path pops from an empty stack. *)
Theorem C10_no_underflow :
  forall rs E d wfn c H, validate wfn c H = true ->
  forall lg pc st lg' i,
    reach rs E d c O [] lg pc st lg' -> nth_error c pc = Some i -> (pops i <= length st)%nat.
Proof. exact wf_no_underflow. Qed.
Print Assumptions C10_no_underflow.

(** Every path that reaches the end of the block does so with exactly one value. *)
Theorem C10_one_value_at_end :
  forall rs E d wfn c H, validate wfn c H = true ->
  forall lg st lg', reach rs E d c O [] lg (length c) st lg' -> length st = 1%nat.
Proof. exact wf_one_value_at_end. Qed.
Print Assumptions C10_one_value_at_end.

Theorem C10_loop_result_height :
  forall rs E d wfn c H, validate wfn c H = true ->
  forall fuel pc st lg st' lg',
    nth_error H pc = Some (Some (length st)) ->
    loop rs fuel E d c pc st lg = (ROk st', lg') -> length st' = 1%nat.
Proof. exact loop_result_height. Qed.
Print Assumptions C10_loop_result_height.

(** The VM rejects any out-of-range jump with an error and never reads
    outside the program: a jump target is either inside [0, len] or the run
    ends in a Runtime error. *)
Theorem C10_jump_target_checked :
  forall pc dist len,
    match jump_target pc dist len with
    | Some t => (Z.of_nat t = Z.of_nat pc + dist) /\ (t <= len)%nat
    | None => Z.of_nat pc + dist < 0 \/ Z.of_nat len < Z.of_nat pc + dist
    end.
Proof. exact jump_target_checked. Qed.
Print Assumptions C10_jump_target_checked.

Theorem C10_out_of_range_jump_is_error :
  forall rs f E d c pc st lg i dist st1 lg1,
    nth_error c pc = Some i ->
    step rs E d i st lg = (ROk (Some dist, st1), lg1) ->
    jump_target (S pc) dist (length c) = None ->
    loop rs (S f) E d c pc st lg = (RErr ERuntime, lg1).
Proof. exact loop_jump_out_of_range_is_error. Qed.
Print Assumptions C10_out_of_range_jump_is_error.

(** Non-vacuity: the code emitted for [a ? b : c] and for [x || y] is accepted. *)
Example C10_witness :
  wf_code 3 [IPush (VIdent [97]); ITest; IDup; IJmpCond false 3; IPop; IPush (VIdent [98]); IJmp 5;
             IDup; INot; IJmpCond false 2; IPop; IPush (VIdent [99])] = true /\
  wf_code 3 [IPush (VIdent [120]); ITest; IDup; IJmpCond true 2; IPush (VIdent [121]); IOr] = true /\
  wf_code 3 [IPush (VIdent [120]); IPop; IPop] = false /\
  wf_code 3 [IJmp 5; IPush VNull] = false.
Proof. vm_compute. repeat split. Qed.
