(* Props/C10.v — Emitted bytecode is well-formed on every path; the VM checks jumps. *)
From Coq Require Import ZArith List Bool.
From Rscel Require Import Base.Prims Model.Value Model.Interp Model.Lexer Model.Ast Model.Parser Model.Compile Spec.WfCode Proofs.VM.
From Rscel Require Import Proofs.Asm Proofs.TreeAlg Proofs.CompileWf.
Import ListNotations.
From Coq Require Strings.String.
Import Coq.Strings.String.StringSyntax.
Open Scope Z_scope.

(** Every instruction that does not fail has the fixed stack effect
    (pops, pushes) of Spec/WfCode.v; in particular it never succeeds on a
    stack that is too short, and only Jmp / JmpCond transfer control. *)
Theorem C10_step_stack_effect :
  forall rs E d i st lg j st' lg',
    step rs E d i st lg = (ROk (j, st'), lg') ->
    (pops i <= length st)%nat /\
    length st' = (length st - pops i + pushes i)%nat /\
    jump_of i j.
Proof. exact step_height. Qed.
Print Assumptions C10_step_stack_effect.

(** The checker accepts a block only with a validated height assignment,
    and every nested block it contains is accepted hereditarily. *)
Theorem C10_wf_code_has_certificate :
  forall f c, wf_code (S f) c = true -> exists H, validate (wf_code f) c H = true.
Proof.
  intros f c. cbn [wf_code]. destruct (infer c (init_heights c)) as [H|]; [|discriminate]. eauto.
Qed.
Print Assumptions C10_wf_code_has_certificate.

Theorem C10_nested_blocks_checked :
  forall wfn c H pc b, validate wfn c H = true -> nth_error c pc = Some (IPush (VCode b)) -> wfn b = true.
Proof.
  intros wfn c H pc b Hv Hn. pose proof (val_at wfn c H Hv pc _ Hn) as Ha.
  unfold valid_at in Ha. apply andb_true_iff in Ha. destruct Ha as [Ha _].
  apply andb_true_iff in Ha. destruct Ha as [Ha _]. exact Ha.
Qed.
Print Assumptions C10_nested_blocks_checked.

(** Invariant: along every execution path of a validated block the stack
    height is the assigned one; control only moves forward and stays inside
    the block or exactly at its end. *)
Theorem C10_validated_invariant :
  forall rs E d wfn c H, validate wfn c H = true ->
  forall pc st lg pc' st' lg',
    reach rs E d c pc st lg pc' st' lg' ->
    nth_error H pc = Some (Some (length st)) ->
    nth_error H pc' = Some (Some (length st')) /\ (pc <= pc' <= length c)%nat.
Proof. exact reach_invariant. Qed.
Print Assumptions C10_validated_invariant.

(** Each step moves strictly forward (so a block executes at most one step
    per instruction: control flow is loop-free), and its jump is in range. *)
Theorem C10_strictly_forward :
  forall rs E d wfn c H, validate wfn c H = true ->
  forall pc i st lg j st' lg',
    nth_error c pc = Some i ->
    nth_error H pc = Some (Some (length st)) ->
    step rs E d i st lg = (ROk (j, st'), lg') ->
    exists pc', next_pc c pc j = Some pc' /\ (pc < pc' <= length c)%nat /\
                nth_error H pc' = Some (Some (length st')).
Proof. exact step_preserves. Qed.
Print Assumptions C10_strictly_forward.

(** No path pops from an empty stack. *)
Theorem C10_no_underflow :
  forall rs E d wfn c H, validate wfn c H = true ->
  forall lg pc st lg' i,
    reach rs E d c O [] lg pc st lg' -> nth_error c pc = Some i -> (pops i <= length st)%nat.
Proof. exact wf_no_underflow. Qed.
Print Assumptions C10_no_underflow.

(** Every path that reaches the end of the block does so with exactly one value. *)
Theorem C10_one_value_at_end :
  forall rs E d wfn c H, validate wfn c H = true ->
  forall lg st lg', reach rs E d c O [] lg (length c) st lg' -> length st = 1%nat.
Proof. exact wf_one_value_at_end. Qed.
Print Assumptions C10_one_value_at_end.

Theorem C10_loop_result_height :
  forall rs E d wfn c H, validate wfn c H = true ->
  forall fuel pc st lg st' lg',
    nth_error H pc = Some (Some (length st)) ->
    loop rs fuel E d c pc st lg = (ROk st', lg') -> length st' = 1%nat.
Proof. exact loop_result_height. Qed.
Print Assumptions C10_loop_result_height.

(** The VM rejects any out-of-range jump with an error and never reads
    outside the program: a jump target is either inside [0, len] or the run
    ends in a Runtime error. *)
Theorem C10_jump_target_checked :
  forall pc dist len,
    match jump_target pc dist len with
    | Some t => (Z.of_nat t = Z.of_nat pc + dist) /\ (t <= len)%nat
    | None => Z.of_nat pc + dist < 0 \/ Z.of_nat len < Z.of_nat pc + dist
    end.
Proof. exact jump_target_checked. Qed.
Print Assumptions C10_jump_target_checked.

Theorem C10_out_of_range_jump_is_error :
  forall rs f E d c pc st lg i dist st1 lg1,
    nth_error c pc = Some i ->
    step rs E d i st lg = (ROk (Some dist, st1), lg1) ->
    jump_target (S pc) dist (length c) = None ->
    loop rs (S f) E d c pc st lg = (RErr ERuntime, lg1).
Proof. exact loop_jump_out_of_range_is_error. Qed.
Print Assumptions C10_out_of_range_jump_is_error.

(** Non-vacuity: the code emitted for [a ? b : c] and for [x || y] is accepted. *)
Example C10_witness :
  wf_code 3 [IPush (VIdent [97]); ITest; IDup; IJmpCond false 3; IPop; IPush (VIdent [98]); IJmp 5;
             IDup; INot; IJmpCond false 2; IPop; IPush (VIdent [99])] = true /\
  wf_code 3 [IPush (VIdent [120]); ITest; IDup; IJmpCond true 2; IPush (VIdent [121]); IOr] = true /\
  wf_code 3 [IPush (VIdent [120]); IPop; IPop] = false /\
  wf_code 3 [IJmp 5; IPush VNull] = false.
Proof. vm_compute. repeat split. Qed.

(** * Every program the compiler emits is well-formed (for all expressions, not per program)

    The label assembler: a tree of instructions, label jumps, labels and already-resolved chunks
    that follows the stack-height discipline from an empty stack to exactly one value, whose labels
    are defined once and after their uses, resolves to code that passes the validator. *)
Theorem C10_assembler : forall wfn T G,
  tcheck T (Some 0%nat) (fun _ => None) = Some (Some 1%nat, G) ->
  tnested wfn T -> tfwd [] T -> NoDup (tdefs T) ->
  exists code H, resolve (flat T) = Some code /\ validate wfn code H = true.
Proof. exact resolve_valid. Qed.
Print Assumptions C10_assembler.

(** Code generation, for EVERY expression, fuel and label counter: when the compiler returns, the code it
    returns resolves (the duplicate / undefined label panic of the Rust code is unreachable) and is valid:
    jumps land in the block or at its end, no path pops from an empty stack, paths that meet agree on the
    height, the block ends with exactly one value.  Every nested block (call argument, macro body, f-string
    segment) is pushed as the resolved output of such a call, so the same theorem covers it. *)
Theorem C10_compiled_code_is_valid : forall fuel e n cp n',
  c_expr fuel e n = COk cp n' ->
  exists code H, resolve (into_bytecode (cp_node cp)) = Some code /\ validate wf1 code H = true.
Proof. exact compiled_code_is_valid. Qed.
Print Assumptions C10_compiled_code_is_valid.

Theorem C10_compile_source_is_valid : forall fuel src p k,
  compile_source fuel src = COk p k -> exists H, validate wf1 (pr_code p) H = true.
Proof. exact compile_source_is_valid. Qed.
Print Assumptions C10_compile_source_is_valid.

Theorem C10_compile_never_label_panic : forall fuel src e t cp n,
  parse_program fuel src = POk e t -> c_expr fuel e 0%nat = COk cp n ->
  exists p, compile_source fuel src = COk p n /\ pr_ast p = e.
Proof. exact compile_source_never_label_panic. Qed.
Print Assumptions C10_compile_never_label_panic.

(** not vacuous: a program with ||, &&, ?:, match, a call, a list, an index and an f-string compiles *)
Example C10_compiles_somewhere :
  match compile_source 60 #"a || b && c ? [1, x][0] : match y { case 1: f(x, 2), case _: f'{x}' }" with
  | COk p _ => Nat.ltb 20%nat (length (pr_code p))
  | _ => false
  end = true.
Proof. vm_compute. reflexivity. Qed.
