(* Props/C20.v — CEL -> SQL preserves structure and cannot be escaped by literals. *)
From Coq Require Import ZArith List Bool.
From Rscel Require Import Base.Prims Base.Text Model.Value Model.Lexer Model.Ast Model.Sql.
From Rscel Require Import Proofs.Sql.
Import ListNotations.
Import Coq.Strings.String.StringSyntax.
Open Scope Z_scope.

Theorem C20_string_literal_is_one_sql_literal : forall s rest, not_quote_head rest ->
  sql_read_string (sql_quote s ++ rest) = Some (s, rest).
Proof. exact string_literal_is_one_sql_literal. Qed.
Print Assumptions C20_string_literal_is_one_sql_literal.

Theorem C20_literal_translation : forall s r, sql_primary (PrLit r (LStr s)) = SqlOk (sql_quote s).
Proof. exact literal_translation. Qed.
Print Assumptions C20_literal_translation.

Theorem C20_binary_structure :
  (forall r l op rhs ls rs, sql_addn l = SqlOk ls -> sql_mult rhs = SqlOk rs ->
     sql_addn (AddBin r l op rhs) = SqlOk ([40] ++ ls ++ [41; 32] ++ addop_sql op ++ [32; 40] ++ rs ++ [41])) /\
  (forall r l op rhs ls rs, sql_mult l = SqlOk ls -> sql_unary rhs = SqlOk rs ->
     sql_mult (MulBin r l op rhs) = SqlOk ([40] ++ ls ++ [41; 32] ++ mulop_sql op ++ [32; 40] ++ rs ++ [41])) /\
  (forall r l op rhs ls rs, sql_rel l = SqlOk ls -> sql_addn rhs = SqlOk rs ->
     sql_rel (RelBin r l op rhs) = SqlOk ([40] ++ ls ++ [41; 32] ++ relop_sql op ++ [32; 40] ++ rs ++ [41])) /\
  (forall r l rhs ls rs, sql_cand l = SqlOk ls -> sql_rel rhs = SqlOk rs ->
     sql_cand (AndBin r l rhs) = SqlOk ([40] ++ ls ++ [41; 32] ++ #"AND" ++ [32; 40] ++ rs ++ [41])) /\
  (forall r l rhs ls rs, sql_cor l = SqlOk ls -> sql_cand rhs = SqlOk rs ->
     sql_cor (OrBin r l rhs) = SqlOk ([40] ++ ls ++ [41; 32] ++ #"OR" ++ [32; 40] ++ rs ++ [41])).
Proof. exact binary_structure. Qed.
Print Assumptions C20_binary_structure.

Theorem C20_call_arguments_in_source_order : forall r p r' stored ts ps,
  (forall rr name, p = PrIdent rr name -> cast_type name = None) ->
  sql_primary p = SqlOk ps ->
  Forall2 (fun x t => sql_expr x = SqlOk t) stored ts ->
  sql_member (Member r p [MPCall r' stored]) = SqlOk (ps ++ [40] ++ join_sql #", " (rev ts) ++ [41]).
Proof. exact call_arguments_in_source_order. Qed.
Print Assumptions C20_call_arguments_in_source_order.

Theorem C20_cast_of_one_argument : forall r rr name ty r' a t,
  cast_type name = Some ty -> sql_expr a = SqlOk t ->
  sql_member (Member r (PrIdent rr name) [MPCall r' [a]]) =
  SqlOk ((if cast_needs_parens a then [40] ++ t ++ [41] else t) ++ #"::" ++ ty).
Proof. exact cast_of_one_argument. Qed.
Print Assumptions C20_cast_of_one_argument.

Theorem C20_match_is_unsupported : forall r c cases, sql_expr (EMatch r c cases) = SqlUnsupported.
Proof. exact match_is_unsupported. Qed.
Print Assumptions C20_match_is_unsupported.

Theorem C20_bytes_fstring_unsupported : forall r b segs,
  sql_primary (PrLit r (LBytes b)) = SqlUnsupported /\ sql_primary (PrLit r (LFStr segs)) = SqlUnsupported.
Proof. exact bytes_fstring_unsupported. Qed.
Print Assumptions C20_bytes_fstring_unsupported.

Example C20_example :
  sql_read_string (sql_quote #"b'; DROP TABLE x; --" ++ #")") = Some (#"b'; DROP TABLE x; --", #")").
Proof. vm_compute. reflexivity. Qed.
