(* Props/C01.v — compile and evaluate are total: the model has no path to the panic outcome. *)
From Coq Require Import ZArith List Bool.
From Rscel Require Import Base.Prims Model.Value Model.Funcs Model.Interp Model.Lexer Model.Ast Model.Parser Model.Compile.
From Rscel Require Import Proofs.Total Proofs.ParseTp Proofs.CompileTotal.
Import ListNotations.
Open Scope Z_scope.

(** every run of the VM model — any code, any environment, any depth, nested runs, macros, every
    built-in on every argument list — ends in a value, an error, "out of fuel" or "not modelled" *)
Theorem C01_vm_never_panics : forall fuel E c r d lg, fst (run fuel E c r d lg) <> RPanic.
Proof. exact vm_never_panics. Qed.
Print Assumptions C01_vm_never_panics.

Theorem C01_exec_is_total : forall fuel E name,
  match fst (exec fuel E name) with
  | ROk _ | RErr _ | RFuel | RUnmod => True
  | RPanic => False
  end.
Proof. exact exec_is_total. Qed.
Print Assumptions C01_exec_is_total.

Theorem C01_builtins_never_panic : forall now name this args r, call_default now name this args = Some r -> r <> RPanic.
Proof. exact call_default_never_panics. Qed.
Print Assumptions C01_builtins_never_panic.

Theorem C01_constructors_never_panic : forall now tname args, construct_type now tname args <> RPanic.
Proof. exact construct_type_never_panics. Qed.
Print Assumptions C01_constructors_never_panic.

(** the recursion of the parser is bounded by construction *)
Theorem C01_nesting_guard : forall fuel depth t, 32 <= depth -> p_expr_at (S fuel) depth t = PErr (tz_loc t).
Proof. exact nesting_guard. Qed.
Print Assumptions C01_nesting_guard.

Theorem C01_prefix_run_guard : forall n k cnt t, 256 <= cnt ->
  p_oplist (S n) k cnt t = PErr (tz_loc t).
Proof. exact prefix_run_guard. Qed.
Print Assumptions C01_prefix_run_guard.

(** * The compiler has no path to the panic outcome either, for any source text: labels always resolve
    (C10), compile-time evaluation never panics (above), and every tree the parser returns carries, in
    each of its type patterns, the name of a built-in type - the one state Compile.c_pattern marks
    unreachable is unreachable. *)
Theorem C01_parser_type_patterns : forall fuel depth t e t', p_expr_at fuel depth t = POk e t' -> tp fuel e.
Proof. exact parser_type_patterns. Qed.
Print Assumptions C01_parser_type_patterns.

Theorem C01_compiler_never_panics : forall fuel src, compile_source fuel src <> CPanic.
Proof. exact compile_source_never_panics. Qed.
Print Assumptions C01_compiler_never_panics.

Theorem C01_checked_compiler_never_panics : forall fuel src, compile_checked fuel src <> CPanic.
Proof. exact compile_checked_never_panics. Qed.
Print Assumptions C01_checked_compiler_never_panics.
