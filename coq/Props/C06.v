(* Props/C06.v — Collections: literals, indexing (incl. negative), membership, concat, size. *)
From Coq Require Import ZArith List Bool.
From Rscel Require Import Base.Prims Base.Text Model.Value Model.Ops Model.Funcs Model.Interp Model.Compile.
From Rscel Require Import Proofs.OpsArith Proofs.OpsColl.
Import ListNotations.
Import Coq.Strings.String.StringSyntax.
Open Scope Z_scope.

(** l[i]: element i for 0 <= i < size, element size+i for -size <= i < 0, error otherwise. *)
Theorem C06_index_list_int : forall l i,
  let j := if i <? 0 then zlen l + i else i in
  index (VList l) (VInt i) =
    if (0 <=? j) && (j <? zlen l)
    then match nth_error l (Z.to_nat j) with Some v => v | None => VErr EValue end
    else VErr EValue.
Proof. exact index_list_int. Qed.
Print Assumptions C06_index_list_int.

Theorem C06_index_list_uint : forall l i,
  index (VList l) (VUInt i) =
    if (0 <=? i) && (i <? zlen l)
    then match nth_error l (Z.to_nat i) with Some v => v | None => VErr EValue end
    else VErr EValue.
Proof. exact index_list_uint. Qed.
Print Assumptions C06_index_list_uint.

(** within the range the element exists: the [None] branch above is never taken *)
Theorem C06_index_in_range_has_element : forall (l : list value) j,
  0 <= j < zlen l -> exists v, nth_error l (Z.to_nat j) = Some v.
Proof. exact (@nth_error_in_range value). Qed.
Print Assumptions C06_index_in_range_has_element.

Theorem C06_index_list_non_integer_is_error : forall l k,
  match k with VInt _ | VUInt _ | VErr _ => True | _ => index (VList l) k = VErr EValue end.
Proof. exact index_list_other_is_error. Qed.
Print Assumptions C06_index_list_non_integer_is_error.

Theorem C06_index_map : forall m k,
  index (VMap m) (VString k) = match map_get m k with Some v => v | None => VErr (EAttribute k) end /\
  access (VMap m) k = match map_get m k with Some v => v | None => VErr (EAttribute k) end.
Proof. exact index_map. Qed.
Print Assumptions C06_index_map.

Theorem C06_index_map_other_key_is_error : forall m k,
  match k with VString _ | VErr _ => True | _ => index (VMap m) k = VErr EValue end.
Proof. exact index_map_other_is_error. Qed.
Print Assumptions C06_index_map_other_key_is_error.

Theorem C06_index_non_collection_is_error : forall o k,
  is_err o = false -> is_err k = false ->
  match o with VList _ | VMap _ => True | _ => index o k = VErr EValue end.
Proof. exact index_non_collection_is_error. Qed.
Print Assumptions C06_index_non_collection_is_error.

Theorem C06_in_spec : forall a b, is_err a = false -> is_err b = false ->
  in_ a b =
    match b with
    | VList l => VBool (existsb (fun v => peq a v) l)
    | VMap m => match a with
                | VString k => VBool (match map_get m k with Some _ => true | None => false end)
                | _ => VErr EInvalidOp end
    | VString s => match a with VString n => VBool (contains n s) | _ => VErr EInvalidOp end
    | _ => VErr EInvalidOp
    end.
Proof. exact in_spec. Qed.
Print Assumptions C06_in_spec.

Theorem C06_contains_is_substring : forall n s,
  contains n s = true <-> exists pre post, s = pre ++ n ++ post.
Proof. exact contains_spec. Qed.
Print Assumptions C06_contains_is_substring.

Theorem C06_concat_spec :
  (forall x y, add (VString x) (VString y) = VString (x ++ y)) /\
  (forall x y, add (VBytes x) (VBytes y) = VBytes (x ++ y)) /\
  (forall x y, add (VList x) (VList y) = VList (x ++ y)).
Proof. exact concat_spec. Qed.
Print Assumptions C06_concat_spec.

Theorem C06_size_spec : forall now s l,
  call_default now #"size" VNull [VString s] = Some (ROk (VUInt (zlen s))) /\
  call_default now #"size" (VString s) [] = Some (ROk (VUInt (zlen s))) /\
  call_default now #"size" VNull [VBytes s] = Some (ROk (VUInt (zlen s))) /\
  call_default now #"size" (VBytes s) [] = Some (ROk (VUInt (zlen s))) /\
  call_default now #"size" VNull [VList l] = Some (ROk (VUInt (zlen l))) /\
  call_default now #"size" (VList l) [] = Some (ROk (VUInt (zlen l))).
Proof. exact size_spec. Qed.
Print Assumptions C06_size_spec.

(** strings are UTF-8: the size of a string value is the length of its encoding *)
Theorem C06_string_size_is_utf8_length : forall now cs,
  call_default now #"size" VNull [VString (utf8_encode cs)] = Some (ROk (VUInt (zlen (utf8_encode cs)))).
Proof. intros. apply size_spec. exact []. Qed.
Print Assumptions C06_string_size_is_utf8_length.

Theorem C06_list_literal_elements_in_order : forall rs E d vs st lg,
  Forall not_ident vs ->
  step rs E d (IMkList (zlen vs)) (map SVal (rev vs) ++ st) lg = (ROk (None, SVal (VList vs) :: st), lg).
Proof. exact mklist_spec. Qed.
Print Assumptions C06_list_literal_elements_in_order.

(** For a repeated key the last entry wins, in the VM ... *)
Theorem C06_mkdict_is_build_map : forall rs E d pairs st lg,
  Forall (fun kv => not_ident (snd kv)) pairs ->
  step rs E d (IMkDict (zlen pairs)) (dict_stack (rev pairs) ++ st) lg =
    (ROk (None, SVal (VMap (build_map pairs)) :: st), lg).
Proof. exact mkdict_spec. Qed.
Print Assumptions C06_mkdict_is_build_map.

Theorem C06_map_literal_last_wins : forall pairs k,
  map_get (build_map pairs) k = last_entry pairs k None /\ smap (build_map pairs).
Proof. exact map_literal_last_wins. Qed.
Print Assumptions C06_map_literal_last_wins.

(** ... and identically when the compiler folds the literal. *)
Theorem C06_folded_map_literal_is_build_map : forall pairs,
  const_map (interleave pairs) [] = VMap (build_map pairs).
Proof. intros. apply const_map_is_build_map. Qed.
Print Assumptions C06_folded_map_literal_is_build_map.

Example C06_witness :
  index (VList [VInt 10; VInt 20; VInt 30]) (VInt (-1)) = VInt 30 /\
  index (VList [VInt 10; VInt 20; VInt 30]) (VInt (-4)) = VErr EValue /\
  index (VList [VInt 10]) (VUInt 18446744073709551615) = VErr EValue /\
  build_map [([97], VInt 1); ([98], VInt 5); ([97], VInt 2)] = [([97], VInt 2); ([98], VInt 5)].
Proof. vm_compute. repeat split. Qed.
