(* Props/C04.v — Equality and ordering obey their laws; sort/min/max agree with them. *)
From Coq Require Import ZArith List Bool Sorting.Permutation Sorting.Sorted.
From Flocq Require Import IEEE754.BinarySingleNaN.
From Coq Require Import Floats.SpecFloat.
From Rscel Require Import Base.Prims Base.F64 Model.Value Model.Ops Model.Funcs Spec.Wf.
From Rscel Require Import Proofs.F64Facts Proofs.OpsOrder Proofs.EqMaps Proofs.EqSym Proofs.MinMax.
Import ListNotations.
Open Scope Z_scope.

Theorem C04_neq_is_not_eq : forall a b,
  neq a b = match eq_ a b with VBool r => VBool (negb r) | o => o end.
Proof. exact neq_is_not_eq. Qed.
Print Assumptions C04_neq_is_not_eq.

(** == is reflexive on values without NaN (scalars and nested lists; maps: see DESIGN, partial). *)
Theorem C04_eq_refl_partial : forall n v,
  (vsize v < n)%nat -> wf v = true -> plain v = true -> eq_ v v = VBool true.
Proof. exact eq_refl_plain. Qed.
Print Assumptions C04_eq_refl_partial.

(** == is reflexive on every NaN-free data value: scalars, lists and maps, nested to any depth. *)
Theorem C04_eq_refl_data : forall n v,
  (vsize v < n)%nat -> wf v = true -> data v = true -> eq_ v v = VBool true.
Proof. exact eq_refl_data. Qed.
Print Assumptions C04_eq_refl_data.

(** == is symmetric on scalar operands of any two types (collections: partial). *)
Theorem C04_eq_sym_partial : forall a b,
  wf a = true -> wf b = true -> scalar a = true -> scalar b = true -> eq_ a b = eq_ b a.
Proof. exact eq_sym_scalar. Qed.
Print Assumptions C04_eq_sym_partial.

(** == is symmetric on all error-free data: scalars of any two types, lists and maps, nested to any depth
    (NaN included; an error value inside a collection is returned as found, so the two orders may report
    different errors: that is why the statement is about error-free values). *)
Theorem C04_eq_sym_data : forall n a b, (vsize a < n)%nat ->
  wf a = true -> wf b = true -> pure a = true -> pure b = true -> eq_ a b = eq_ b a.
Proof. exact eq_sym_pure. Qed.
Print Assumptions C04_eq_sym_data.

Theorem C04_int_uint_eq_iff_same_number : forall x y,
  in_i64 x = true -> in_u64 y = true ->
  eq_ (VInt x) (VUInt y) = VBool (x =? y) /\ eq_ (VUInt y) (VInt x) = VBool (y =? x).
Proof. exact int_uint_eq_iff_same_number. Qed.
Print Assumptions C04_int_uint_eq_iff_same_number.

Theorem C04_int_double_eq_nearest : forall x f,
  eq_ (VInt x) (VFloat f) = VBool (f64_eqb (f64_of_Z x) f) /\
  eq_ (VFloat f) (VInt x) = VBool (f64_eqb f (f64_of_Z x)) /\
  eq_ (VUInt x) (VFloat f) = VBool (f64_eqb (f64_of_Z x) f).
Proof. exact int_double_eq_nearest. Qed.
Print Assumptions C04_int_double_eq_nearest.

(** Exactly one of a<b, a==b, a>b on a comparable pair; <= and >= are the unions. *)
Theorem C04_ord_trichotomy : forall a b c,
  wf a = true -> wf b = true ->
  ord a b = inl (Some c) ->
  lt a b = VBool (is_c c Lt) /\ eq_ a b = VBool (is_c c Eq) /\ gt a b = VBool (is_c c Gt) /\
  le a b = VBool (is_c c Lt || is_c c Eq) /\ ge a b = VBool (is_c c Gt || is_c c Eq).
Proof. exact ord_trichotomy. Qed.
Print Assumptions C04_ord_trichotomy.

(** Comparing values of unrelated types is an error; within a class every pair is comparable. *)
Theorem C04_ord_classes : forall a b,
  match class_of a, class_of b with
  | Some ka, Some kb => if cclass_eqb ka kb then exists c, ord a b = inl c else ord a b = inr EInvalidOp
  | _, _ => ord a b = inr EInvalidOp
  end.
Proof. exact ord_classes. Qed.
Print Assumptions C04_ord_classes.

(** int and uint jointly: the order is the order of the integers they denote
    (hence reflexive, antisymmetric, transitive and total). *)
Theorem C04_ord_int_uint_is_numeric_order : forall a b x y,
  wf a = true -> wf b = true -> iu_val a = Some x -> iu_val b = Some y ->
  ord a b = inl (Some (x ?= y)).
Proof. exact ord_int_uint_is_numeric_order. Qed.
Print Assumptions C04_ord_int_uint_is_numeric_order.

Theorem C04_ord_string_bytes : forall x y,
  ord (VString x) (VString y) = inl (Some (bytes_cmp x y)) /\
  ord (VBytes x) (VBytes y) = inl (Some (bytes_cmp x y)).
Proof. exact ord_string_bytes. Qed.
Print Assumptions C04_ord_string_bytes.

Theorem C04_bytes_cmp_total_order :
  (forall a, bytes_cmp a a = Eq) /\
  (forall a b, bytes_cmp a b = Eq -> a = b) /\
  (forall a b, bytes_cmp b a = CompOpp (bytes_cmp a b)) /\
  (forall a b c, bytes_cmp a b = Lt -> bytes_cmp b c = Lt -> bytes_cmp a c = Lt).
Proof. exact bytes_cmp_total_order. Qed.
Print Assumptions C04_bytes_cmp_total_order.

Theorem C04_ord_bool_time_dur : forall (p q : bool) (x y : Z),
  ord (VBool p) (VBool q) = inl (Some (b2z p ?= b2z q)) /\
  ord (VTime x) (VTime y) = inl (Some (x ?= y)) /\
  ord (VDur x) (VDur y) = inl (Some (x ?= y)).
Proof. exact ord_bool_time_dur. Qed.
Print Assumptions C04_ord_bool_time_dur.

(** doubles: Flocq's comparison = the order of the reals on finite operands (partial: infinities). *)
Theorem C04_ord_double_is_real_order_partial : forall f1 f2 : binary_float 53 1024,
  ord (VFloat (B2SF f1)) (VFloat (B2SF f2)) = inl (Bcompare f1 f2) /\
  (is_finite f1 = true -> is_finite f2 = true ->
   Bcompare f1 f2 = Some (Raux.Rcompare (B2R f1) (B2R f2))).
Proof. exact ord_double_is_real_order. Qed.
Print Assumptions C04_ord_double_is_real_order_partial.

(** sort returns a permutation, ordered whenever the elements are mutually comparable. *)
Theorem C04_sort_is_permutation : forall l l',
  sort_impl l = ROk (VList l') -> Permutation l l'.
Proof. exact sort_is_permutation. Qed.
Print Assumptions C04_sort_is_permutation.

Theorem C04_sort_is_sorted : forall l l',
  total_preorder_on l -> sort_impl l = ROk (VList l') -> Sorted le_v l'.
Proof. exact sort_is_sorted. Qed.
Print Assumptions C04_sort_is_sorted.

Theorem C04_int_uint_lists_are_totally_preordered : forall l,
  (forall v, In v l -> wf v = true /\ exists z, iu_val v = Some z) -> total_preorder_on l.
Proof. exact iu_total_preorder. Qed.
Print Assumptions C04_int_uint_lists_are_totally_preordered.

Theorem C04_min_max_is_argument : forall args m,
  (min_impl args = ROk m \/ max_impl args = ROk m) -> args <> [] -> In m args.
Proof. exact min_max_is_argument. Qed.
Print Assumptions C04_min_max_is_argument.

Example C04_witness :
  sort_impl [VInt 3; VUInt 1; VInt 2; VUInt 18446744073709551615; VInt (-1)] =
    ROk (VList [VInt (-1); VUInt 1; VInt 2; VInt 3; VUInt 18446744073709551615]) /\
  eq_ (VUInt 18446744073709551615) (VInt (-1)) = VBool false /\
  lt (VInt (-1)) (VUInt 18446744073709551615) = VBool true /\
  ord (VString [97]) (VInt 1) = inr EInvalidOp.
Proof. vm_compute. repeat split. Qed.

(** min / max return the FIRST least / greatest argument: whenever the comparison used is the strict
    order induced by a rank on the arguments, the scan returns the first argument of best rank ... *)
Theorem C04_pick_first_best : forall better rank rest cur,
  (forall a b, In a (cur :: rest) -> In b (cur :: rest) -> better a b = (rank a <? rank b)) ->
  let m := pick better cur rest in
  (forall v, In v (cur :: rest) -> rank m <= rank v) /\
  exists pre post, cur :: rest = pre ++ m :: post /\ forall v, In v pre -> rank m < rank v.
Proof. exact pick_first_best. Qed.
Print Assumptions C04_pick_first_best.

(** ... instantiated for integer arguments *)
Theorem C04_min_ints_first_least : forall z zs,
  exists m pre post, min_impl (map VInt (z :: zs)) = ROk (VInt m) /\ z :: zs = pre ++ m :: post /\
    (forall v, In v (z :: zs) -> m <= v) /\ (forall v, In v pre -> m < v).
Proof. exact min_ints_first_least. Qed.
Print Assumptions C04_min_ints_first_least.

Theorem C04_max_ints_first_greatest : forall z zs,
  exists m pre post, max_impl (map VInt (z :: zs)) = ROk (VInt m) /\ z :: zs = pre ++ m :: post /\
    (forall v, In v (z :: zs) -> v <= m) /\ (forall v, In v pre -> v < m).
Proof. exact max_ints_first_greatest. Qed.
Print Assumptions C04_max_ints_first_greatest.

(** the infinities are the ends of the order of doubles: every double that is not a NaN lies strictly
    between them (stated on the stored representation, no real numbers involved) *)
Theorem C04_ord_double_infinities : forall x : f64, f64_is_nan x = false ->
  (x <> S754_infinity false -> ord (VFloat x) (VFloat (S754_infinity false)) = inl (Some Lt) /\
                               ord (VFloat (S754_infinity false)) (VFloat x) = inl (Some Gt)) /\
  (x <> S754_infinity true -> ord (VFloat (S754_infinity true)) (VFloat x) = inl (Some Lt) /\
                              ord (VFloat x) (VFloat (S754_infinity true)) = inl (Some Gt)) /\
  ord (VFloat (S754_infinity false)) (VFloat (S754_infinity false)) = inl (Some Eq) /\
  ord (VFloat (S754_infinity true)) (VFloat (S754_infinity true)) = inl (Some Eq).
Proof. exact ord_double_infinities. Qed.
Print Assumptions C04_ord_double_infinities.

Theorem C04_lt_infinities : forall x : f64, f64_is_nan x = false -> x <> S754_infinity false -> x <> S754_infinity true ->
  lt (VFloat (S754_infinity true)) (VFloat x) = VBool true /\ lt (VFloat x) (VFloat (S754_infinity false)) = VBool true /\
  gt (VFloat x) (VFloat (S754_infinity false)) = VBool false /\ lt (VFloat x) (VFloat (S754_infinity true)) = VBool false.
Proof. exact lt_infinities. Qed.
Print Assumptions C04_lt_infinities.
