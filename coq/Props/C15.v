(* Props/C15.v — string and math built-ins compute their documented function. *)
From Coq Require Import ZArith List Bool.
From Rscel Require Import Base.Prims Base.Text Model.Strings Model.Value Model.Funcs.
From Rscel Require Import Proofs.Strings.
Import ListNotations.
Open Scope Z_scope.

Theorem C15_prefix_is_prefix : forall p s, is_prefix p s = true <-> exists t, s = p ++ t.
Proof. exact is_prefix_spec. Qed.
Print Assumptions C15_prefix_is_prefix.

Theorem C15_contains_is_substring : forall n h, contains n h = true <-> exists u v, h = u ++ n ++ v.
Proof. exact contains_spec. Qed.
Print Assumptions C15_contains_is_substring.

Theorem C15_split_rejoin : forall s needle l, split_str s needle = Some l -> needle <> [] -> join_bytes needle l = s.
Proof. exact split_rejoin. Qed.
Print Assumptions C15_split_rejoin.

Theorem C15_split_pieces_clean : forall s needle l, split_str s needle = Some l -> needle <> [] ->
  Forall (fun p => contains needle p = false) l.
Proof. exact split_pieces_clean. Qed.
Print Assumptions C15_split_pieces_clean.

Theorem C15_rsplit_rejoin : forall s needle l, rsplit_str s needle = Some l -> needle <> [] -> join_bytes needle (rev l) = s.
Proof. exact rsplit_rejoin. Qed.
Print Assumptions C15_rsplit_rejoin.

Theorem C15_rsplit_is_mirrored_split : forall s needle, needle <> [] ->
  rsplit_str s needle = option_map (map (@rev Z)) (split_str (rev s) (rev needle)).
Proof. exact rsplit_is_mirrored_split. Qed.
Print Assumptions C15_rsplit_is_mirrored_split.

Theorem C15_replace_is_join_of_split : forall s from to, replace_str s from to = option_map (join_bytes to) (split_str s from).
Proof. exact replace_is_join_of_split. Qed.
Print Assumptions C15_replace_is_join_of_split.

Theorem C15_replace_with_itself : forall s from r, from <> [] -> replace_str s from from = Some r -> r = s.
Proof. exact replace_with_itself. Qed.
Print Assumptions C15_replace_with_itself.

Theorem C15_remove_is_replace_by_nothing : forall s pat, pat <> [] -> remove_str s pat = replace_str s pat [].
Proof. exact remove_is_replace_by_nothing. Qed.
Print Assumptions C15_remove_is_replace_by_nothing.

Theorem C15_trim_start_matches_spec : forall s p, p <> [] ->
  exists k, s = copies k p ++ trim_start_matches s p /\ is_prefix p (trim_start_matches s p) = false.
Proof. exact trim_start_matches_spec. Qed.
Print Assumptions C15_trim_start_matches_spec.

Theorem C15_trim_end_matches_spec : forall s p, p <> [] -> exists k, s = trim_end_matches s p ++ copies k p.
Proof. exact trim_end_matches_spec. Qed.
Print Assumptions C15_trim_end_matches_spec.

Theorem C15_split_at_spec : forall s i l r, split_at_str s i = Some (l, r) ->
  l ++ r = s /\ Z.of_nat (length l) = i /\ 0 <= i <= Z.of_nat (length s).
Proof. exact split_at_spec. Qed.
Print Assumptions C15_split_at_spec.

Theorem C15_split_at_out_of_range : forall s i, i < 0 \/ Z.of_nat (length s) < i -> split_at_str s i = None.
Proof. exact split_at_out_of_range. Qed.
Print Assumptions C15_split_at_out_of_range.

Theorem C15_int_pow_exact : forall inr b e r, int_pow inr b e = Some r -> r = b ^ e /\ 0 <= e.
Proof. exact int_pow_exact. Qed.
Print Assumptions C15_int_pow_exact.

Theorem C15_int_pow_negative_exponent : forall inr b e, e < 0 -> int_pow inr b e = None.
Proof. exact int_pow_negative_exponent. Qed.
Print Assumptions C15_int_pow_negative_exponent.

Example C15_examples :
  split_str [97; 97; 97] [97; 97] = Some [[]; [97]] /\ rsplit_str [97; 97; 97] [97; 97] = Some [[]; [97]] /\
  rsplit_str [120; 97; 97; 97; 121] [97; 97] = Some [[121]; [120; 97]] /\
  split_str [97; 98] [] = Some [[]; [97]; [98]; []].
Proof. vm_compute. repeat split. Qed.
