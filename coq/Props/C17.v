(* Props/C17.v — The reported parameter list covers every variable a program can read. *)
From Coq Require Import ZArith List Bool.
From Rscel Require Import Base.Prims Model.Value Model.Ast Model.Compile Spec.FreeIdents.
From Rscel Require Import Proofs.Params.
Import ListNotations.
Open Scope Z_scope.

(** The parameters collected while compiling an expression are exactly its
    free identifiers (Spec/FreeIdents.v: every syntactic position, incl. call
    arguments and receivers, macro ranges and bodies, f-string segments, index
    expressions, map keys and values, match scrutinee / patterns / arms, and
    both branches of a conditional whether or not it is folded). *)
Theorem C17_params_are_free_idents : forall fuel e n cp n',
  c_expr fuel e n = COk cp n' -> cp_params cp = free_idents fuel e.
Proof. exact params_are_free_idents. Qed.
Print Assumptions C17_params_are_free_idents.

(** Program::params(): covers every identifier of the source, and contains no other name. *)
Theorem C17_program_params_cover_and_sound : forall fuel src p n,
  compile_source fuel src = COk p n ->
  forall x, In x (pr_params p) <-> In x (free_idents fuel (pr_ast p)).
Proof. exact program_params_cover_and_sound. Qed.
Print Assumptions C17_program_params_cover_and_sound.

(** filter_from_bindings removes exactly the bound names. *)
Definition filter_params (bound : bytes -> bool) (ps : list bytes) : list bytes :=
  filter (fun x => negb (bound x)) ps.

Theorem C17_filter_exact : forall bound ps x,
  In x (filter_params bound ps) <-> In x ps /\ bound x = false.
Proof.
  intros. unfold filter_params. rewrite filter_In, negb_true_iff. tauto.
Qed.
Print Assumptions C17_filter_exact.
