(* Props/C17.v — The reported parameter list covers every variable a program can read. *)
From Coq Require Import ZArith List Bool.
From Rscel Require Import Base.Prims Model.Value Model.Funcs Model.Interp Model.Ast Model.Parser Model.Compile Spec.FreeIdents.
From Rscel Require Import Proofs.Params Proofs.Relevance Proofs.Reads Proofs.ReadsCtx.
Import ListNotations.
Import Coq.Strings.String.StringSyntax.
Open Scope Z_scope.

(** The parameters collected while compiling an expression are exactly its
    free identifiers (Spec/FreeIdents.v: every syntactic position, incl. call
    arguments and receivers, macro ranges and bodies, f-string segments, index
    expressions, map keys and values, match scrutinee / patterns / arms, and
    both branches of a conditional whether or not it is folded). *)
Theorem C17_params_are_free_idents : forall fuel e n cp n',
  c_expr fuel e n = COk cp n' -> cp_params cp = free_idents fuel e.
Proof. exact params_are_free_idents. Qed.
Print Assumptions C17_params_are_free_idents.

(** Program::params(): covers every identifier of the source, and contains no other name. *)
Theorem C17_program_params_cover_and_sound : forall fuel src p n,
  compile_source fuel src = COk p n ->
  forall x, In x (pr_params p) <-> In x (free_idents fuel (pr_ast p)).
Proof. exact program_params_cover_and_sound. Qed.
Print Assumptions C17_program_params_cover_and_sound.

(** filter_from_bindings removes exactly the bound names. *)
Definition filter_params (bound : bytes -> bool) (ps : list bytes) : list bytes :=
  filter (fun x => negb (bound x)) ps.

Theorem C17_filter_exact : forall bound ps x,
  In x (filter_params bound ps) <-> In x ps /\ bound x = false.
Proof.
  intros. unfold filter_params. rewrite filter_In, negb_true_iff. tauto.
Qed.
Print Assumptions C17_filter_exact.

(** * Evaluation relevance.
    The interpreter reads the bindings only through the identifiers its code can resolve (an identifier
    pushed immediately before Access is a field name, one pushed immediately before Call is a callee:
    neither is looked up among the variables).  Environments that agree on a set S of names - same
    functions, same stored programs, same clock; variables equal on S - give the same outcome (value or
    error, and call log) for every program all of whose resolvable identifiers are in S, at every fuel,
    depth and resolve flag.  Every instruction, macro, nested run, stored program reached through a name
    of S, value operator and built-in function is covered. *)
Theorem C17_vm_reads_only_resolvable_identifiers : forall S fuel E E' c r d lg,
  agree S E E' -> okc S c -> run fuel E c r d lg = run fuel E' c r d lg.
Proof. exact vm_same_outcome. Qed.
Print Assumptions C17_vm_reads_only_resolvable_identifiers.

(** ... and every identifier a compiled program can resolve is one of its reported parameters or the name
    of a built-in type: through all thirteen grammar levels, constant folding and compile-time evaluation
    included (a folded constant holds no identifier that was not reported). *)
Theorem C17_program_reads_only_its_params : forall fuel src p k,
  compile_source fuel src = COk p k -> okc (inS (pr_params p)) (pr_code p).
Proof. exact program_reads_only_its_params. Qed.
Print Assumptions C17_program_reads_only_its_params.

(** Together: two sets of bindings that agree on every reported name (and on variables named like a
    built-in type) give the same result, whatever else they bind and whatever the fuel. *)
Theorem C17_reported_params_decide_the_result : forall fuel src p k, compile_source fuel src = COk p k ->
  forall ps ps' ufs now, pure_binds ps -> pure_binds ps' -> pure_ufuns ufs ->
  (forall n, In n (pr_params p) \/ is_type_name n = true -> map_get ps n = map_get ps' n) ->
  forall fuelr lg, run fuelr (env_of ps ufs now) (pr_code p) true O lg = run fuelr (env_of ps' ufs now) (pr_code p) true O lg.
Proof. exact reported_params_decide_the_result. Qed.
Print Assumptions C17_reported_params_decide_the_result.

(** the premises are met: a program with a variable, a field name, a callee and a type pattern; its
    parameters do not include the field name, and two binding sets that differ on it are related *)
Example C17_relevance_somewhere :
  match compile_source 40 #"match x.f { case int: size(y), case _: z }" with
  | COk p _ => pr_params p
  | _ => []
  end = [#"size"; #"x"; #"y"; #"z"].
Proof. vm_compute. reflexivity. Qed.

(** A context holding several programs that refer to one another: [compiled_context progs names] says that
    every stored program is what the compiler made of some source and that [names] contains what each of
    them reports.  Two sets of bindings that agree on all those names give the same outcome for every
    stored program, through every chain of references (the referenced program runs under the same bindings). *)
Theorem C17_context_params_decide_the_result : forall progs names, compiled_context progs names ->
  forall ps ps' ufs now, pure_binds ps -> pure_binds ps' -> pure_ufuns ufs ->
  (forall n, In n names \/ is_type_name n = true -> map_get ps n = map_get ps' n) ->
  forall fuelr name,
    exec fuelr (ctx_env ps progs ufs now) name = exec fuelr (ctx_env ps' progs ufs now) name.
Proof. exact context_params_decide_the_result. Qed.
Print Assumptions C17_context_params_decide_the_result.

(** the premise is met by an ordinary context: `a` is `b + x`, `b` is `y * 2` *)
Example C17_compiled_context_somewhere :
  exists ca cb, compiled_context [(#"a", ca); (#"b", cb)] [#"b"; #"x"; #"y"] /\
    exec 100 (ctx_env [(#"x", VInt 1); (#"y", VInt 20)] [(#"a", ca); (#"b", cb)] [] 0) #"a" = (ROk (VInt 41), []).
Proof. exact compiled_context_somewhere. Qed.
