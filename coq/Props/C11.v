(* Props/C11.v — evaluation is a function of program text and bindings; histories,
   clones, repetition. *)
From Coq Require Import ZArith List Bool.
From Rscel Require Import Base.Prims Model.Value Model.Funcs Model.Interp Model.Compile Model.Context.
From Rscel Require Import Proofs.OpsColl Proofs.Context.
Import ListNotations.
Open Scope Z_scope.

(** executing and inspecting change no store, no clone, nothing *)
Theorem C11_exec_changes_nothing : forall fuel w c b name, fst (step_op fuel w (OExec c b name)) = w.
Proof. exact exec_changes_nothing. Qed.
Print Assumptions C11_exec_changes_nothing.

Theorem C11_inspect_changes_nothing : forall fuel w c name, fst (step_op fuel w (OParams c name)) = w.
Proof. exact params_changes_nothing. Qed.
Print Assumptions C11_inspect_changes_nothing.

(** the result of an exec is a function of the two stores it names *)
Theorem C11_exec_function_of_stores : forall fuel w1 w2 c1 c2 b1 b2 name,
  get_ctx w1 c1 = get_ctx w2 c2 -> get_bind w1 b1 = get_bind w2 b2 ->
  exec_out fuel w1 c1 b1 name = exec_out fuel w2 c2 b2 name.
Proof. exact exec_function_of_stores. Qed.
Print Assumptions C11_exec_function_of_stores.

(** whatever happens in between that does not write these two stores *)
Theorem C11_exec_history_independent : forall fuel w ops c b name,
  Forall (fun o => writes_ctx o <> Some c /\ writes_bind o <> Some b) ops ->
  exec_out fuel (fst (run_ops fuel w ops)) c b name = exec_out fuel w c b name.
Proof. exact exec_history_independent. Qed.
Print Assumptions C11_exec_history_independent.

(** repetition *)
Theorem C11_exec_repeat : forall fuel w c b name n,
  snd (run_ops fuel w (repeat (OExec c b name) n)) = repeat (exec_out fuel w c b name) n.
Proof. exact exec_repeat. Qed.
Print Assumptions C11_exec_repeat.

(** clones give the originals' results ... *)
Theorem C11_exec_on_clones : forall fuel w c b c' b' name, c' <> c -> b' <> b ->
  exec_out fuel (fst (run_ops fuel w [OCloneCtx c c'; OCloneBind b b'])) c' b' name = exec_out fuel w c b name.
Proof. exact exec_on_clones. Qed.
Print Assumptions C11_exec_on_clones.

(** ... and evolve independently: a store changes only by a write that names it *)
Theorem C11_ctx_independent : forall fuel c ops w,
  Forall (fun o => writes_ctx o <> Some c) ops -> get_ctx (fst (run_ops fuel w ops)) c = get_ctx w c.
Proof. exact ctx_frame_history. Qed.
Print Assumptions C11_ctx_independent.

Theorem C11_bind_independent : forall fuel b ops w,
  Forall (fun o => writes_bind o <> Some b) ops -> get_bind (fst (run_ops fuel w ops)) b = get_bind w b.
Proof. exact bind_frame_history. Qed.
Print Assumptions C11_bind_independent.

(** any history from scratch: the exec equals the exec of a fresh context
    given the surviving sources and the surviving bindings *)
Theorem C11_exec_equals_fresh_context : forall fuel ops c b name,
  let w := fst (run_ops fuel empty_world ops) in
  exec_out fuel w c b name =
  exec_out fuel (fresh_world fuel (sget (srun fuel [] ops) c) (get_bind w b)) 0 0 name.
Proof. exact exec_equals_fresh_context. Qed.
Print Assumptions C11_exec_equals_fresh_context.

(** non-vacuity: a history with a replace, a rebind and clones *)
Example C11_history_example :
  let ops := [OAddProgram 0 [120] [120; 43; 49]%Z; OBind 0 [120] (VInt 2); OCloneCtx 0 1;
              OAddProgram 0 [120] [55]%Z; OExec 1 0 [120]; OExec 0 0 [120]] in
  snd (run_ops 200 empty_world ops) =
  [OutNone; OutNone; OutNone; OutNone; OutResult (ROk (VInt 3)); OutResult (ROk (VInt 7))].
Proof. vm_compute. reflexivity. Qed.
