(* Extraction of the executable model.  Only ExtrOcamlBasic directives are in
   force (bool, option, unit, list, prod, sumbool, sumor -> OCaml types; andb/orb
   inlined); Z, positive, nat, comparison, spec_float stay Coq datatypes. *)
From Coq Require Import Extraction ExtrOcamlBasic.
From Rscel Require Import Base.Prims Base.F64 Model.Value Model.Ops Model.Dispatch Model.Funcs Model.Interp Model.Lexer Model.Ast Model.Parser Model.Compile Model.Context Model.Json Model.Sql Model.Serde Spec.Wf Spec.Arith Spec.WfCode.
Extraction Language OCaml.
Extraction "../ocaml/extracted/model.ml"
  Prims.bytes_cmp F64.f64_of_bits F64.f64_to_bits
  Value.value Value.instr Value.cel_error Value.res Value.map_insert Value.map_get
  Ops.binop_eval Ops.unop_eval Ops.ord Ops.peq Ops.is_truthy Ops.access Ops.type_prop
  Funcs.call_default Funcs.construct_type Interp.run Interp.exec Interp.mkEnv
  Text.utf8_encode Text.utf8_decode Lexer.tz_init Lexer.tz_next Lexer.tz_peek Lexer.tz_loc Lexer.lex
  Parser.parse_program Parser.p_expr
  Compile.compile_source Compile.compile_checked Compile.resolve
  WfCode.wf_code WfCode.code_depth
  Serde.ser_program Serde.ser_value Serde.de_value Sql.sql_expr Json.json_of_value Json.value_of_json Json.canon Context.run_ops Context.empty_world
  Wf.wf Arith.arith_spec Arith.widen Arith.num_of.
