
val xorb : bool -> bool -> bool

val negb : bool -> bool

type nat =
| O
| S of nat

type ('a, 'b) sum =
| Inl of 'a
| Inr of 'b

val fst : ('a1 * 'a2) -> 'a1

val snd : ('a1 * 'a2) -> 'a2

val length : 'a1 list -> nat

val app : 'a1 list -> 'a1 list -> 'a1 list

type comparison =
| Eq
| Lt
| Gt

val compOpp : comparison -> comparison

type positive =
| XI of positive
| XO of positive
| XH

type n =
| N0
| Npos of positive

type z =
| Z0
| Zpos of positive
| Zneg of positive

val eqb : bool -> bool -> bool

module Pos :
 sig
  type mask =
  | IsNul
  | IsPos of positive
  | IsNeg
 end

module Coq_Pos :
 sig
  val succ : positive -> positive

  val add : positive -> positive -> positive

  val add_carry : positive -> positive -> positive

  val pred_double : positive -> positive

  type mask = Pos.mask =
  | IsNul
  | IsPos of positive
  | IsNeg

  val succ_double_mask : mask -> mask

  val double_mask : mask -> mask

  val double_pred_mask : positive -> mask

  val sub_mask : positive -> positive -> mask

  val sub_mask_carry : positive -> positive -> mask

  val mul : positive -> positive -> positive

  val iter : ('a1 -> 'a1) -> 'a1 -> positive -> 'a1

  val div2 : positive -> positive

  val div2_up : positive -> positive

  val compare_cont : comparison -> positive -> positive -> comparison

  val compare : positive -> positive -> comparison

  val eqb : positive -> positive -> bool

  val of_succ_nat : nat -> positive
 end

module N :
 sig
  val succ_double : n -> n

  val double : n -> n

  val sub : n -> n -> n

  val compare : n -> n -> comparison

  val leb : n -> n -> bool

  val pos_div_eucl : positive -> n -> n * n
 end

module Z :
 sig
  val double : z -> z

  val succ_double : z -> z

  val pred_double : z -> z

  val pos_sub : positive -> positive -> z

  val add : z -> z -> z

  val opp : z -> z

  val sub : z -> z -> z

  val mul : z -> z -> z

  val compare : z -> z -> comparison

  val leb : z -> z -> bool

  val ltb : z -> z -> bool

  val eqb : z -> z -> bool

  val max : z -> z -> z

  val min : z -> z -> z

  val of_nat : nat -> z

  val of_N : n -> z

  val pos_div_eucl : positive -> z -> z * z

  val div_eucl : z -> z -> z * z

  val div : z -> z -> z

  val modulo : z -> z -> z

  val quotrem : z -> z -> z * z

  val quot : z -> z -> z

  val rem : z -> z -> z

  val even : z -> bool

  val div2 : z -> z

  val shiftl : z -> z -> z
 end

val zeq_bool : z -> z -> bool

val existsb : ('a1 -> bool) -> 'a1 list -> bool

val shift_pos : positive -> positive -> positive

val i64_min : z

val i64_max : z

val u64_max : z

val in_i64 : z -> bool

val in_u64 : z -> bool

type bytes = z list

val bytes_eqb : bytes -> bytes -> bool

val bytes_cmp : bytes -> bytes -> comparison

val is_prefix : bytes -> bytes -> bool

val contains : bytes -> bytes -> bool

val zlen : 'a1 list -> z

val znth : 'a1 list -> z -> 'a1 option

val b2z : bool -> z

type spec_float =
| S754_zero of bool
| S754_infinity of bool
| S754_nan
| S754_finite of bool * positive * z

val emin : z -> z -> z

val fexp : z -> z -> z -> z

val digits2_pos : positive -> positive

val zdigits2 : z -> z

val iter_pos : ('a1 -> 'a1) -> positive -> 'a1 -> 'a1

type location =
| Loc_Exact
| Loc_Inexact of comparison

type shr_record = { shr_m : z; shr_r : bool; shr_s : bool }

val shr_1 : shr_record -> shr_record

val loc_of_shr_record : shr_record -> location

val shr_record_of_loc : z -> location -> shr_record

val shr : shr_record -> z -> z -> shr_record * z

val shr_fexp : z -> z -> z -> z -> location -> shr_record * z

val round_nearest_even : z -> location -> z

val binary_round_aux : z -> z -> bool -> z -> z -> location -> spec_float

val shl_align : positive -> z -> z -> positive * z

val binary_round : z -> z -> bool -> positive -> z -> spec_float

val binary_normalize : z -> z -> z -> z -> bool -> spec_float

val sFopp : spec_float -> spec_float

val sFcompare : spec_float -> spec_float -> comparison option

val sFeqb : spec_float -> spec_float -> bool

val sFmul : z -> z -> spec_float -> spec_float -> spec_float

val cond_Zopp : bool -> z -> z

val sFadd : z -> z -> spec_float -> spec_float -> spec_float

val sFsub : z -> z -> spec_float -> spec_float -> spec_float

val new_location_even : z -> z -> location

val new_location_odd : z -> z -> location

val new_location : z -> z -> location

val sFdiv_core_binary : z -> z -> z -> z -> z -> z -> (z * z) * location

val sFdiv : z -> z -> spec_float -> spec_float -> spec_float

type f64 = spec_float

val prec64 : z

val emax64 : z

val f64_add : spec_float -> spec_float -> spec_float

val f64_sub : spec_float -> spec_float -> spec_float

val f64_mul : spec_float -> spec_float -> spec_float

val f64_div : spec_float -> spec_float -> spec_float

val f64_neg : spec_float -> spec_float

val f64_cmp : spec_float -> spec_float -> comparison option

val f64_eqb : spec_float -> spec_float -> bool

val f64_is_zero : f64 -> bool

val f64_zero : f64

val f64_one : f64

val f64_of_Z : z -> f64

val f64_of_bits : z -> f64

val f64_to_bits : f64 -> z

type cel_error =
| EMisc
| ESyntax of z * z
| EValue
| EArgument
| EInvalidOp
| ERuntime
| EBinding of bytes
| EAttribute of bytes
| EDivZero
| EInternal

type 'a res =
| ROk of 'a
| RErr of cel_error
| RPanic
| RFuel

type value =
| VInt of z
| VUInt of z
| VFloat of f64
| VBool of bool
| VString of bytes
| VBytes of bytes
| VList of value list
| VMap of (bytes * value) list
| VNull
| VIdent of bytes
| VType of bytes
| VTime of z
| VDur of z
| VCode of instr list
| VErr of cel_error
and instr =
| IPush of value
| IPop
| ITest
| IDup
| IOr
| IAnd
| INot
| INeg
| IAdd
| ISub
| IMul
| IDiv
| IMod
| ILt
| ILe
| IEq
| INe
| IGe
| IGt
| IIn
| IJmp of z
| IJmpCond of bool * z
| IMkList of z
| IMkDict of z
| IIndex
| IAccess
| ICall of z
| IFmt of z

val is_err : value -> bool

val map_get : (bytes * 'a1) list -> bytes -> 'a1 option

val map_insert : (bytes * 'a1) list -> bytes -> 'a1 -> (bytes * 'a1) list

val time_min_ns : z

val time_max_ns : z

val dur_max_ns : z

val dur_min_ns : z

val in_time : z -> bool

val in_dur : z -> bool

val checked_time : z -> value

val checked_dur : z -> value

val type_prop : value -> value -> value * value

val error_prop_or : value -> value -> (value -> value -> value) -> value

val ck_int : z -> value

val ck_uint : z -> value

val add0 : value -> value -> value

val sub0 : value -> value -> value

val mul0 : value -> value -> value

val div0 : value -> value -> value

val rem0 : value -> value -> value

val neg : value -> value

val is_truthy : value -> bool

val not_ : value -> value

val or_ : value -> value -> value

val and_ : value -> value -> value

val peq : value -> value -> bool

val ieq : instr -> instr -> bool

val is_true : value -> bool

val eq_ : value -> value -> value

val neq : value -> value -> value

val ord : value -> value -> (comparison option, cel_error) sum

val cmp_with : (comparison option -> bool) -> value -> value -> value

val lt : value -> value -> value

val gt : value -> value -> value

val le : value -> value -> value

val ge : value -> value -> value

val in_ : value -> value -> value

val index : value -> value -> value

val access : value -> bytes -> value

type binop =
| OAdd
| OSub
| OMul
| ODiv
| OMod
| OLt
| OLe
| OEq
| ONe
| OGe
| OGt
| OIn
| OOr
| OAnd
| OIndex

type unop =
| UNot
| UNeg

val binop_eval : binop -> value -> value -> value

val unop_eval : unop -> value -> value
