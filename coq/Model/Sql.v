(* Model/Sql.v — extensions/to_sql (grammar.rs, traits.rs): CEL syntax tree ->
   SQL text.  Text is a list of characters.  Float literals are printed with
   f64 Display, which the model does not cover ([SqlUnmod]). *)
From Coq Require Import ZArith List Bool.
From Rscel Require Import Base.Prims Base.F64 Base.Text Base.FloatPrint Model.Value Model.Lexer Model.Ast.
Import ListNotations.
Import Coq.Strings.String.StringSyntax.
Open Scope Z_scope.

Inductive sqlres := SqlOk (t : chars) | SqlUnsupported | SqlUnmod.

Definition sbind (r : sqlres) (f : chars -> sqlres) : sqlres :=
  match r with SqlOk t => f t | SqlUnsupported => SqlUnsupported | SqlUnmod => SqlUnmod end.
Notation "'let$' x ':=' r 'in' k" := (sbind r (fun x => k)) (at level 200, x pattern, r at level 100, k at level 200).


(** a quote inside the literal is doubled *)
Definition sql_quote (s : chars) : chars :=
  39 :: flat_map (fun c => if c =? 39 then [39; 39] else [c]) s ++ [39].

Fixpoint join_sql (sep : chars) (l : list chars) : chars :=
  match l with
  | [] => []
  | [x] => x
  | x :: r => x ++ sep ++ join_sql sep r
  end.

Section Smap.
  Context {A : Type}.
  Variable f : A -> sqlres.
  (* inl ts: all translated | inr false: unsupported | inr true: not modelled *)
  Fixpoint smap (l : list A) : list chars + bool :=
    match l with
    | [] => inl []
    | x :: r =>
        match f x with
        | SqlOk t => match smap r with
                     | inl ts => inl (t :: ts)
                     | other => other
                     end
        | SqlUnsupported => inr false
        | SqlUnmod => inr true
        end
    end.

  Definition with_all (l : list A) (k : list chars -> sqlres) : sqlres :=
    match smap l with
    | inl ts => k ts
    | inr false => SqlUnsupported
    | inr true => SqlUnmod
    end.
End Smap.

Definition cast_type (name : chars) : option chars :=
  if chars_eqb name #"int" then Some #"integer"
  else if chars_eqb name #"uint" then Some #"bigint"
  else if chars_eqb name #"float" || chars_eqb name #"double" then Some #"double precision"
  else if chars_eqb name #"string" then Some #"text"
  else if chars_eqb name #"bool" then Some #"boolean"
  else if chars_eqb name #"bytes" then Some #"bytea"
  else if chars_eqb name #"timestamp" then Some #"timestamp"
  else if chars_eqb name #"duration" then Some #"interval"
  else None.

Definition relop_sql (o : relop) : chars :=
  match o with RLe => #"<=" | RLt => #"<" | RGe => #">=" | RGt => #">" | REq => #"=" | RNe => #"<>" | RIn => #"in" end.
Definition addop_sql (o : addop) : chars := match o with AOAdd => #"+" | AOSub => #"-" end.
Definition mulop_sql (o : mulop) : chars := match o with MOMul => #"*" | MODiv => #"/" | MOMod => #"%" end.

Definition binary (l op r : chars) : chars := [40] ++ l ++ [41; 32] ++ op ++ [32; 40] ++ r ++ [41].

Fixpoint oplist_sql (c : Z) (o : oplist) : chars :=
  match o with OLCons _ tl => c :: oplist_sql c tl | OLEmpty _ => [] end.

Definition lit_sql (l : lit) : sqlres :=
  match l with
  | LNull => SqlOk #"NULL"
  | LInt z => SqlOk (dec_of_Z z)
  | LUInt z => SqlOk (dec_of_Z z)
  | LFloat f => match print_f64 f with Some t => SqlOk t | None => SqlUnmod end
  | LFStr _ => SqlUnsupported
  | LStr s => SqlOk (sql_quote s)
  | LBytes _ => SqlUnsupported
  | LBool true => SqlOk #"TRUE"
  | LBool false => SqlOk #"FALSE"
  end.

(** cast operands that are not a single postfix operand are parenthesised: a
    conditional, a binary operation at any level, a member chain with a field access *)
Definition cast_needs_parens (e : expr) : bool :=
  match e with
  | ETernary _ _ _ _ | EMatch _ _ _ => true
  | EUnary _ (OrBin _ _ _) => true
  | EUnary _ (OrUn _ (AndBin _ _ _)) => true
  | EUnary _ (OrUn _ (AndUn _ (RelBin _ _ _ _))) => true
  | EUnary _ (OrUn _ (AndUn _ (RelUn _ (AddBin _ _ _ _)))) => true
  | EUnary _ (OrUn _ (AndUn _ (RelUn _ (AddUn _ (MulBin _ _ _ _))))) => true
  | EUnary _ (OrUn _ (AndUn _ (RelUn _ (AddUn _ (MulUn _ (UnMember _ (Member _ _ ms))))))) =>
      existsb (fun m => match m with MPAccess _ _ _ => true | _ => false end) ms
  | EUnary _ (OrUn _ (AndUn _ (RelUn _ (AddUn _ (MulUn _ _))))) => false
  end.

Definition reads_field (m : member) : bool :=
  match m with Member _ _ ms => existsb (fun x => match x with MPAccess _ _ _ => true | _ => false end) ms end.

Fixpoint sql_expr (e : expr) : sqlres :=
  match e with
  | ETernary _ c t f =>
      let$ cs := sql_cor c in let$ ts := sql_cor t in let$ fs := sql_expr f in
      SqlOk (#"case (" ++ cs ++ #")::bool when true then (" ++ ts ++ #") else (" ++ fs ++ #") end")
  | EMatch _ _ _ => SqlUnsupported
  | EUnary _ c => sql_cor c
  end
with sql_cor (c : cor) : sqlres :=
  match c with
  | OrBin _ l r => let$ ls := sql_cor l in let$ rs := sql_cand r in SqlOk (binary ls #"OR" rs)
  | OrUn _ a => sql_cand a
  end
with sql_cand (c : cand) : sqlres :=
  match c with
  | AndBin _ l r => let$ ls := sql_cand l in let$ rs := sql_rel r in SqlOk (binary ls #"AND" rs)
  | AndUn _ a => sql_rel a
  end
with sql_rel (c : rel) : sqlres :=
  match c with
  | RelBin _ l op r => let$ ls := sql_rel l in let$ rs := sql_addn r in SqlOk (binary ls (relop_sql op) rs)
  | RelUn _ a => sql_addn a
  end
with sql_addn (c : addn) : sqlres :=
  match c with
  | AddBin _ l op r => let$ ls := sql_addn l in let$ rs := sql_mult r in SqlOk (binary ls (addop_sql op) rs)
  | AddUn _ a => sql_mult a
  end
with sql_mult (c : mult) : sqlres :=
  match c with
  | MulBin _ l op r => let$ ls := sql_mult l in let$ rs := sql_unary r in SqlOk (binary ls (mulop_sql op) rs)
  | MulUn _ a => sql_unary a
  end
with sql_unary (u : unary) : sqlres :=
  match u with
  | UnMember _ m => sql_member m
  (* prefix operators bind tighter than -> / ->> : a chain that reads a field is parenthesised first *)
  | UnNot _ nots m =>
      let$ ms := sql_member m in
      SqlOk ([40] ++ oplist_sql 33 nots ++ (if reads_field m then [40] ++ ms ++ [41] else ms) ++ [41])
  | UnNeg _ negs m =>
      let$ ms := sql_member m in
      SqlOk ([40] ++ oplist_sql 45 negs ++ (if reads_field m then [40] ++ ms ++ [41] else ms) ++ [41])
  end
with sql_member (m : member) : sqlres :=
  match m with
  | Member _ p ms =>
      let call_args (args : list expr) (k : list chars -> sqlres) : sqlres :=
        (* the AST stores call arguments last-first *)
        with_all sql_expr args (fun ts => k (rev ts)) in
      match ms with
      | [MPCall _ args] =>
          call_args args (fun ts =>
            let plain := let$ ps := sql_primary p in SqlOk (ps ++ [40] ++ join_sql #", " ts ++ [41]) in
            match p with
            | PrIdent _ name =>
                match cast_type name, ts with
                | Some ty, [a] =>
                    let wrap := match args with [x] => cast_needs_parens x | _ => false end in
                    SqlOk ((if wrap then [40] ++ a ++ [41] else a) ++ #"::" ++ ty)
                | Some ty, [] => SqlOk (#"NULL::" ++ ty)
                | _, _ => plain
                end
            | _ => plain
            end)
      | _ =>
          let$ ps := sql_primary p in
          (* [after]: the text so far ends in a field access; a subscript binds tighter than ->,
             so the chain is parenthesised before it is indexed *)
          (fix go (ms : list mprime) (acc : chars) (after : bool) : sqlres :=
             match ms with
             | [] => SqlOk acc
             | MPAccess _ _ name :: r =>
                 go r ([40] ++ acc ++ [41] ++ (match r with [] => #"->>'" | _ => #"->'" end) ++ name ++ [39]) true
             | MPCall _ args :: r =>
                 call_args args (fun ts => go r (acc ++ [40] ++ join_sql #", " ts ++ [41]) false)
             | MPIndex _ e :: r =>
                 let$ es := sql_expr e in
                 go r ([40] ++ (if after then [40] ++ acc ++ [41] else acc) ++ [91] ++ es ++ [93; 41]) false
             end) ms ps false
      end
  end
with sql_primary (p : primary) : sqlres :=
  match p with
  | PrIdent _ name => SqlOk name
  | PrParens _ e => let$ es := sql_expr e in SqlOk ([40] ++ es ++ [41])
  | PrList _ es =>
      with_all sql_expr es (fun ts =>
        match ts with
        | [] => SqlOk #"ARRAY[]"
        | _ => SqlOk (#"ARRAY[" ++ join_sql #", " ts ++ [93])
        end)
  | PrObj _ inits =>
      match inits with
      | [] => SqlOk #"'{}'::json"
      | _ =>
          with_all (fun i => match i with ObjInit _ k v => let$ ks := sql_expr k in let$ vs := sql_expr v in SqlOk (ks ++ #", " ++ vs) end)
                   inits (fun ts => SqlOk (#"json_build_object(" ++ join_sql #", " ts ++ [41]))
      end
  | PrLit _ l => lit_sql l
  end.
