(* Model/Parser.v — the parsing half of rscel/src/compiler/compiler.rs
   (recursive descent over the lazy tokenizer, building grammar.rs nodes with
   their source ranges and reporting syntax errors at the same positions).
   Code generation is Model/Compile.v: it is a function of the tree, because
   no parsing decision depends on generated code. *)
From Coq Require Import ZArith List Bool.
From Rscel Require Import Base.Prims Base.F64 Base.Text Model.Value Model.Funcs Model.Lexer Model.Ast.
Import ListNotations.
Import Coq.Strings.String.StringSyntax.
Open Scope Z_scope.

Inductive pres (A : Type) := POk (a : A) (t : tokenizer) | PErr (l : loc) | PFuel.
Arguments POk {A} _ _.
Arguments PErr {A} _.
Arguments PFuel {A}.

Definition P (A : Type) := tokenizer -> pres A.
Definition pret {A} (a : A) : P A := fun t => POk a t.
Definition pbind {A B} (m : P A) (f : A -> P B) : P B :=
  fun t => match m t with POk a t' => f a t' | PErr l => PErr l | PFuel => PFuel end.
Notation "'let!' x ':=' m 'in' k" := (pbind m (fun x => k))
  (at level 200, x pattern, m at level 100, k at level 200).

Definition peek : P (option tokloc) :=
  fun t => match tz_peek t with TOk o t' => POk o t' | TErr l => PErr l | TFuel => PFuel end.
Definition next : P (option tokloc) :=
  fun t => match tz_next t with TOk o t' => POk o t' | TErr l => PErr l | TFuel => PFuel end.
Definition here : P loc := fun t => POk (tz_loc t) t.
(** SyntaxError::from_location(self.tokenizer.location()) *)
Definition fail_here {A} : P A := fun t => PErr (tz_loc t).
Definition fail_at {A} (l : loc) : P A := fun _ => PErr l.

Definition tok_of (o : option tokloc) : option token := option_map t_tok o.

Definition token_eqb (a b : token) : bool :=
  match a, b with
  | TQuestion, TQuestion | TColon, TColon | TAdd, TAdd | TMinus, TMinus | TMultiply, TMultiply
  | TDivide, TDivide | TMod, TMod | TNot, TNot | TDot, TDot | TComma, TComma | TLBracket, TLBracket
  | TRBracket, TRBracket | TLBrace, TLBrace | TRBrace, TRBrace | TLParen, TLParen | TRParen, TRParen
  | TLessThan, TLessThan | TGreaterThan, TGreaterThan | TOrOr, TOrOr | TAndAnd, TAndAnd
  | TLessEqual, TLessEqual | TGreaterEqual, TGreaterEqual | TEqualEqual, TEqualEqual | TNotEqual, TNotEqual
  | TIn, TIn | TNull, TNull | TMatch, TMatch | TCase, TCase => true
  | _, _ => false
  end.

Definition is_tok (o : option tokloc) (k : token) : bool :=
  match o with Some t => token_eqb (t_tok t) k | None => false end.

Definition mtype_of (name : chars) : option mtype :=
  if bytes_eqb name #"int" then Some MTInt else if bytes_eqb name #"uint" then Some MTUint
  else if bytes_eqb name #"float" || bytes_eqb name #"double" then Some MTFloat
  else if bytes_eqb name #"string" then Some MTString else if bytes_eqb name #"bool" then Some MTBool
  else if bytes_eqb name #"bytes" then Some MTBytes else if bytes_eqb name #"list" then Some MTList
  else if bytes_eqb name #"object" then Some MTObject
  else if bytes_eqb name #"null" || bytes_eqb name #"null_type" then Some MTNull
  else if bytes_eqb name #"timestamp" then Some MTTimestamp else if bytes_eqb name #"duration" then Some MTDuration
  else if bytes_eqb name #"type" then Some MTType else if bytes_eqb name #"dyn" then Some MTDyn
  else None.

Definition relop_of (t : token) : option relop :=
  match t with
  | TLessThan => Some RLt | TLessEqual => Some RLe | TEqualEqual => Some REq | TNotEqual => Some RNe
  | TGreaterEqual => Some RGe | TGreaterThan => Some RGt | TIn => Some RIn | _ => None
  end.
Definition cmpop_of (t : token) : option cmpop :=
  match t with
  | TEqualEqual => Some CEq | TNotEqual => Some CNeq | TGreaterThan => Some CGt
  | TGreaterEqual => Some CGe | TLessThan => Some CLt | TLessEqual => Some CLe | _ => None
  end.
Definition addop_of (t : token) : option addop :=
  match t with TAdd => Some AOAdd | TMinus => Some AOSub | _ => None end.
Definition mulop_of (t : token) : option mulop :=
  match t with TMultiply => Some MOMul | TDivide => Some MODiv | TMod => Some MOMod | _ => None end.

(** Identifiers are ASCII; the type table is keyed by bytes. *)
Definition is_type_name (name : chars) : bool :=
  match assoc name type_table with Some _ => true | None => false end.

(** Bound on loop iterations: every iteration consumes at least one character. *)
Definition loop_fuel (t : tokenizer) : nat := S (S (length (sc_rest (tz_scan t)))).

(** Sub-parser for f-string segments: each [Expr] segment must parse as an
    expression (trailing tokens are not checked, as in the source). *)
Section Levels.
  Variable rec_expr : P expr.                       (* parse_expression, one fuel unit lower *)
  Variable rec_src : chars -> pres unit.            (* parse a sub-source (an f-string segment) *)

  (** a generic left-associative loop *)
  Fixpoint lloop {A B O} (n : nat) (opof : token -> option O) (rhs : P B)
           (mk : A -> O -> B -> A) (acc : A) : P A :=
    match n with
    | O => fun _ => PFuel
    | S n' =>
        let! o := peek in
        match o with
        | Some t =>
            match opof (t_tok t) with
            | Some op => let! _ := next in let! b := rhs in lloop n' opof rhs mk (mk acc op b)
            | None => pret acc
            end
        | None => pret acc
        end
    end.

  (** [cnt]: operators of this run seen so far; the run (operators plus the
      call that sees its end) may be at most 256 calls deep *)
  Fixpoint p_oplist (n : nat) (k : token) (cnt : Z) : P oplist :=
    match n with
    | O => fun _ => PFuel
    | S n' =>
        if 256 <=? cnt then fail_here else
        let! o := peek in
        match o with
        | Some t =>
            if token_eqb (t_tok t) k then
              let! _ := next in
              let! tail := p_oplist n' k (cnt + 1) in
              pret (OLCons (surrounding (oplist_range tail) (t_loc t)) tail)
            else let! l := here in pret (OLEmpty (mkRange l l))
        | None => let! l := here in pret (OLEmpty (mkRange l l))
        end
    end.

  Fixpoint p_expr_list (n : nat) (ending : token) (acc : list expr) : P (list expr) :=
    match n with
    | O => fun _ => PFuel
    | S n' =>
        let! o := peek in
        if is_tok o ending then pret (rev acc)
        else
          let! e := rec_expr in
          let! o2 := peek in
          if is_tok o2 TComma then let! _ := next in p_expr_list n' ending (e :: acc)
          else pret (rev (e :: acc))
    end.

  Fixpoint p_obj_inits (n : nat) (acc : list objinit) : P (list objinit) :=
    match n with
    | O => fun _ => PFuel
    | S n' =>
        let! o := peek in
        if is_tok o TRBrace then pret (rev acc)
        else
          let! k := rec_expr in
          let! c := next in
          if negb (is_tok c TColon) then fail_here
          else
            let! v := rec_expr in
            let init := ObjInit (surrounding (expr_range k) (expr_range v)) k v in
            let! o2 := peek in
            if is_tok o2 TComma then let! _ := next in p_obj_inits n' (init :: acc)
            else pret (rev (init :: acc))
    end.

  (** a syntax error inside a segment is reported where the literal starts ([at]):
      the segment's own positions are relative to the segment text *)
  Fixpoint check_segments (at_ : loc) (segs : list fseg) : P unit :=
    match segs with
    | [] => pret tt
    | FLit _ :: r => check_segments at_ r
    | FExpr s :: r =>
        match rec_src s with
        | POk _ _ => check_segments at_ r
        | PErr _ => fail_at at_
        | PFuel => fun _ => PFuel
        end
    end.

  Definition p_primary : P primary :=
    fun t0 =>
    (let! o := next in
     match o with
     | Some (mkTok (TIdent v) l) => pret (PrIdent l v)
     | Some (mkTok TLParen l) =>
         let! e := rec_expr in
         let! c := next in
         match c with
         | Some (mkTok TRParen rl) => pret (PrParens (surrounding l rl) e)
         | Some (mkTok _ bl) => fail_at (r_start bl)
         | None => fail_at (r_start l)
         end
     | Some (mkTok TLBracket l) =>
         fun t => (let! es := p_expr_list (loop_fuel t) TRBracket [] in
                   let! c := peek in
                   match c with
                   | Some (mkTok TRBracket rl) =>
                       let! _ := next in pret (PrList (surrounding l rl) es)
                   | _ => fail_here
                   end) t
     | Some (mkTok TLBrace l) =>
         fun t => (let! inits := p_obj_inits (loop_fuel t) [] in
                   let! c := peek in
                   match c with
                   | Some (mkTok TRBrace rl) =>
                       let! _ := next in pret (PrObj (surrounding l rl) inits)
                   | _ => fail_here
                   end) t
     | Some (mkTok (TUIntLit v) l) => pret (PrLit l (LUInt v))
     | Some (mkTok (TIntLit v) l) =>
         if v <=? i64_max then pret (PrLit l (LInt v)) else fail_at (r_start l)
     | Some (mkTok (TFloatLit v) l) => pret (PrLit l (LFloat v))
     | Some (mkTok (TStringLit v) l) => pret (PrLit l (LStr v))
     | Some (mkTok (TByteStringLit v) l) => pret (PrLit l (LBytes v))
     | Some (mkTok (TFStringLit segs) l) =>
         let! _ := check_segments (r_start l) segs in pret (PrLit l (LFStr segs))
     | Some (mkTok (TBoolLit b) l) => pret (PrLit l (LBool b))
     | Some (mkTok TNull l) => pret (PrLit l LNull)
     | _ => fail_here
     end) t0.

  Fixpoint p_member_primes (n : nat) (acc : list mprime) : P (list mprime) :=
    match n with
    | O => fun _ => PFuel
    | S n' =>
        let! o := peek in
        match o with
        | Some (mkTok TDot dl) =>
            let! _ := next in
            let! i := next in
            match i with
            | Some (mkTok (TIdent name) il) =>
                p_member_primes n' (MPAccess (surrounding dl il) il name :: acc)
            | _ => fail_here
            end
        | Some (mkTok TLParen l) =>
            let! _ := next in
            fun t => (let! args := p_expr_list (loop_fuel t) TRParen [] in
                      let! c := next in
                      match c with
                      | Some (mkTok TRParen rl) =>
                          (* the AST stores the arguments in reverse order *)
                          p_member_primes n' (MPCall (surrounding l rl) (rev args) :: acc)
                      | _ => fail_here
                      end) t
        | Some (mkTok TLBracket l) =>
            let! _ := next in
            let! e := rec_expr in
            let! c := next in
            match c with
            | Some (mkTok TRBracket rl) => p_member_primes n' (MPIndex (surrounding l rl) e :: acc)
            | _ => fail_here
            end
        | _ => pret (rev acc)
        end
    end.

  Definition p_member : P member :=
    let! p := p_primary in
    fun t => (let! ms := p_member_primes (loop_fuel t) [] in
              pret (Member (fold_left (fun r m => surrounding r (mprime_range m)) ms (primary_range p)) p ms)) t.

  Definition p_unary : P unary :=
    let! o := peek in
    match tok_of o with
    | Some TNot =>
        fun t => (let! nots := p_oplist (loop_fuel t) TNot 0 in
                  let! m := p_member in
                  pret (UnNot (surrounding (oplist_range nots) (member_range m)) nots m)) t
    | Some TMinus =>
        fun t => (let! negs := p_oplist (loop_fuel t) TMinus 0 in
                  let! m := p_member in
                  pret (UnNeg (surrounding (member_range m) (oplist_range negs)) negs m)) t
    | _ => let! m := p_member in pret (UnMember (member_range m) m)
    end.

  Definition p_mult : P mult :=
    let! u := p_unary in
    fun t => lloop (loop_fuel t) mulop_of p_unary
               (fun acc op b => MulBin (surrounding (mult_range acc) (unary_range b)) acc op b)
               (MulUn (unary_range u) u) t.

  Definition p_addn : P addn :=
    let! u := p_mult in
    fun t => lloop (loop_fuel t) addop_of p_mult
               (fun acc op b => AddBin (surrounding (addn_range acc) (mult_range b)) acc op b)
               (AddUn (mult_range u) u) t.

  Definition p_rel : P rel :=
    let! u := p_addn in
    fun t => lloop (loop_fuel t) relop_of p_addn
               (fun acc op b => RelBin (surrounding (rel_range acc) (addn_range b)) acc op b)
               (RelUn (addn_range u) u) t.

  Definition p_cand : P cand :=
    let! u := p_rel in
    fun t => lloop (loop_fuel t) (fun k => match k with TAndAnd => Some tt | _ => None end) p_rel
               (fun acc _ b => AndBin (surrounding (cand_range acc) (rel_range b)) acc b)
               (AndUn (rel_range u) u) t.

  Definition p_cor : P cor :=
    let! u := p_cand in
    fun t => lloop (loop_fuel t) (fun k => match k with TOrOr => Some tt | _ => None end) p_cand
               (fun acc _ b => OrBin (surrounding (cor_range acc) (cand_range b)) acc b)
               (OrUn (cand_range u) u) t.

  (** parse_match_pattern; [start] is taken before the first peek *)
  Definition p_pattern : P mpat :=
    let! start := here in
    let! o := peek in
    let cmp_pattern : P mpat :=
      let! o := peek in
      let! op := match o with
                 | Some t => match cmpop_of (t_tok t) with
                             | Some c => let! _ := next in pret c
                             | None => pret CEq
                             end
                 | None => pret CEq
                 end in
      let! ope := here in
      let! c := p_cor in
      let! e := here in
      pret (MPatCmp (mkRange start e) (mkRange start ope) op c) in
    match o with
    | Some (mkTok (TIdent i) _) =>
        if bytes_eqb i #"_" then
          let! _ := next in let! e := here in
          pret (MPatAny (mkRange start e) (mkRange start e))
        else if is_type_name i then
          match mtype_of i with
          | Some ty => let! _ := next in let! e := here in
                       pret (MPatType (mkRange start e) (mkRange start e) ty i)
          | None => cmp_pattern       (* unreachable: every type name has a pattern *)
          end
        else cmp_pattern
    | _ => cmp_pattern
    end.

  Fixpoint p_cases (n : nat) (comma_seen : bool) (rng : range) (acc : list mcase) : P (range * list mcase) :=
    match n with
    | O => fun _ => PFuel
    | S n' =>
        let! rb := peek in
        match rb with
        | Some (mkTok TRBrace rl) => pret (surrounding rng rl, rev acc)
        | _ =>
            if negb comma_seen then fail_here
            else
              let! ct := next in
              if negb (is_tok ct TCase) then fail_here
              else
                let! pat := p_pattern in
                let! col := next in
                if negb (is_tok col TColon) then fail_here
                else
                  let! e := rec_expr in
                  let c := MCase (surrounding (mpat_range pat) (expr_range e)) pat e in
                  let! cm := peek in
                  if is_tok cm TComma then let! _ := next in p_cases n' true rng (c :: acc)
                  else p_cases n' false rng (c :: acc)
        end
    end.

  Definition p_expr_body : P expr :=
    let! o := peek in
    match o with
    | Some (mkTok TMatch ml) =>
        let! _ := next in
        let! c := rec_expr in
        let! lb := next in
        if negb (is_tok lb TLBrace) then fail_here
        else
          fun t => (let! rc := p_cases (loop_fuel t) true (surrounding ml (expr_range c)) [] in
                    let! _ := next in
                    pret (EMatch (fst rc) c (snd rc))) t
    | _ =>
        let! l := p_cor in
        let! q := peek in
        if is_tok q TQuestion then
          let! _ := next in
          let! tc := p_cor in
          let! col := next in
          if negb (is_tok col TColon) then fail_here
          else
            let! fc := rec_expr in
            pret (ETernary (surrounding (cor_range l) (expr_range fc)) l tc fc)
        else pret (EUnary (cor_range l) l)
    end.
End Levels.

(** parse_expression with explicit recursion depth; f-string segments are
    parsed by a fresh tokenizer at the same depth budget. *)
(** [depth]: expressions this one is nested in (MAX_EXPRESSION_NESTING = 32 levels may be open at once) *)
Fixpoint p_expr_at (fuel : nat) (depth : Z) : P expr :=
  match fuel with
  | O => fun _ => PFuel
  | S f =>
      if 32 <=? depth then fail_here else
      p_expr_body (p_expr_at f (depth + 1))
        (fun s => match p_expr_at f (depth + 1) (tz_init s) with
                  | POk _ t => POk tt t
                  | PErr l => PErr l
                  | PFuel => PFuel
                  end)
  end.

Definition p_expr (fuel : nat) : P expr := p_expr_at fuel 0.

(** CelCompiler::compile: one expression, then end of input. *)
Definition parse_program (fuel : nat) (src : chars) : pres expr :=
  (let! e := p_expr fuel in
   let! o := peek in
   match o with
   | None => pret e
   | Some _ => fail_here
   end) (tz_init src).
