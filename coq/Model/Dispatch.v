(* Model/Dispatch.v — what rscel-macro's #[dispatch] generates
   (rscel-macro/src/types/dispatch_mod.rs, dispatch_func.rs):
     - max_args = the largest parameter count among the overloads (a `this`
       parameter counts);
     - more than max_args arguments: Argument error; fewer: padded with Null;
     - match (this, a0 .. a{max-1}) against the overloads in declaration
       order; an overload without `this` requires this = Null, positions
       beyond its own parameters require Null; a parameter of type CelValue
       matches anything;
     - no overload: Argument error. *)
From Coq Require Import ZArith List Bool.
From Rscel Require Import Base.Prims Base.F64 Model.Value.
Import ListNotations.
Open Scope Z_scope.

Inductive pat := PInt | PUInt | PDouble | PBool | PString | PBytes | PList | PMap
               | PTime | PDur | PAny | PNull.

Definition pat_match (p : pat) (v : value) : bool :=
  match p, v with
  | PInt, VInt _ | PUInt, VUInt _ | PDouble, VFloat _ | PBool, VBool _
  | PString, VString _ | PBytes, VBytes _ | PList, VList _ | PMap, VMap _
  | PTime, VTime _ | PDur, VDur _ | PNull, VNull => true
  | PAny, _ => true
  | _, _ => false
  end.

Record arm := mkArm {
  a_this : option pat;            (* None: the overload has no `this` parameter *)
  a_args : list pat;
  a_impl : value -> list value -> res value   (* receives this and the padded args *)
}.

Definition arm_params (a : arm) : nat :=
  length (a_args a) + match a_this a with Some _ => 1 | None => 0 end.

Definition max_args (arms : list arm) : nat :=
  fold_left (fun m a => Nat.max m (arm_params a)) arms 0%nat.

Fixpoint pats_match (ps : list pat) (vs : list value) : bool :=
  match ps, vs with
  | [], [] => true
  | p :: ps', v :: vs' => pat_match p v && pats_match ps' vs'
  | _, _ => false
  end.

Definition arm_match (mx : nat) (a : arm) (this : value) (args : list value) : bool :=
  pat_match (match a_this a with Some p => p | None => PNull end) this &&
  pats_match (a_args a ++ repeat PNull (mx - length (a_args a))) args.

Definition dispatch (arms : list arm) (this : value) (args : list value) : res value :=
  let mx := max_args arms in
  if Nat.ltb mx (length args) then ROk (VErr EArgument)
  else
    let args' := args ++ repeat VNull (mx - length args) in
    match find (fun a => arm_match mx a this args') arms with
    | Some a => a_impl a this args'
    | None => ROk (VErr EArgument)
    end.

(** Helpers to write overload bodies without defaulted projections: a body
    that is applied to operands of the wrong shape (impossible after
    [arm_match]) is an Internal error, and Proofs/ shows it is unreachable. *)
Definition bad : res value := ROk (VErr EInternal).
Definition ok (v : value) : res value := ROk v.
