(* Model/Serde.v — what #[derive(Serialize, Deserialize)] writes and reads for
   Program, CelValue, ByteCode, CelError, as a tree of the serde data model
   (self-describing formats such as JSON see the names, positional formats such
   as bincode see the indices and the order).  Timestamps and durations are
   written in whole milliseconds; error messages are not part of the model. *)
From Coq Require Import ZArith List Bool.
From Rscel Require Import Base.Prims Base.F64 Base.Text Model.Value.
Import ListNotations.
Import Coq.Strings.String.StringSyntax.
Open Scope Z_scope.

Inductive sd :=
| SDI (z : Z)                       (* signed integer *)
| SDU (z : Z)                       (* unsigned integer *)
| SDF (f : f64)                     (* float_repr: a number, or "NaN" / "inf" / "-inf" in human-readable formats *)
| SDB (b : bool)
| SDS (s : bytes)                   (* string *)
| SDSeq (l : list sd)
| SDMap (m : list (bytes * sd))     (* string-keyed map *)
| SDNone
| SDSome (x : sd)
| SDStruct (fields : list (bytes * sd))
| SDVar (idx : Z) (name : bytes) (payload : sdpay)   (* enum variant *)
with sdpay :=
| PUnit
| PNew (x : sd)                     (* newtype variant *)
| PStruct (fields : list (bytes * sd)).

Definition ms_of_ns (ns : Z) : Z := ns / 1000000.        (* floor: chrono timestamp_millis *)
Definition dur_ms_of_ns (ns : Z) : Z := Z.quot ns 1000000.   (* Duration::num_milliseconds truncates *)

Definition ser_err (e : cel_error) : sd :=
  let msg := SDS [] in
  match e with
  | EMisc => SDVar 0 #"Misc" (PNew msg)
  | ESyntax l c => SDVar 1 #"Syntax" (PNew (SDStruct [(#"loc", SDSeq [SDU l; SDU c]); (#"message", SDNone)]))
  | EValue => SDVar 2 #"Value" (PNew msg)
  | EArgument => SDVar 3 #"Argument" (PNew msg)
  | EInvalidOp => SDVar 4 #"InvalidOp" (PNew msg)
  | ERuntime => SDVar 5 #"Runtime" (PNew msg)
  | EBinding s => SDVar 6 #"Binding" (PStruct [(#"symbol", SDS s)])
  | EAttribute f => SDVar 7 #"Attribute" (PStruct [(#"parent", SDS #"obj"); (#"field", SDS f)])
  | EDivZero => SDVar 8 #"DivideByZero" PUnit
  | EInternal => SDVar 9 #"Internal" (PNew msg)
  end.

Fixpoint ser_value (v : value) : sd :=
  match v with
  | VInt z => SDVar 0 #"Int" (PNew (SDI z))
  | VUInt z => SDVar 1 #"UInt" (PNew (SDU z))
  | VFloat f => SDVar 2 #"Float" (PNew (SDF f))
  | VBool b => SDVar 3 #"Bool" (PNew (SDB b))
  | VString s => SDVar 4 #"String" (PNew (SDS s))
  | VBytes b => SDVar 5 #"Bytes" (PNew (SDStruct [(#"inner", SDSeq (map SDU b))]))
  | VList l => SDVar 6 #"List" (PNew (SDSeq (map ser_value l)))
  | VMap m => SDVar 7 #"Map" (PNew (SDMap (map (fun kv => (fst kv, ser_value (snd kv))) m)))
  | VNull => SDVar 8 #"Null" PUnit
  | VIdent s => SDVar 9 #"Ident" (PNew (SDS s))
  | VType s => SDVar 10 #"Type" (PNew (SDS s))
  | VTime ns => SDVar 11 #"TimeStamp" (PNew (SDI (ms_of_ns ns)))
  | VDur ns => SDVar 12 #"Duration" (PNew (SDI (dur_ms_of_ns ns)))
  | VCode c => SDVar 13 #"ByteCode" (PNew (SDStruct [(#"inner", SDSeq (map ser_instr c))]))
  | VErr e => SDVar 14 #"Err" (PNew (ser_err e))
  end
with ser_instr (i : instr) : sd :=
  match i with
  | IPush v => SDVar 0 #"Push" (PNew (ser_value v))
  | IPop => SDVar 1 #"Pop" PUnit | ITest => SDVar 2 #"Test" PUnit | IDup => SDVar 3 #"Dup" PUnit
  | IOr => SDVar 4 #"Or" PUnit | IAnd => SDVar 5 #"And" PUnit | INot => SDVar 6 #"Not" PUnit
  | INeg => SDVar 7 #"Neg" PUnit | IAdd => SDVar 8 #"Add" PUnit | ISub => SDVar 9 #"Sub" PUnit
  | IMul => SDVar 10 #"Mul" PUnit | IDiv => SDVar 11 #"Div" PUnit | IMod => SDVar 12 #"Mod" PUnit
  | ILt => SDVar 13 #"Lt" PUnit | ILe => SDVar 14 #"Le" PUnit | IEq => SDVar 15 #"Eq" PUnit
  | INe => SDVar 16 #"Ne" PUnit | IGe => SDVar 17 #"Ge" PUnit | IGt => SDVar 18 #"Gt" PUnit
  | IIn => SDVar 19 #"In" PUnit
  | IJmp d => SDVar 20 #"Jmp" (PNew (SDI d))
  | IJmpCond w d => SDVar 21 #"JmpCond" (PStruct [(#"when", SDVar (if w then 0 else 1) (if w then #"True" else #"False") PUnit);
                                                  (#"dist", SDI d)])
  | IMkList n => SDVar 22 #"MkList" (PNew (SDU n))
  | IMkDict n => SDVar 23 #"MkDict" (PNew (SDU n))
  | IIndex => SDVar 24 #"Index" PUnit
  | IAccess => SDVar 25 #"Access" PUnit
  | ICall n => SDVar 26 #"Call" (PNew (SDU n))
  | IFmt n => SDVar 27 #"FmtString" (PNew (SDU n))
  end.

(** Program { details: ProgramDetails { source, params }, bytecode: CelByteCode { inner } } *)
Definition ser_program (source : bytes) (params : list bytes) (c : code) : sd :=
  SDStruct [(#"details", SDStruct [(#"source", SDSome (SDS source)); (#"params", SDSeq (map SDS params))]);
            (#"bytecode", SDStruct [(#"inner", SDSeq (map ser_instr c))])].

(* ---- reading back (by variant index: what a positional format does) -------------------------- *)

Definition de_err (x : sd) : option cel_error :=
  match x with
  | SDVar 0 _ (PNew (SDS _)) => Some EMisc
  | SDVar 1 _ (PNew (SDStruct [(_, SDSeq [SDU l; SDU c]); (_, _)])) => Some (ESyntax l c)
  | SDVar 2 _ (PNew (SDS _)) => Some EValue
  | SDVar 3 _ (PNew (SDS _)) => Some EArgument
  | SDVar 4 _ (PNew (SDS _)) => Some EInvalidOp
  | SDVar 5 _ (PNew (SDS _)) => Some ERuntime
  | SDVar 6 _ (PStruct [(_, SDS s)]) => Some (EBinding s)
  | SDVar 7 _ (PStruct [(_, SDS _); (_, SDS f)]) => Some (EAttribute f)
  | SDVar 8 _ PUnit => Some EDivZero
  | SDVar 9 _ (PNew (SDS _)) => Some EInternal
  | _ => None
  end.

Fixpoint all_some {A} (l : list (option A)) : option (list A) :=
  match l with
  | [] => Some []
  | Some x :: r => option_map (cons x) (all_some r)
  | None :: _ => None
  end.

Definition de_u8 (x : sd) : option Z := match x with SDU z => Some z | _ => None end.

Fixpoint de_value (x : sd) : option value :=
  match x with
  | SDVar 0 _ (PNew (SDI z)) => Some (VInt z)
  | SDVar 1 _ (PNew (SDU z)) => Some (VUInt z)
  | SDVar 2 _ (PNew (SDF f)) => Some (VFloat f)
  | SDVar 3 _ (PNew (SDB b)) => Some (VBool b)
  | SDVar 4 _ (PNew (SDS s)) => Some (VString s)
  | SDVar 5 _ (PNew (SDStruct [(_, SDSeq l)])) => option_map VBytes (all_some (map de_u8 l))
  | SDVar 6 _ (PNew (SDSeq l)) => option_map VList (all_some (map de_value l))
  | SDVar 7 _ (PNew (SDMap m)) =>
      option_map VMap (all_some (map (fun kv => option_map (pair (fst kv)) (de_value (snd kv))) m))
  | SDVar 8 _ PUnit => Some VNull
  | SDVar 9 _ (PNew (SDS s)) => Some (VIdent s)
  | SDVar 10 _ (PNew (SDS s)) => Some (VType s)
  | SDVar 11 _ (PNew (SDI ms)) => Some (VTime (ms * 1000000))
  | SDVar 12 _ (PNew (SDI ms)) => Some (VDur (ms * 1000000))
  | SDVar 13 _ (PNew (SDStruct [(_, SDSeq l)])) => option_map VCode (all_some (map de_instr l))
  | SDVar 14 _ (PNew e) => option_map VErr (de_err e)
  | _ => None
  end
with de_instr (x : sd) : option instr :=
  match x with
  | SDVar 0 _ (PNew v) => option_map IPush (de_value v)
  | SDVar 1 _ PUnit => Some IPop | SDVar 2 _ PUnit => Some ITest | SDVar 3 _ PUnit => Some IDup
  | SDVar 4 _ PUnit => Some IOr | SDVar 5 _ PUnit => Some IAnd | SDVar 6 _ PUnit => Some INot
  | SDVar 7 _ PUnit => Some INeg | SDVar 8 _ PUnit => Some IAdd | SDVar 9 _ PUnit => Some ISub
  | SDVar 10 _ PUnit => Some IMul | SDVar 11 _ PUnit => Some IDiv | SDVar 12 _ PUnit => Some IMod
  | SDVar 13 _ PUnit => Some ILt | SDVar 14 _ PUnit => Some ILe | SDVar 15 _ PUnit => Some IEq
  | SDVar 16 _ PUnit => Some INe | SDVar 17 _ PUnit => Some IGe | SDVar 18 _ PUnit => Some IGt
  | SDVar 19 _ PUnit => Some IIn
  | SDVar 20 _ (PNew (SDI d)) => Some (IJmp d)
  | SDVar 21 _ (PStruct [(_, SDVar w _ PUnit); (_, SDI d)]) =>
      if w =? 0 then Some (IJmpCond true d) else if w =? 1 then Some (IJmpCond false d) else None
  | SDVar 22 _ (PNew (SDU n)) => Some (IMkList n)
  | SDVar 23 _ (PNew (SDU n)) => Some (IMkDict n)
  | SDVar 24 _ PUnit => Some IIndex
  | SDVar 25 _ PUnit => Some IAccess
  | SDVar 26 _ (PNew (SDU n)) => Some (ICall n)
  | SDVar 27 _ (PNew (SDU n)) => Some (IFmt n)
  | _ => None
  end.

(** what survives: times at millisecond resolution *)
Fixpoint quant (v : value) : value :=
  match v with
  | VTime ns => VTime (ms_of_ns ns * 1000000)
  | VDur ns => VDur (dur_ms_of_ns ns * 1000000)
  | VList l => VList (map quant l)
  | VMap m => VMap (map (fun kv => (fst kv, quant (snd kv))) m)
  | VCode c => VCode (map quant_instr c)
  | v => v
  end
with quant_instr (i : instr) : instr :=
  match i with IPush v => IPush (quant v) | i => i end.
