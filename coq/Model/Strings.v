(* Model/Strings.v — Rust's str::split / rsplit / replace / remove_matches /
   trim_*_matches / split_at_checked / trim / split_whitespace on UTF-8 text
   (context/default_funcs/string/*.rs).  Strings are valid UTF-8 byte lists:
   a non-empty pattern can only match at character boundaries, so the search
   runs on bytes; the empty pattern matches at every character boundary. *)
From Coq Require Import ZArith List Bool.
From Rscel Require Import Base.Prims Base.Text.
Import ListNotations.
Open Scope Z_scope.

(** the UTF-8 encodings of the characters of s, in order (None: not UTF-8) *)
Definition chars_of (s : bytes) : option (list bytes) :=
  option_map (map utf8_encode_char) (utf8_decode s).

(** pieces between the non-overlapping matches found scanning from the left *)
Fixpoint split_scan (fuel : nat) (needle s : bytes) (cur : bytes) (acc : list bytes) : list bytes :=
  match fuel with
  | O => rev (rev cur :: acc)
  | S f =>
      match s with
      | [] => rev (rev cur :: acc)
      | c :: r =>
          if is_prefix needle s then split_scan f needle (skipn (length needle) s) [] (rev cur :: acc)
          else split_scan f needle r (c :: cur) acc
      end
  end.

Definition split_str (s needle : bytes) : option (list bytes) :=
  match needle with
  | [] => option_map (fun cs => [] :: cs ++ [[]]) (chars_of s)
  | _ => Some (split_scan (S (length s)) needle s [] [])
  end.

(** scanning from the right = scanning the mirror image from the left *)
Definition rsplit_str (s needle : bytes) : option (list bytes) :=
  match needle with
  | [] => option_map (fun cs => [] :: rev cs ++ [[]]) (chars_of s)
  | _ => Some (map (@rev Z) (split_scan (S (length s)) (rev needle) (rev s) [] []))
  end.

Fixpoint join_bytes (sep : bytes) (l : list bytes) : bytes :=
  match l with
  | [] => []
  | [x] => x
  | x :: r => x ++ sep ++ join_bytes sep r
  end.

Definition replace_str (s from to : bytes) : option bytes := option_map (join_bytes to) (split_str s from).
Definition remove_str (s pat : bytes) : option bytes :=
  match pat with [] => Some s | _ => replace_str s pat [] end.

Fixpoint trim_start_go (fuel : nat) (p s : bytes) : bytes :=
  match fuel with
  | O => s
  | S f => if is_prefix p s then trim_start_go f p (skipn (length p) s) else s
  end.
Definition trim_start_matches (s p : bytes) : bytes :=
  match p with [] => s | _ => trim_start_go (length s) p s end.
Definition trim_end_matches (s p : bytes) : bytes :=
  match p with [] => s | _ => rev (trim_start_go (length s) (rev p) (rev s)) end.

(** split_at_checked: the offset is a byte offset on a character boundary *)
Definition is_boundary (s : bytes) (i : nat) : bool :=
  match skipn i s with
  | [] => Nat.leb i (length s)
  | b :: _ => negb ((128 <=? b) && (b <? 192))
  end.
Definition split_at_str (s : bytes) (at_ : Z) : option (bytes * bytes) :=
  if at_ <? 0 then None
  else let i := Z.to_nat at_ in
       if Nat.leb i (length s) && is_boundary s i then Some (firstn i s, skipn i s) else None.

(** char::is_whitespace (the White_Space property) *)
Definition is_ws (c : Z) : bool :=
  ((9 <=? c) && (c <=? 13)) || (c =? 32) || (c =? 133) || (c =? 160) || (c =? 5760)
  || ((8192 <=? c) && (c <=? 8202)) || (c =? 8232) || (c =? 8233) || (c =? 8239) || (c =? 8287) || (c =? 12288).

Fixpoint drop_ws (cs : list Z) : list Z :=
  match cs with c :: r => if is_ws c then drop_ws r else cs | [] => [] end.
Definition trim_start_ws (s : bytes) : option bytes := option_map (fun cs => utf8_encode (drop_ws cs)) (utf8_decode s).
Definition trim_end_ws (s : bytes) : option bytes :=
  option_map (fun cs => utf8_encode (rev (drop_ws (rev cs)))) (utf8_decode s).
Definition trim_ws (s : bytes) : option bytes :=
  option_map (fun cs => utf8_encode (rev (drop_ws (rev (drop_ws cs))))) (utf8_decode s).

(** split_whitespace: the maximal runs of non-whitespace characters *)
Fixpoint words (cs : list Z) (cur : list Z) (acc : list (list Z)) : list (list Z) :=
  match cs with
  | [] => rev (match cur with [] => acc | _ => rev cur :: acc end)
  | c :: r => if is_ws c then words r [] (match cur with [] => acc | _ => rev cur :: acc end)
              else words r (c :: cur) acc
  end.
Definition split_ws (s : bytes) : option (list bytes) :=
  option_map (fun cs => map utf8_encode (words cs [] [])) (utf8_decode s).
