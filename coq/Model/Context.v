(* Model/Context.v — CelContext and BindContext as the caller sees them
   (rscel/src/context/mod.rs, bind_context.rs): named programs and named
   values, insert-or-replace, clone, exec.  exec takes the stores as inputs
   and returns only a result: it cannot change them (the content of C11's
   "executing never changes ..." is in the tie with the implementation). *)
From Coq Require Import ZArith List Bool.
From Rscel Require Import Base.Prims Base.Text Model.Value Model.Funcs Model.Interp Model.Lexer Model.Compile.
Import ListNotations.
Open Scope Z_scope.

Record stored := mkStored { st_code : code; st_params : list bytes }.

Definition cel_ctx := list (bytes * stored).        (* CelContext.progs, canonical (sorted) *)
Definition bind_ctx := list (bytes * value).        (* BindContext.params, canonical (sorted) *)

(** the whole world of a history: numbered contexts and binding sets (clones get new numbers) *)
Record world := mkWorld { w_ctx : list (Z * cel_ctx); w_bind : list (Z * bind_ctx) }.

Fixpoint zassoc {A} (k : Z) (l : list (Z * A)) : option A :=
  match l with [] => None | (k', v) :: r => if k =? k' then Some v else zassoc k r end.
Fixpoint zset {A} (k : Z) (v : A) (l : list (Z * A)) : list (Z * A) :=
  match l with
  | [] => [(k, v)]
  | (k', v') :: r => if k =? k' then (k, v) :: r else (k', v') :: zset k v r
  end.

Inductive op :=
| OAddProgram (c : Z) (name : bytes) (src : chars)      (* add_program_str: add or replace *)
| OBind (b : Z) (name : bytes) (v : value)               (* bind_param: bind or rebind *)
| OCloneCtx (from to : Z)
| OCloneBind (from to : Z)
| OExec (c b : Z) (name : bytes)
| OParams (c : Z) (name : bytes).                        (* program_details(name).params() *)

Inductive out :=
| OutNone
| OutCompileError (l : loc)
| OutResult (r : res value)
| OutParams (ps : option (list bytes))
| OutUnmodelled.

Definition get_ctx (w : world) (c : Z) : cel_ctx := match zassoc c (w_ctx w) with Some x => x | None => [] end.
Definition get_bind (w : world) (b : Z) : bind_ctx := match zassoc b (w_bind w) with Some x => x | None => [] end.

Definition env_of (c : cel_ctx) (b : bind_ctx) : env :=
  mkEnv true b (map (fun kv => (fst kv, st_code (snd kv))) c) [] true (Some 0).

Definition step_op (fuel : nat) (w : world) (o : op) : world * out :=
  match o with
  | OAddProgram c name src =>
      match compile_checked fuel src with
      | COk p _ => (mkWorld (zset c (map_insert (get_ctx w c) name (mkStored (pr_code p) (pr_params p))) (w_ctx w)) (w_bind w), OutNone)
      | CSyntax l => (w, OutCompileError l)
      | _ => (w, OutUnmodelled)
      end
  | OBind b name v => (mkWorld (w_ctx w) (zset b (map_insert (get_bind w b) name v) (w_bind w)), OutNone)
  | OCloneCtx f t => (mkWorld (zset t (get_ctx w f) (w_ctx w)) (w_bind w), OutNone)
  | OCloneBind f t => (mkWorld (w_ctx w) (zset t (get_bind w f) (w_bind w)), OutNone)
  | OExec c b name => (w, OutResult (fst (exec fuel (env_of (get_ctx w c) (get_bind w b)) name)))
  | OParams c name => (w, OutParams (option_map st_params (map_get (get_ctx w c) name)))
  end.

Fixpoint run_ops (fuel : nat) (w : world) (ops : list op) : world * list out :=
  match ops with
  | [] => (w, [])
  | o :: r => let '(w1, x) := step_op fuel w o in
              let '(w2, xs) := run_ops fuel w1 r in (w2, x :: xs)
  end.

Definition empty_world : world := mkWorld [] [].
