(* Model/Funcs.v — the built-in functions and type constructors
   (rscel/src/context/default_funcs.rs, default_funcs/, type_funcs/).
   Functions whose result comes from an external crate or table that the
   model does not contain (regex, chrono-tz, duration_str, uom, libm, Unicode
   case tables, float formatting) answer [RUnmod] *after* the overload
   dispatch, so arity/type errors are still modelled for them. *)
From Coq Require Import ZArith List Bool.
From Coq Require Import Floats.SpecFloat.
From Rscel Require Import Base.Prims Base.F64 Base.Text Base.FloatText Base.FloatPrint Model.Strings Model.Time Model.TimeText Model.Value Model.Ops Model.Dispatch.
Import ListNotations.
Import Coq.Strings.String.StringSyntax.
Open Scope Z_scope.

Definition unmod : res value := RUnmod.
Definition verr (e : cel_error) : res value := ROk (VErr e).

(** One-argument overload on a typed value. *)
Definition arm1 (p : pat) (f : value -> res value) : arm :=
  mkArm None [p] (fun _ args => match args with a :: _ => f a | [] => bad end).
Definition arm_this (p : pat) (f : value -> res value) : arm :=
  mkArm (Some p) [] (fun this _ => f this).
Definition arm_this1 (p q : pat) (f : value -> value -> res value) : arm :=
  mkArm (Some p) [q] (fun this args => match args with a :: _ => f this a | [] => bad end).
Definition arm_this2 (p q r : pat) (f : value -> value -> value -> res value) : arm :=
  mkArm (Some p) [q; r] (fun this args => match args with a :: b :: _ => f this a b | _ => bad end).
Definition arm2 (p q : pat) (f : value -> value -> res value) : arm :=
  mkArm None [p; q] (fun _ args => match args with a :: b :: _ => f a b | _ => bad end).
Definition arm3 (p q r : pat) (f : value -> value -> value -> res value) : arm :=
  mkArm None [p; q; r] (fun _ args => match args with a :: b :: c :: _ => f a b c | _ => bad end).

(* ---- type constructors (type_funcs/*.rs) ---------------------------------- *)

Definition parse_bool_literal (s : bytes) : option bool :=
  if bytes_eqb s #"1" || bytes_eqb s #"t" || bytes_eqb s #"true" || bytes_eqb s #"TRUE" || bytes_eqb s #"True"
  then Some true
  else if bytes_eqb s #"0" || bytes_eqb s #"f" || bytes_eqb s #"false" || bytes_eqb s #"FALSE" || bytes_eqb s #"False"
  then Some false
  else None.

Definition bool_arms : list arm := [
  arm1 PBool (fun a => ok a);
  arm1 PString (fun a => match a with
                         | VString s => match parse_bool_literal s with
                                        | Some b => ok (VBool b)
                                        | None => ok (VBool (negb (zlen s =? 0)))
                                        end
                         | _ => bad end);
  arm1 PAny (fun a => ok (VBool (is_truthy a)))
].

Definition bytes_arms : list arm := [
  arm1 PString (fun a => match a with VString s => ok (VBytes s) | _ => bad end);
  arm1 PBytes (fun a => ok a)
].

Definition double_arms : list arm := [
  arm1 PDouble (fun a => ok a);
  arm1 PInt (fun a => match a with VInt z => ok (VFloat (f64_of_Z z)) | _ => bad end);
  arm1 PUInt (fun a => match a with VUInt z => ok (VFloat (f64_of_Z z)) | _ => bad end);
  arm1 PBool (fun a => match a with VBool b => ok (VFloat (if b then f64_one else f64_zero)) | _ => bad end);
  arm1 PString (fun a => match a with
                         | VString s => match rust_parse_f64 s with Some x => ok (VFloat x) | None => verr EValue end
                         | _ => bad end)
].

(** [Duration::new(secs, nanos)]: in range iff the total lies within +-i64::MAX ms. *)
Definition duration_new (secs nanos : Z) : res value :=
  if (0 <=? nanos) && (nanos <? 1000000000) && in_dur (secs * 1000000000 + nanos)
  then ok (VDur (secs * 1000000000 + nanos)) else verr EValue.

Definition duration_arms : list arm := [
  arm1 PString (fun _ => unmod);           (* duration_str *)
  arm1 PInt (fun a => match a with VInt s => duration_new s 0 | _ => bad end);
  arm1 PDur (fun a => ok a);
  arm2 PInt PInt (fun a b => match a, b with
                             | VInt s, VInt n => if in_u32 n then duration_new s n else verr EValue
                             | _, _ => bad end)
].

Definition dyn_arms : list arm := [ arm1 PAny (fun a => ok a) ].

Definition int_arms : list arm := [
  arm1 PInt (fun a => ok a);
  arm1 PUInt (fun a => match a with VUInt z => if z <=? i64_max then ok (VInt z) else verr EValue | _ => bad end);
  arm1 PDouble (fun a => match a with VFloat f => ok (VInt (f64_to_i64 f)) | _ => bad end);
  arm1 PBool (fun a => match a with VBool b => ok (VInt (b2z b)) | _ => bad end);
  arm1 PString (fun a => match a with
                         | VString s => match parse_i64 s with Some z => ok (VInt z) | None => verr EValue end
                         | _ => bad end);
  arm1 PTime (fun a => match a with VTime ns => ok (VInt (ns / 1000000000)) | _ => bad end)
].

Definition uint_arms : list arm := [
  arm1 PUInt (fun a => ok a);
  arm1 PInt (fun a => match a with VInt z => if 0 <=? z then ok (VUInt z) else verr EValue | _ => bad end);
  arm1 PDouble (fun a => match a with VFloat f => ok (VUInt (f64_to_u64 f)) | _ => bad end);
  arm1 PBool (fun a => match a with VBool b => ok (VUInt (b2z b)) | _ => bad end);
  arm1 PString (fun a => match a with
                         | VString s => match parse_u64 s with Some z => ok (VUInt z) | None => verr EValue end
                         | _ => bad end)
].

(** the seconds of a duration as the f64 that string() prints: nanoseconds / 1e9 while the
    nanosecond count fits an i64, else milliseconds / 1e3 *)
Definition dur_seconds_f64 (ns : Z) : f64 :=
  if in_i64 ns then f64_div (f64_of_Z ns) (f64_of_Z 1000000000)
  else f64_div (f64_of_Z (Z.quot ns 1000000)) (f64_of_Z 1000).

Definition string_arms : list arm := [
  arm1 PInt (fun a => match a with VInt z => ok (VString (dec_of_Z z)) | _ => bad end);
  arm1 PUInt (fun a => match a with VUInt z => ok (VString (dec_of_Z z)) | _ => bad end);
  arm1 PDouble (fun a => match a with
                         | VFloat f => match print_f64 f with Some t => ok (VString t) | None => unmod end
                         | _ => bad end);
  arm1 PString (fun a => ok a);
  arm1 PBytes (fun a => match a with
                        | VBytes b => if utf8_valid b then ok (VString b) else verr EValue
                        | _ => bad end);
  arm1 PTime (fun a => match a with VTime ns => ok (VString (rfc3339_of_ns ns)) | _ => bad end);
  arm1 PDur (fun a => match a with
                      | VDur ns => match print_f64 (dur_seconds_f64 ns) with
                                   | Some t => ok (VString (t ++ [115]))
                                   | None => unmod end
                      | _ => bad end);
  arm1 PAny (fun _ => verr EValue)
].

(** The clock is [None] while the compiler evaluates constants (utils/clock.rs). *)
Definition read_clock (now : option Z) : res value :=
  match now with Some t => ok (VTime t) | None => verr ERuntime end.

Definition timestamp_arms (now : option Z) : list arm := [
  mkArm None [] (fun _ _ => read_clock now);
  arm1 PString (fun _ => unmod);           (* chrono parsers *)
  arm1 PInt (fun a => match a with VInt s => ok (checked_time (s * 1000000000)) | _ => bad end);
  arm1 PUInt (fun a => match a with
                       | VUInt s => if s <=? i64_max then ok (checked_time (s * 1000000000)) else verr EValue
                       | _ => bad end);
  arm1 PTime (fun a => ok a)
].

Definition type_arms : list arm := [ arm1 PAny (fun a => ok (as_type a)) ].

(** [construct_type] *)
Definition construct_type (now : option Z) (tname : bytes) (args : list value) : res value :=
  if bytes_eqb tname #"bool" then dispatch bool_arms VNull args
  else if bytes_eqb tname #"int" then dispatch int_arms VNull args
  else if bytes_eqb tname #"uint" then dispatch uint_arms VNull args
  else if bytes_eqb tname #"float" then dispatch double_arms VNull args
  else if bytes_eqb tname #"double" then dispatch double_arms VNull args
  else if bytes_eqb tname #"bytes" then dispatch bytes_arms VNull args
  else if bytes_eqb tname #"string" then dispatch string_arms VNull args
  else if bytes_eqb tname #"type" then dispatch type_arms VNull args
  else if bytes_eqb tname #"timestamp" then dispatch (timestamp_arms now) VNull args
  else if bytes_eqb tname #"duration" then dispatch duration_arms VNull args
  else if bytes_eqb tname #"dyn" then dispatch dyn_arms VNull args
  else verr ERuntime.

(** [load_default_types]: identifier -> the Type value it resolves to. *)
Definition type_table : list (bytes * bytes) := [
  (#"bool", #"bool"); (#"int", #"int"); (#"uint", #"uint"); (#"float", #"float");
  (#"double", #"float"); (#"string", #"string"); (#"bytes", #"bytes"); (#"type", #"type");
  (#"timestamp", #"timestamp"); (#"duration", #"duration"); (#"null_type", #"null"); (#"dyn", #"dyn")
].

Fixpoint assoc {A} (k : bytes) (l : list (bytes * A)) : option A :=
  match l with
  | [] => None
  | (k', v) :: l' => if bytes_eqb k k' then Some v else assoc k l'
  end.

Definition get_type (name : bytes) : option value := option_map VType (assoc name type_table).

(* ---- default functions ---------------------------------------------------- *)

Definition str2 (f : bytes -> bytes -> res value) : value -> value -> res value :=
  fun a b => match a, b with VString x, VString y => f x y | _, _ => bad end.

Fixpoint is_suffix_fuel (fuel : nat) (p s : bytes) : bool :=
  match fuel with
  | O => false
  | S f => if Nat.eqb (length p) (length s) then bytes_eqb p s
           else match s with [] => false | _ :: s' => is_suffix_fuel f p s' end
  end.
Definition is_suffix (p s : bytes) : bool := is_suffix_fuel (S (length s)) p s.

Definition lower_ascii (s : bytes) : option bytes :=
  if is_ascii s then Some (map ascii_lower s) else None.
Definition upper_ascii (s : bytes) : option bytes :=
  if is_ascii s then Some (map ascii_upper s) else None.

Definition ci (f : bytes -> bytes -> bool) : value -> value -> res value :=
  str2 (fun x y => match lower_ascii x, lower_ascii y with
                   | Some lx, Some ly => ok (VBool (f lx ly))
                   | _, _ => unmod end).

(** [string_func!]: any argument is an Argument error, a non-string receiver a Value error. *)
Definition string_func (f : bytes -> res value) (this : value) (args : list value) : res value :=
  match args with
  | _ :: _ => verr EArgument
  | [] => match this with VString s => f s | _ => verr EValue end
  end.

(** min / max: first least / greatest under [lt] / [gt]. *)
Fixpoint pick (better : value -> value -> bool) (cur : value) (rest : list value) : value :=
  match rest with
  | [] => cur
  | v :: r => pick better (if better v cur then v else cur) r
  end.
Definition min_impl (args : list value) : res value :=
  match args with
  | [] => verr EArgument
  | v :: r => ok (pick (fun a b => is_true (lt a b)) v r)
  end.
Definition max_impl (args : list value) : res value :=
  match args with
  | [] => verr EArgument
  | v :: r => ok (pick (fun a b => is_true (gt a b)) v r)
  end.

(** zip *)
Definition all_lists (args : list value) : option (list (list value)) :=
  fold_right (fun a acc => match a, acc with VList l, Some ls => Some (l :: ls) | _, _ => None end)
             (Some []) args.
Fixpoint zip_rows (fuel : nat) (ls : list (list value)) : list value :=
  match fuel with
  | O => []
  | S f =>
      if forallb (fun l => match l with [] => false | _ => true end) ls then
        VList (map (fun l => match l with x :: _ => x | [] => VNull end) ls) ::
        zip_rows f (map (fun l => match l with _ :: t => t | [] => [] end) ls)
      else []
  end.
Definition zip_impl (args : list value) : res value :=
  match args with
  | [] => ok (VList [])
  | _ => match all_lists args with
         | Some ls => ok (VList (zip_rows (fold_right (fun l m => Nat.min (length l) m)
                                                      (match ls with l :: _ => length l | [] => O end) ls) ls))
         | None => verr EValue
         end
  end.

(** sort: error unless every element is ordered against the first; then a
    stable sort (insertion sort: for a total preorder the stable sorted
    permutation is unique, so any stable algorithm gives this list). *)
Definition ord_some (a b : value) : option comparison :=
  match ord a b with inl (Some c) => Some c | _ => None end.
(* stable: an element goes after every element that is not greater than it *)
Definition insert_stable (x : value) (l : list value) : list value :=
  (fix go (l : list value) :=
     match l with
     | [] => [x]
     | y :: l' => match ord_some x y with Some Lt => x :: l | _ => y :: go l' end
     end) l.
Definition sort_stable (l : list value) : list value :=
  fold_left (fun acc x => insert_stable x acc) l [].
Definition sort_impl (l : list value) : res value :=
  match l with
  | [] => ok (VList [])
  | first :: _ =>
      if forallb (fun v => match ord_some first v with Some _ => true | None => false end) l
      then ok (VList (sort_stable l)) else verr EValue
  end.

(** integer math *)
Fixpoint zpow_checked (fuel : nat) (inr : Z -> bool) (b e acc : Z) : option Z :=
  (* acc * b^e with every intermediate product range-checked; exact because
     |acc * b^k| is non-decreasing in k unless b is 0, 1 or -1 *)
  match fuel with
  | O => None
  | S f => if e <=? 0 then Some acc
           else let acc' := acc * b in if inr acc' then zpow_checked f inr b (e - 1) acc' else None
  end.
Definition int_pow (inr : Z -> bool) (b e : Z) : option Z :=
  if (e <? 0) || (u32_max <? e) then None
  else if b =? 0 then Some (if e =? 0 then 1 else 0)
  else if b =? 1 then Some 1
  else if b =? -1 then Some (if Z.even e then 1 else -1)
  else if 64 <? e then None
  else zpow_checked 70 inr b e 1.

Definition exp_of_double (f : f64) : option Z :=
  match f with
  | S754_zero _ => Some 0
  | S754_finite false _ _ =>
      match f64_trunc f with
      | Some z => if f64_eqb (f64_of_Z z) f && (z <=? u32_max) then Some z else None
      | None => None end
  | _ => None
  end.

Definition pow_int_res (mk : Z -> value) (inr : Z -> bool) (b : Z) (e : option Z) : res value :=
  match e with
  | Some e => match int_pow inr b e with Some r => ok (mk r) | None => verr EValue end
  | None => verr EValue
  end.

Definition ilog (base n : Z) : Z :=      (* floor(log_base n) for n >= 1 *)
  (fix go (fuel : nat) (p k : Z) :=
     match fuel with
     | O => k
     | S f => if p * base <=? n then go f (p * base) (k + 1) else k
     end) 70%nat 1 0.

Definition default_arms (now : option Z) (name : bytes) : option (list arm) :=
  if bytes_eqb name #"contains" then Some [arm_this1 PString PString (str2 (fun x y => ok (VBool (contains y x))))]
  else if bytes_eqb name #"containsI" then Some [arm_this1 PString PString (ci (fun x y => contains y x))]
  else if bytes_eqb name #"startsWith" then Some [arm_this1 PString PString (str2 (fun x y => ok (VBool (is_prefix y x))))]
  else if bytes_eqb name #"endsWith" then Some [arm_this1 PString PString (str2 (fun x y => ok (VBool (is_suffix y x))))]
  else if bytes_eqb name #"startsWithI" then Some [arm_this1 PString PString (ci (fun x y => is_prefix y x))]
  else if bytes_eqb name #"endsWithI" then Some [arm_this1 PString PString (ci (fun x y => is_suffix y x))]
  else if bytes_eqb name #"size" then Some [
    arm_this PString (fun a => match a with VString s => ok (VUInt (zlen s)) | _ => bad end);
    arm_this PBytes (fun a => match a with VBytes s => ok (VUInt (zlen s)) | _ => bad end);
    arm_this PList (fun a => match a with VList s => ok (VUInt (zlen s)) | _ => bad end);
    arm1 PString (fun a => match a with VString s => ok (VUInt (zlen s)) | _ => bad end);
    arm1 PBytes (fun a => match a with VBytes s => ok (VUInt (zlen s)) | _ => bad end);
    arm1 PList (fun a => match a with VList s => ok (VUInt (zlen s)) | _ => bad end)]
  else if bytes_eqb name #"sort" then Some [arm_this PList (fun a => match a with VList l => sort_impl l | _ => bad end)]
  else if bytes_eqb name #"matches" then Some [arm_this1 PString PString (fun _ _ => unmod)]
  else if bytes_eqb name #"matchCaptures" then Some [arm_this1 PString PString (fun _ _ => unmod)]
  else if bytes_eqb name #"matchReplaceOnce" then Some [arm_this2 PString PString PString (fun _ _ _ => unmod)]
  else if bytes_eqb name #"matchReplace" then Some [arm_this2 PString PString PString (fun _ _ _ => unmod)]
  else if bytes_eqb name #"remove" then Some [arm_this1 PString PString (str2 (fun s p =>
      match remove_str s p with Some r => ok (VString r) | None => unmod end))]
  else if bytes_eqb name #"replace" then Some [arm_this2 PString PString PString (fun a b c =>
      match a, b, c with
      | VString s, VString f, VString t => match replace_str s f t with Some r => ok (VString r) | None => unmod end
      | _, _, _ => bad end)]
  else if bytes_eqb name #"rsplit" then Some [arm_this1 PString PString (str2 (fun s p =>
      match rsplit_str s p with Some l => ok (VList (map VString l)) | None => unmod end))]
  else if bytes_eqb name #"split" then Some [arm_this1 PString PString (str2 (fun s p =>
      match split_str s p with Some l => ok (VList (map VString l)) | None => unmod end))]
  else if bytes_eqb name #"splitAt" then Some [arm_this1 PString PInt (fun a b =>
      match a, b with
      | VString s, VInt i => match split_at_str s i with
                             | Some (l, r) => ok (VList [VString l; VString r])
                             | None => verr EValue end
      | _, _ => bad end)]
  else if bytes_eqb name #"trimStartMatches" then Some [arm_this1 PString PString (str2 (fun s p => ok (VString (trim_start_matches s p))))]
  else if bytes_eqb name #"trimEndMatches" then Some [arm_this1 PString PString (str2 (fun s p => ok (VString (trim_end_matches s p))))]
  else if bytes_eqb name #"splitWhiteSpace" then Some [arm_this PString (fun a =>
      match a with VString s => match split_ws s with Some l => ok (VList (map VString l)) | None => unmod end | _ => bad end)]
  else if bytes_eqb name #"abs" then Some [
    arm1 PInt (fun a => match a with VInt z => if z =? i64_min then verr EValue else ok (VInt (Z.abs z)) | _ => bad end);
    arm1 PUInt (fun a => ok a);
    arm1 PDouble (fun a => match a with VFloat f => ok (VFloat (f64_abs f)) | _ => bad end)]
  else if bytes_eqb name #"sqrt" then Some [
    arm1 PInt (fun a => match a with VInt z => ok (VFloat (f64_sqrt (f64_of_Z z))) | _ => bad end);
    arm1 PUInt (fun a => match a with VUInt z => ok (VFloat (f64_sqrt (f64_of_Z z))) | _ => bad end);
    arm1 PDouble (fun a => match a with VFloat f => ok (VFloat (f64_sqrt f)) | _ => bad end)]
  else if bytes_eqb name #"pow" then Some [
    arm2 PInt PInt (fun a b => match a, b with VInt x, VInt y => pow_int_res VInt in_i64 x (Some y) | _, _ => bad end);
    arm2 PInt PUInt (fun a b => match a, b with VInt x, VUInt y => pow_int_res VInt in_i64 x (Some y) | _, _ => bad end);
    arm2 PInt PDouble (fun a b => match a, b with VInt x, VFloat y => pow_int_res VInt in_i64 x (exp_of_double y) | _, _ => bad end);
    arm2 PUInt PInt (fun a b => match a, b with VUInt x, VInt y => pow_int_res VUInt in_u64 x (Some y) | _, _ => bad end);
    arm2 PUInt PUInt (fun a b => match a, b with VUInt x, VUInt y => pow_int_res VUInt in_u64 x (Some y) | _, _ => bad end);
    arm2 PUInt PDouble (fun a b => match a, b with VUInt x, VFloat y => pow_int_res VUInt in_u64 x (exp_of_double y) | _, _ => bad end);
    arm2 PDouble PInt (fun _ _ => unmod);
    arm2 PDouble PUInt (fun _ _ => unmod);
    arm2 PDouble PDouble (fun _ _ => unmod)]
  else if bytes_eqb name #"log" then Some [
    arm1 PInt (fun a => match a with VInt z => if 0 <? z then ok (VInt (ilog 10 z)) else verr EValue | _ => bad end);
    arm1 PUInt (fun a => match a with VUInt z => if 0 <? z then ok (VUInt (ilog 10 z)) else verr EValue | _ => bad end);
    arm1 PDouble (fun _ => unmod)]
  else if bytes_eqb name #"lg" then Some [
    arm1 PInt (fun a => match a with VInt z => if 0 <? z then ok (VInt (Z.log2 z)) else verr EValue | _ => bad end);
    arm1 PUInt (fun a => match a with VUInt z => if 0 <? z then ok (VUInt (Z.log2 z)) else verr EValue | _ => bad end);
    arm1 PDouble (fun _ => unmod)]
  else if bytes_eqb name #"ceil" then Some [
    arm1 PInt (fun a => ok a); arm1 PUInt (fun a => ok a);
    arm1 PDouble (fun a => match a with VFloat f => ok (VInt (f64_round_to_i64 f64_ceil_Z f)) | _ => bad end)]
  else if bytes_eqb name #"floor" then Some [
    arm1 PInt (fun a => ok a); arm1 PUInt (fun a => ok a);
    arm1 PDouble (fun a => match a with VFloat f => ok (VInt (f64_round_to_i64 f64_floor_Z f)) | _ => bad end)]
  else if bytes_eqb name #"round" then Some [
    arm1 PInt (fun a => ok a); arm1 PUInt (fun a => ok a);
    arm1 PDouble (fun a => match a with VFloat f => ok (VInt (f64_round_to_i64 f64_round_Z f)) | _ => bad end)]
  else if bytes_eqb name #"uomConvert" then Some [
    arm3 PUInt PString PString (fun _ _ _ => unmod);
    arm3 PInt PString PString (fun _ _ _ => unmod);
    arm3 PDouble PString PString (fun _ _ _ => unmod)]
  else None.

(** Time accessors: two shapes, (timestamp[, zone]) and for four of them also (duration). *)
Definition time_accessors : list bytes := [
  #"getDate"; #"getDayOfMonth"; #"getDayOfWeek"; #"getDayOfYear"; #"getFullYear";
  #"getHours"; #"getMilliseconds"; #"getMinutes"; #"getMonth"; #"getSeconds" ].
Definition dur_accessors : list bytes := [ #"getHours"; #"getMilliseconds"; #"getMinutes"; #"getSeconds" ].
Definition mem_bytes (x : bytes) (l : list bytes) : bool := existsb (bytes_eqb x) l.

(** The non-dispatch functions (plain Rust fns). *)
Definition plain_funcs : list bytes := [
  #"toLower"; #"toUpper"; #"trim"; #"trimStart"; #"trimEnd"; #"min"; #"max"; #"now"; #"zip" ].

(** DEFAULT_FUNCS: every bound name. *)
Definition default_func_names : list bytes := [
  #"contains"; #"containsI"; #"size"; #"sort"; #"startsWith"; #"endsWith"; #"startsWithI"; #"endsWithI";
  #"matches"; #"matchCaptures"; #"matchReplaceOnce"; #"matchReplace"; #"toLower"; #"toUpper"; #"remove";
  #"replace"; #"rsplit"; #"split"; #"splitAt"; #"trim"; #"trimStart"; #"trimStartMatches"; #"trimEnd";
  #"trimEndMatches"; #"splitWhiteSpace"; #"abs"; #"sqrt"; #"pow"; #"log"; #"lg"; #"ceil"; #"floor"; #"round";
  #"min"; #"max"; #"getDate"; #"getDayOfMonth"; #"getDayOfWeek"; #"getDayOfYear"; #"getFullYear"; #"getHours";
  #"getMilliseconds"; #"getMinutes"; #"getMonth"; #"getSeconds"; #"now"; #"zip"; #"uomConvert" ].

Definition is_default_func (name : bytes) : bool := mem_bytes name default_func_names.

(** Extension point filled in by Model/Time.v-style refinements: the time
    accessors are [RUnmod] here after dispatch. *)
Definition time_arms (name : bytes) : list arm :=
  match taccess_of name with
  | None => []
  | Some a =>
      [arm_this PTime (fun t => match t with VTime ns => ok (VInt (time_field a false ns)) | _ => bad end);
       arm_this1 PTime PString (fun t z =>
         match t, z with
         | VTime ns, VString zone =>
             match fixed_offset_hours zone with
             | Some h => ok (VInt (time_field a true (ns + h * 3600 * 1000000000)))
             | None => unmod                         (* needs the time-zone database (or is an unknown zone) *)
             end
         | _, _ => bad end)] ++
      (match dur_field a 0 with
       | Some _ => [arm_this PDur (fun d => match d with VDur ns => match dur_field a ns with Some v => ok (VInt v) | None => bad end | _ => bad end)]
       | None => [] end)
  end.

Definition call_default (now : option Z) (name : bytes) (this : value) (args : list value) : option (res value) :=
  if negb (is_default_func name) then None
  else match default_arms now name with
  | Some arms => Some (dispatch arms this args)
  | None =>
    if mem_bytes name time_accessors then Some (dispatch (time_arms name) this args)
    else if bytes_eqb name #"toLower" then
      Some (string_func (fun s => match lower_ascii s with Some r => ok (VString r) | None => unmod end) this args)
    else if bytes_eqb name #"toUpper" then
      Some (string_func (fun s => match upper_ascii s with Some r => ok (VString r) | None => unmod end) this args)
    else if bytes_eqb name #"trim" then
      Some (string_func (fun s => match trim_ws s with Some r => ok (VString r) | None => unmod end) this args)
    else if bytes_eqb name #"trimStart" then
      Some (string_func (fun s => match trim_start_ws s with Some r => ok (VString r) | None => unmod end) this args)
    else if bytes_eqb name #"trimEnd" then
      Some (string_func (fun s => match trim_end_ws s with Some r => ok (VString r) | None => unmod end) this args)
    else if bytes_eqb name #"min" then Some (min_impl args)
    else if bytes_eqb name #"max" then Some (max_impl args)
    else if bytes_eqb name #"now" then Some (match args with [] => read_clock now | _ => verr EArgument end)
    else if bytes_eqb name #"zip" then Some (zip_impl args)
    else Some unmod
  end.
