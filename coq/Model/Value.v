(* Model/Value.v — CelValue, CelError, ByteCode (rscel/src/types/cel_value.rs,
   cel_error.rs, interp/types/bytecode.rs). *)
From Coq Require Import ZArith List Bool String Ascii.
From Coq Require Import Floats.SpecFloat.
From Rscel Require Import Base.Prims Base.F64.
Import ListNotations.
Open Scope Z_scope.

(** CelError: the ten variants; messages dropped, [Binding.symbol] and
    [Attribute.field] kept ([parent] is always "obj" for data values). *)
Inductive cel_error : Type :=
| EMisc
| ESyntax (line col : Z)
| EValue
| EArgument
| EInvalidOp
| ERuntime
| EBinding (sym : bytes)
| EAttribute (field : bytes)
| EDivZero
| EInternal.

(** Outcomes of a Rust computation returning [CelResult<A>]; [RPanic] is an
    unwind, [RFuel] is the model running out of fuel (never a Rust outcome). *)
Inductive res (A : Type) : Type :=
| ROk (a : A)
| RErr (e : cel_error)
| RPanic
| RFuel
| RUnmod.     (* the model does not cover this (external crate: regex, tz data, libm, ...) *)
Arguments ROk {A} _.
Arguments RErr {A} _.
Arguments RPanic {A}.
Arguments RFuel {A}.
Arguments RUnmod {A}.

Definition rbind {A B} (r : res A) (f : A -> res B) : res B :=
  match r with
  | ROk a => f a
  | RErr e => RErr e
  | RPanic => RPanic
  | RFuel => RFuel
  | RUnmod => RUnmod
  end.
Notation "'let*' x ':=' r 'in' k" := (rbind r (fun x => k))
  (at level 200, x pattern, r at level 100, k at level 200).

(** CelValue and ByteCode are mutually recursive ([Push(CelValue)],
    [CelValue::ByteCode(Vec<ByteCode>)]).  Timestamps and durations are total
    nanoseconds.  [Dyn], [Message], [Enum] are not modelled. *)
Inductive value : Type :=
| VInt (z : Z)
| VUInt (z : Z)
| VFloat (f : f64)
| VBool (b : bool)
| VString (s : bytes)
| VBytes (s : bytes)
| VList (l : list value)
| VMap (m : list (bytes * value))     (* keys unique, sorted by [bytes_cmp] *)
| VNull
| VIdent (s : bytes)
| VType (s : bytes)
| VTime (ns : Z)
| VDur (ns : Z)
| VCode (c : list instr)
| VErr (e : cel_error)
with instr : Type :=
| IPush (v : value)
| IPop | ITest | IDup | IOr | IAnd | INot | INeg
| IAdd | ISub | IMul | IDiv | IMod
| ILt | ILe | IEq | INe | IGe | IGt | IIn
| IJmp (d : Z)
| IJmpCond (w : bool) (d : Z)       (* w = true: JmpWhen::True *)
| IMkList (n : Z)
| IMkDict (n : Z)
| IIndex | IAccess
| ICall (n : Z)
| IFmt (n : Z).

Definition code := list instr.

Definition is_err (v : value) : bool := match v with VErr _ => true | _ => false end.
Definition is_null (v : value) : bool := match v with VNull => true | _ => false end.

(** Sorted association lists standing for [HashMap<String, CelValue>]. *)
Fixpoint map_get {A} (m : list (bytes * A)) (k : bytes) : option A :=
  match m with
  | [] => None
  | (k', v) :: m' => if bytes_eqb k k' then Some v else map_get m' k
  end.

(** Insert or replace, keeping the list sorted by key. *)
Fixpoint map_insert {A} (m : list (bytes * A)) (k : bytes) (v : A) : list (bytes * A) :=
  match m with
  | [] => [(k, v)]
  | (k', v') :: m' =>
      match bytes_cmp k k' with
      | Lt => (k, v) :: m
      | Eq => (k, v) :: m'
      | Gt => (k', v') :: map_insert m' k v
      end
  end.

Fixpoint map_remove {A} (m : list (bytes * A)) (k : bytes) : list (bytes * A) :=
  match m with
  | [] => []
  | (k', v') :: m' => if bytes_eqb k k' then m' else (k', v') :: map_remove m' k
  end.

Definition map_keys {A} (m : list (bytes * A)) : list bytes := map fst m.

(** ASCII helper for the fixed names in the source. *)
Definition bytes_of_string (s : String.string) : bytes :=
  map (fun a => Z.of_nat (Ascii.nat_of_ascii a)) (String.list_ascii_of_string s).
Notation "'#' s" := (bytes_of_string s%string) (at level 1, format "# s").

(** [as_type]: the type names of cel_value.rs. *)
Definition type_name (v : value) : bytes :=
  match v with
  | VInt _ => #"int" | VUInt _ => #"uint" | VFloat _ => #"float" | VBool _ => #"bool"
  | VString _ => #"string" | VBytes _ => #"bytes" | VList _ => #"list" | VMap _ => #"map"
  | VNull => #"null" | VIdent _ => #"ident" | VType _ => #"type"
  | VTime _ => #"timestamp" | VDur _ => #"duration" | VCode _ => #"bytecode"
  | VErr _ => #"err"
  end.
Definition as_type (v : value) : value := VType (type_name v).
