(* Model/Json.v — serde_json::Value -> CelValue (rscel/src/types/cel_value.rs
   `impl From<Value> for CelValue`) as used by
   BindContext::bind_params_from_json_obj.  serde_json's Number is PosInt(u64)
   | NegInt(i64) | Float(f64, finite); as_i64 is tried before as_u64 before
   as_f64.  Objects have unique keys. *)
From Coq Require Import ZArith List Bool.
From Coq Require Import Floats.SpecFloat.
From Rscel Require Import Base.Prims Base.F64 Model.Value.
Import ListNotations.
Open Scope Z_scope.

Definition f64_is_finite (x : f64) : bool :=
  match x with S754_zero _ | S754_finite _ _ _ => true | _ => false end.

Inductive jnum := JPos (n : Z) | JNeg (n : Z) | JFloat (f : f64).
Inductive json :=
| JNull | JBool (b : bool) | JNum (n : jnum) | JStr (s : bytes)
| JArr (l : list json) | JObj (m : list (bytes * json)).

Fixpoint value_of_json (j : json) : value :=
  match j with
  | JNull => VNull
  | JBool b => VBool b
  | JNum (JPos n) => if n <=? 9223372036854775807 then VInt n else VUInt n
  | JNum (JNeg n) => VInt n
  | JNum (JFloat f) => VFloat f
  | JStr s => VString s
  | JArr l => VList (map value_of_json l)
  | JObj m => VMap ((fix go (m : list (bytes * json)) : list (bytes * value) :=
                       match m with [] => [] | (k, x) :: r => map_insert (go r) k (value_of_json x) end) m)
  end.

(** the JSON document a caller would write for a value (None: not expressible) *)
Fixpoint json_of_value (v : value) : option json :=
  match v with
  | VNull => Some JNull
  | VBool b => Some (JBool b)
  | VInt z => Some (JNum (if z <? 0 then JNeg z else JPos z))
  | VUInt z => Some (JNum (JPos z))
  | VFloat f => if f64_is_finite f then Some (JNum (JFloat f)) else None
  | VString s => Some (JStr s)
  | VList l =>
      option_map JArr
        ((fix go (l : list value) : option (list json) :=
            match l with
            | [] => Some []
            | x :: r => match json_of_value x, go r with Some j, Some js => Some (j :: js) | _, _ => None end
            end) l)
  | VMap m =>
      option_map JObj
        ((fix go (m : list (bytes * value)) : option (list (bytes * json)) :=
            match m with
            | [] => Some []
            | (k, x) :: r => match json_of_value x, go r with Some j, Some js => Some ((k, j) :: js) | _, _ => None end
            end) m)
  | _ => None
  end.

(** what comes back: unsigned integers that fit a signed one arrive signed *)
Fixpoint canon (v : value) : value :=
  match v with
  | VUInt z => if z <=? 9223372036854775807 then VInt z else VUInt z
  | VList l => VList (map canon l)
  | VMap m => VMap (map (fun kv => (fst kv, canon (snd kv))) m)
  | v => v
  end.
