(* Model/Interp.v — the stack VM (rscel/src/interp/interp.rs), the macros
   (rscel/src/context/default_macros/*.rs) and name resolution against the
   bindings and the program context (context/mod.rs, bind_context.rs).

   Factoring: [step] executes one instruction on (stack, log) and is
   independent of the code and the program counter; [loop] owns the pc and
   [checked_jump_target]; [run] is [Interpreter::run_raw].  Nested runs (call
   arguments, program references, macro bodies) go through the [rs] parameter,
   which [run] instantiates with itself one fuel unit lower. *)
From Coq Require Import ZArith List Bool.
From Rscel Require Import Base.Prims Base.F64 Base.Text Model.Value Model.Ops Model.Dispatch Model.Funcs.
Import ListNotations.
Import Coq.Strings.String.StringSyntax.
Open Scope Z_scope.

(** CelStackValue *)
Inductive sval :=
| SVal (v : value)
| SBound (is_macro : bool) (name : bytes) (this : value).   (* BoundCall *)
Definition stack := list sval.

(** Functions bound by the caller (bind_func).  The real ones are arbitrary
    Rust closures; the model covers a small family, enough to observe
    evaluation order through the call log. *)
Inductive ufun :=
| UFConst (v : value)     (* returns v *)
| UFArg0                  (* returns its first argument, Null without one *)
| UFThis                  (* returns its receiver *)
| UFArgs.                 (* returns the list of its arguments *)

Definition ufun_apply (u : ufun) (this : value) (args : list value) : value :=
  match u with
  | UFConst v => v
  | UFArg0 => match args with a :: _ => a | [] => VNull end
  | UFThis => this
  | UFArgs => VList args
  end.

Record env := mkEnv {
  e_bound : bool;                          (* false: Interpreter::empty() (no bindings at all) *)
  e_params : list (bytes * value);         (* BindContext.params *)
  e_progs : list (bytes * code);           (* CelContext.progs (bytecode of each) *)
  e_ufuncs : list (bytes * ufun);          (* caller-bound functions *)
  e_runtime : bool;                        (* true: BindContext::new(); false: for_compile() *)
  e_now : option Z                         (* the clock; None while compiling *)
}.

Definition empty_env : env := mkEnv false [] [] [] false None.

Definition logent := (bytes * value * list value)%type.
Definition log := list logent.             (* caller-bound function calls, most recent first *)

Definition compile_macros : list bytes :=
  [ #"all"; #"exists"; #"exists_one"; #"filter"; #"map"; #"reduce" ].
Definition runtime_macros : list bytes := [ #"has"; #"coalesce" ].

Definition has_func (E : env) (name : bytes) : bool :=
  e_bound E && ((match assoc name (e_ufuncs E) with Some _ => true | None => false end) || is_default_func name).
Definition has_macro (E : env) (name : bytes) : bool :=
  e_bound E && (mem_bytes name compile_macros || (e_runtime E && mem_bytes name runtime_macros)).
(** nesting of lists and maps: the longest chain of containers inside one another *)
Fixpoint container_depth (v : value) : nat :=
  match v with
  | VList l => S ((fix go (l : list value) : nat := match l with [] => O | x :: r => Nat.max (container_depth x) (go r) end) l)
  | VMap m => S ((fix go (m : list (bytes * value)) : nat :=
                    match m with [] => O | (_, x) :: r => Nat.max (container_depth x) (go r) end) m)
  | _ => O
  end.
Definition max_accumulator_nesting : nat := 1000.
Definition nested_too_deep (v : value) : bool := Nat.ltb max_accumulator_nesting (container_depth v).

(** the compiler is evaluating a constant sub-expression (the clock is withheld) *)
Definition folding (E : env) : bool := match e_now E with None => true | Some _ => false end.
Definition env_type (E : env) (name : bytes) : option value :=
  if e_bound E then get_type name else None.
Definition env_param (E : env) (name : bytes) : option value :=
  if e_bound E then map_get (e_params E) name else None.

(** A computation that threads the call log (calls made before a failure stay logged). *)
Definition M (A : Type) := log -> res A * log.
Definition mret {A} (a : A) : M A := fun lg => (ROk a, lg).
Definition mfail {A} (e : cel_error) : M A := fun lg => (RErr e, lg).
Definition mbind {A B} (m : M A) (f : A -> M B) : M B :=
  fun lg => match m lg with
            | (ROk a, lg') => f a lg'
            | (RErr e, lg') => (RErr e, lg')
            | (RPanic, lg') => (RPanic, lg')
            | (RFuel, lg') => (RFuel, lg')
            | (RUnmod, lg') => (RUnmod, lg')
            end.
Definition mlift {A} (r : res A) : M A := fun lg => (r, lg).
Definition mcast {A B} (r : res A) : res B :=      (* for the non-Ok outcomes *)
  match r with ROk _ => RErr EInternal | RErr e => RErr e | RPanic => RPanic | RFuel => RFuel | RUnmod => RUnmod end.
Notation "'do' x '<-' m ';' k" := (mbind m (fun x => k))
  (at level 200, x pattern, m at level 100, k at level 200).

(** [run_raw] seen from inside: environment, code, resolve flag, current depth count. *)
Definition runner := env -> code -> bool -> nat -> M value.

(** utils/clock.rs: while the compiler folds constants, the guard it holds refuses the clock (an
    ordinary error value) and names that are not bound yet (the evaluation ends), and REMEMBERS that
    such a run-time input was asked for, so that check_for_const can refuse to freeze whatever is
    computed afterwards: a macro turns a failed body into an error value and a match arm skips a
    failing pattern, so the value alone does not tell.  The memory is a mark in the call log (no
    bound function can be called "<runtime>").  The clock is asked for by now() without arguments
    and by the zero-parameter overload of timestamp(), which the null padding of the dispatcher
    also selects for timestamp(null). *)
Definition runtime_mark : logent := (#"<runtime>", VNull, []).
Definition is_runtime_mark (e : logent) : bool := bytes_eqb (fst (fst e)) #"<runtime>".
Definition runtime_requested (lg : log) : bool := existsb is_runtime_mark lg.
Definition asks_clock_fn (name : bytes) (args : list value) : bool :=
  bytes_eqb name #"now" && match args with [] => true | _ => false end.
Definition asks_clock_ty (tn : bytes) (args : list value) : bool :=
  bytes_eqb tn #"timestamp" && match args with [] | [VNull] => true | _ => false end.
Definition note_clock (E : env) (asked : bool) : M unit :=
  fun lg => (ROk tt, if folding E && asked then runtime_mark :: lg else lg).
(** the evaluation ends because a name is not bound while folding: remembered too *)
Definition mfail_runtime {A} (e : cel_error) : M A := fun lg => (RErr e, runtime_mark :: lg).

Section Step.
  Variable rs : runner.
  Variable E : env.
  Variable dcur : nat.      (* ScopedCounter value while this run_raw is active *)

  (** [InterpStack::pop]: identifiers resolve to a type, a bound variable, a
      stored program (run under the same bindings), or a Binding error value. *)
  Definition resolve_ident (name : bytes) : M value :=
    match env_type E name with
    | Some t => mret t
    | None =>
      match env_param E name with
      | Some v => mret v
      | None =>
        match assoc name (e_progs E) with
        | Some c => rs E c true dcur
        | None =>
            (* while the compiler folds constants (no clock) an unbound name ends the evaluation *)
            match e_now E with
            | None => mfail_runtime (EBinding name)
            | Some _ => mret (VErr (EBinding name))
            end
        end
      end
    end.

  Definition pop (st : stack) : M (sval * stack) :=
    match st with
    | [] => mfail ERuntime
    | SVal (VIdent name) :: st' => do v <- resolve_ident name; mret (SVal v, st')
    | x :: st' => mret (x, st')
    end.

  Definition into_value (x : sval) : M value :=
    match x with SVal v => mret v | SBound _ _ _ => mfail EInternal end.

  Definition pop_val (st : stack) : M (value * stack) :=
    do xs <- pop st; let '(x, st') := xs in do v <- into_value x; mret (v, st').

  Definition pop_noresolve (st : stack) : M (sval * stack) :=
    match st with [] => mfail ERuntime | x :: st' => mret (x, st') end.

  Fixpoint pop_n (n : nat) (st : stack) : M (list value * stack) :=
    match n with
    | O => mret ([], st)
    | S n' => do vs <- pop_val st; let '(v, st1) := vs in
              do r <- pop_n n' st1; let '(vs', st2) := r in mret (v :: vs', st2)
    end.

  (** [resolve_args]: ByteCode arguments are evaluated (a failure is a hard error). *)
  Fixpoint resolve_args (args : list value) : M (list value) :=
    match args with
    | [] => mret []
    | VCode c :: r => do v <- rs E c true dcur; do vs <- resolve_args r; mret (v :: vs)
    | a :: r => do vs <- resolve_args r; mret (a :: vs)
    end.

  Definition call_func (name : bytes) (this : value) (args : list value) : M value :=
    match assoc name (e_ufuncs E) with
    | Some u => fun lg => (ROk (ufun_apply u this args), (name, this, args) :: lg)
    | None =>
      do _ <- note_clock E (asks_clock_fn name args);
      match call_default (e_now E) name this args with
      | Some r => mlift r
      | None => mfail EInternal
      end
    end.

  (* ---- macros ---------------------------------------------------------- *)

  (** [eval_ident]: the argument is run on an empty interpreter without
      resolution and must yield an identifier.  The empty interpreter has no bindings at all; whether
      it refuses run-time inputs the hard way depends on whether the compiler is folding (a flag of
      the thread in the implementation), which is what the clock field records. *)
  Definition ident_env : env := mkEnv false [] [] [] false (e_now E).
  Definition eval_ident (c : code) : M (value + bytes) :=
    fun lg => match rs ident_env c false O lg with
              | (ROk (VIdent s), lg') => (ROk (inr s), lg')
              | (ROk _, lg') => (ROk (inl (VErr EMisc)), lg')
              | (RErr e, lg') => (ROk (inl (VErr e)), lg')
              | (r, lg') => (mcast r, lg')
              end.

  Definition bind_param (E0 : env) (k : bytes) (v : value) : env :=
    mkEnv (e_bound E0) (map_insert (e_params E0) k v) (e_progs E0) (e_ufuncs E0) (e_runtime E0) (e_now E0).

  (** a body evaluation; [inl] = the macro's early result (an error value) *)
  Definition run_body (E' : env) (c : code) : M (value + value) :=
    fun lg => match rs E' c true dcur lg with
              | (ROk v, lg') => (ROk (inr v), lg')
              | (RErr e, lg') => (ROk (inl (VErr e)), lg')
              | (r, lg') => (mcast r, lg')
              end.

  Fixpoint all_loop (x : bytes) (body : code) (l : list value) : M value :=
    match l with
    | [] => mret (VBool true)
    | v :: l' => do r <- run_body (bind_param E x v) body;
                 match r with
                 | inl e => mret e
                 | inr b => if is_truthy b then all_loop x body l' else mret (VBool false)
                 end
    end.

  Fixpoint exists_loop (x : bytes) (body : code) (l : list value) : M value :=
    match l with
    | [] => mret (VBool false)
    | v :: l' => do r <- run_body (bind_param E x v) body;
                 match r with
                 | inl e => mret e
                 | inr b => if is_truthy b then mret (VBool true) else exists_loop x body l'
                 end
    end.

  Fixpoint exists_one_loop (x : bytes) (body : code) (l : list value) (count : Z) : M value :=
    match l with
    | [] => mret (VBool (count =? 1))
    | v :: l' => do r <- run_body (bind_param E x v) body;
                 match r with
                 | inl e => mret e
                 | inr b => if is_truthy b
                            then (if 1 <? count + 1 then mret (VBool false)
                                  else exists_one_loop x body l' (count + 1))
                            else exists_one_loop x body l' count
                 end
    end.

  Fixpoint filter_loop (x : bytes) (body : code) (l : list value) (acc : list value) : M value :=
    match l with
    | [] => mret (VList (rev acc))
    | v :: l' => do r <- run_body (bind_param E x v) body;
                 match r with
                 | inl e => mret e
                 | inr b => filter_loop x body l' (if is_truthy b then v :: acc else acc)
                 end
    end.

  Fixpoint map_loop (x : bytes) (pred : option code) (f : code) (l : list value) (acc : list value) : M value :=
    match l with
    | [] => mret (VList (rev acc))
    | v :: l' =>
        let E' := bind_param E x v in
        match pred with
        | None => do r <- run_body E' f;
                  match r with inl e => mret e | inr y => map_loop x pred f l' (y :: acc) end
        | Some p => do r <- run_body E' p;
                    match r with
                    | inl e => mret e
                    | inr b => if is_truthy b
                               then do r2 <- run_body E' f;
                                    match r2 with inl e => mret e | inr y => map_loop x pred f l' (y :: acc) end
                               else map_loop x pred f l' acc
                    end
        end
    end.

  (** reduce refuses an accumulator nested more than 1000 levels deep (MAX_ACCUMULATOR_NESTING) *)
  Fixpoint reduce_loop (cur next : bytes) (body : code) (l : list value) (acc : value) : M value :=
    match l with
    | [] => mret acc
    | v :: l' => do r <- run_body (bind_param (bind_param E next v) cur acc) body;
                 match r with
                 | inl e => mret e
                 | inr a => if nested_too_deep a then mret (VErr EValue) else reduce_loop cur next body l' a
                 end
    end.

  Fixpoint coalesce_loop (args : list code) : M value :=
    match args with
    | [] => mret VNull
    | c :: r => fun lg =>
        match rs E c true dcur lg with
        | (ROk VNull, lg') => coalesce_loop r lg'
        | (ROk v, lg') => (ROk v, lg')
        | (RErr (EBinding _), lg') | (RErr (EAttribute _), lg') => coalesce_loop r lg'
        | (RErr e, lg') => (ROk (VErr e), lg')
        | (x, lg') => (mcast x, lg')
        end
    end.

  Definition with_ident (c : code) (k : bytes -> M value) : M value :=
    do r <- eval_ident c; match r with inl e => mret e | inr x => k x end.

  Definition map_keys_as_values (m : list (bytes * value)) : list value := map (fun kv => VString (fst kv)) m.

  Definition call_macro_impl (name : bytes) (this : value) (args : list code) : M value :=
    if bytes_eqb name #"has" then
      match args with
      | [c] => fun lg => match rs E c true dcur lg with
                         | (ROk _, lg') => (ROk (VBool true), lg')
                         | (RErr (EBinding _), lg') | (RErr (EAttribute _), lg') => (ROk (VBool false), lg')
                         | (RErr e, lg') => (ROk (VErr e), lg')
                         | (x, lg') => (mcast x, lg')
                         end
      | _ => mret (VErr EArgument)
      end
    else if bytes_eqb name #"coalesce" then coalesce_loop args
    else if bytes_eqb name #"all" then
      match args with
      | [a0; a1] => with_ident a0 (fun x =>
          match this with VList l => all_loop x a1 l | _ => mret (VErr EValue) end)
      | _ => mret (VErr EArgument)
      end
    else if bytes_eqb name #"exists" then
      match args with
      | [a0; a1] => with_ident a0 (fun x =>
          match this with VList l => exists_loop x a1 l | _ => mret (VErr EValue) end)
      | _ => mret (VErr EArgument)
      end
    else if bytes_eqb name #"exists_one" then
      match args with
      | [a0; a1] => with_ident a0 (fun x =>
          match this with VList l => exists_one_loop x a1 l 0 | _ => mret (VErr EValue) end)
      | _ => mret (VErr EArgument)
      end
    else if bytes_eqb name #"filter" then
      match args with
      | [a0; a1] => with_ident a0 (fun x =>
          match this with
          | VList l => filter_loop x a1 l []
          | VMap m => filter_loop x a1 (map_keys_as_values m) []
          | _ => mret (VErr EValue)
          end)
      | _ => mret (VErr EArgument)
      end
    else if bytes_eqb name #"map" then
      match args with
      | [a0; a1] => with_ident a0 (fun x =>
          match this with
          | VList l => map_loop x None a1 l []
          | VMap m => map_loop x None a1 (map_keys_as_values m) []
          | _ => mret (VErr EValue)
          end)
      | [a0; a1; a2] => with_ident a0 (fun x =>
          match this with
          | VList l => map_loop x (Some a1) a2 l []
          | VMap m => map_loop x (Some a1) a2 (map_keys_as_values m) []
          | _ => mret (VErr EValue)
          end)
      | _ => mret (VErr EArgument)
      end
    else if bytes_eqb name #"reduce" then
      match args with
      | [a0; a1; a2; a3] =>
          with_ident a0 (fun cur => with_ident a1 (fun next =>
            do r <- run_body E a3;
            match r with
            | inl e => mret e
            | inr seed =>
                match this with
                | VList l => reduce_loop cur next a2 l seed
                | _ => mret (VErr EValue)
                end
            end))
      | _ => mret (VErr EArgument)
      end
    else mfail EInternal.

  (** [call_macro]: every argument must be bytecode. *)
  Definition all_code (args : list value) : option (list code) :=
    fold_right (fun a acc => match a, acc with VCode c, Some cs => Some (c :: cs) | _, _ => None end)
               (Some []) args.

  Definition call_macro (name : bytes) (this : value) (args : list value) : M value :=
    match all_code args with
    | Some cs => call_macro_impl name this cs
    | None => mfail EInternal
    end.

  (* ---- one instruction --------------------------------------------------- *)

  Definition push (v : value) (st : stack) : stack := SVal v :: st.

  Definition bin (f : value -> value -> value) (st : stack) : M (option Z * stack) :=
    do r2 <- pop_val st; let '(v2, st1) := r2 in
    do r1 <- pop_val st1; let '(v1, st2) := r1 in
    mret (None, push (f v1 v2) st2).

  Definition un (f : value -> value) (st : stack) : M (option Z * stack) :=
    do r1 <- pop_val st; let '(v1, st1) := r1 in mret (None, push (f v1) st1).

  Definition step (i : instr) (st : stack) : M (option Z * stack) :=
    match i with
    | IPush v => mret (None, push v st)
    | IPop => do r <- pop_val st; mret (None, snd r)
    | ITest =>
        do r <- pop_val st; let '(v, st1) := r in
        if is_err v then mret (None, push v st1) else mret (None, push (VBool (is_truthy v)) st1)
    | IDup => do r <- pop_val st; let '(v, st1) := r in mret (None, push v (push v st1))
    | IOr => bin or_ st
    | IAnd => bin and_ st
    | INot => un not_ st
    | INeg => un neg st
    | IAdd => bin add st
    | ISub => bin sub st
    | IMul => bin mul st
    | IDiv => bin div st
    | IMod => bin rem st
    | ILt => bin lt st
    | ILe => bin le st
    | IEq => bin eq_ st
    | INe => bin neq st
    | IGe => bin ge st
    | IGt => bin gt st
    | IIn => bin in_ st
    | IIndex => bin index st
    | IJmp d => mret (Some d, st)
    | IJmpCond w d =>
        do r <- pop_val st; let '(v, st1) := r in
        match v with
        | VBool b => mret (if Bool.eqb b w then Some d else None, st1)
        | VErr _ => mret (if w then None else Some d, st1)
        | _ => mfail EInvalidOp
        end
    | IMkList n =>
        do r <- pop_n (Z.to_nat n) st; let '(vs, st1) := r in
        mret (None, push (VList (rev vs)) st1)
    | IMkDict n =>
        (* every entry is taken off the stack; a key that is not a string makes the literal an error value *)
        (fix go (k : nat) (st : stack) (acc : list (bytes * value)) (bad : bool) : M (option Z * stack) :=
           match k with
           | O => if bad then mret (None, push (VErr EValue) st)
                  else mret (None, push (VMap (fold_left (fun m kv => map_insert m (fst kv) (snd kv)) acc [])) st)
           | S k' =>
               do rk <- pop_val st; let '(key, st1) := rk in
               do rv <- pop_val st1; let '(v, st2) := rv in
               match key with
               | VString s => go k' st2 ((s, v) :: acc) bad
               | _ => go k' st2 acc true
               end
           end) (Z.to_nat n) st [] false
    | IAccess =>
        do ri <- pop_noresolve st; let '(idx, st1) := ri in
        match idx with
        | SBound _ _ _ => mfail EInternal
        | SVal (VIdent ident) =>
            do ro <- pop_val st1; let '(obj, st2) := ro in
            match obj with
            | VMap m =>
                match map_get m ident with
                | Some v => mret (None, push v st2)
                | None =>
                    if has_func E ident then mret (None, SBound false ident obj :: st2)
                    else if has_macro E ident then mret (None, SBound true ident obj :: st2)
                    else if folding E then mfail_runtime (EAttribute ident)
                    else mret (None, push (VErr (EAttribute ident)) st2)
                end
            | VErr _ => mret (None, push obj st2)
            | _ =>
                if negb (e_bound E) then mfail ERuntime
                else if has_func E ident then mret (None, SBound false ident obj :: st2)
                else if has_macro E ident then mret (None, SBound true ident obj :: st2)
                else if folding E then mfail_runtime (EAttribute ident)
                else mret (None, push (VErr (EAttribute ident)) st2)
            end
        | SVal _ =>
            do ro <- pop_val st1; mret (None, push (VErr EValue) (snd ro))
        end
    | ICall n =>
        do rc <- pop_noresolve st; let '(callee, st1) := rc in
        do ra <- pop_n (Z.to_nat n) st1; let '(args, st2) := ra in
        match callee with
        | SBound false name this =>
            do vals <- resolve_args args; do r <- call_func name this vals; mret (None, push r st2)
        | SBound true name this =>
            do r <- call_macro name this args; mret (None, push r st2)
        | SVal (VIdent name) =>
            if has_func E name then
              do vals <- resolve_args args; do r <- call_func name VNull vals; mret (None, push r st2)
            else if has_macro E name then
              do r <- call_macro name VNull args; mret (None, push r st2)
            else match env_type E name with
                 | Some (VType tn) =>
                     do vals <- resolve_args args;
                     do _ <- note_clock E (asks_clock_ty tn vals);
                     do r <- mlift (construct_type (e_now E) tn vals); mret (None, push r st2)
                 | _ => if folding E then mfail_runtime ERuntime else mret (None, push (VErr ERuntime) st2)
                 end
        | SVal (VType tn) =>
            do vals <- resolve_args args;
            do _ <- note_clock E (asks_clock_ty tn vals);
            do r <- mlift (construct_type (e_now E) tn vals); mret (None, push r st2)
        | SVal (VErr e) => mret (None, push (VErr e) st2)
        | SVal _ => mret (None, push (VErr ERuntime) st2)
        end
    | IFmt n =>
        do r <- pop_n (Z.to_nat n) st; let '(segs, st1) := r in
        (fix cat (l : list value) (acc : bytes) : M (option Z * stack) :=
           match l with
           | [] => mret (None, push (VString acc) st1)
           | VString s :: l' => cat l' (acc ++ s)
           | _ => mfail ERuntime
           end) (rev segs) []
    end.
End Step.

(** [checked_jump_target] *)
Definition jump_target (pc : nat) (dist : Z) (len : nat) : option nat :=
  let t := Z.of_nat pc + dist in
  if (t <? 0) || (Z.of_nat len <? t) then None else Some (Z.to_nat t).

Fixpoint loop (rs : runner) (fuel : nat) (E : env) (dcur : nat) (c : code) (pc : nat) (st : stack)
  : M stack :=
  match fuel with
  | O => fun lg => (RFuel, lg)
  | S f =>
      match nth_error c pc with
      | None => mret st
      | Some i =>
          do r <- step rs E dcur i st; let '(j, st') := r in
          match j with
          | None => loop rs f E dcur c (S pc) st'
          | Some d =>
              match jump_target (S pc) d (length c) with
              | Some pc' => loop rs f E dcur c pc' st'
              | None => mfail ERuntime
              end
          end
      end
  end.

Definition into_result (v : value) : M value :=
  match v with VErr e => mfail e | _ => mret v end.

(** The value left on the stack when the code ends. *)
Definition finish (rs : runner) (E : env) (dcur : nat) (resolve : bool) (st : stack) : M value :=
  if resolve then
    do r <- pop rs E dcur st; do v <- into_value (fst r); into_result v
  else
    match st with
    | [] => mfail ERuntime
    | SBound _ _ _ :: _ => mfail EInternal
    | SVal (VIdent name) :: _ =>
        match env_param E name with Some v => into_result v | None => mret (VIdent name) end
    | SVal v :: _ => into_result v
    end.

(** [Interpreter::run_raw]; [d] is the depth count on entry.  The fuel bounds
    instructions executed in this activation and, through [rs], nesting. *)
Fixpoint run (fuel : nat) (E : env) (c : code) (resolve : bool) (d : nat) : M value :=
  match fuel with
  | O => fun lg => (RFuel, lg)
  | S f =>
      if Nat.ltb 32 (S d) then mfail ERuntime
      else do st <- loop (run f) f E (S d) c O [];
           finish (run f) E (S d) resolve st
  end.

(** [CelContext::exec]: run the named program of the context. *)
(** what a caller can see of the log: the calls of its own functions.  The compiler's memory marks are
    not calls (at run time none is left: the macros' interpreter for their identifier arguments inherits
    the folding state, see [ident_env]). *)
Definition visible_log (lg : log) : log := filter (fun e => negb (is_runtime_mark e)) lg.

Definition exec (fuel : nat) (E : env) (name : bytes) : res value * log :=
  match assoc name (e_progs E) with
  | Some c => let '(r, lg) := run fuel E c true O [] in (r, visible_log lg)
  | None => (RErr (EBinding name), [])
  end.
