(* Model/Compile.v — the code-generation half of rscel/src/compiler/compiler.rs
   together with compiled_prog.rs (CompiledProg, NodeValue, the compile!
   macro: constant folding), compiled_prog/preresolved.rs (labels, resolve)
   and program_details.rs (reported parameters).  A function of the tree that
   Model/Parser.v builds. *)
From Coq Require Import ZArith List Bool.
From Rscel Require Import Base.Prims Base.F64 Base.Text Model.Value Model.Ops Model.Funcs Model.Interp
     Model.Lexer Model.Ast Model.Parser.
Import ListNotations.
Import Coq.Strings.String.StringSyntax.
Open Scope Z_scope.

(** PreResolvedCodePoint *)
Inductive pcp :=
| PBc (i : instr)
| PJmp (label : nat)
| PJmpCond (w : bool) (label : nat)
| PLabel (label : nat).
Definition pcode := list pcp.

Inductive nodeval := NBytecode (c : pcode) | NConst (v : value).

(** CompiledProg: node value + ProgramDetails.params (a set of names; kept
    as a list, compared as a set). *)
Record cprog := mkCP { cp_node : nodeval; cp_params : list bytes }.

Definition of_code (c : code) : pcode := map PBc c.
Definition into_bytecode (n : nodeval) : pcode :=
  match n with NBytecode c => c | NConst v => [PBc (IPush v)] end.
Definition is_const (n : nodeval) : bool := match n with NConst _ => true | _ => false end.

(** PreResolvedByteCode::resolve.  [None]: an undefined or duplicate label
    (the Rust code panics). *)
Fixpoint label_locs (c : pcode) (pos : nat) (acc : list (nat * nat)) : option (list (nat * nat)) :=
  match c with
  | [] => Some acc
  | PLabel l :: r =>
      if existsb (fun kv => Nat.eqb (fst kv) l) acc then None
      else label_locs r pos ((l, pos) :: acc)
  | _ :: r => label_locs r (S pos) acc
  end.

Fixpoint find_label (l : nat) (locs : list (nat * nat)) : option nat :=
  match locs with
  | [] => None
  | (k, p) :: r => if Nat.eqb k l then Some p else find_label l r
  end.

Fixpoint resolve_at (c : pcode) (pos : nat) (locs : list (nat * nat)) : option code :=
  match c with
  | [] => Some []
  | PBc i :: r => option_map (cons i) (resolve_at r (S pos) locs)
  | PJmp l :: r =>
      match find_label l locs, resolve_at r (S pos) locs with
      | Some p, Some r' => Some (IJmp (Z.of_nat p - Z.of_nat (S pos)) :: r')
      | _, _ => None
      end
  | PJmpCond w l :: r =>
      match find_label l locs, resolve_at r (S pos) locs with
      | Some p, Some r' => Some (IJmpCond w (Z.of_nat p - Z.of_nat (S pos)) :: r')
      | _, _ => None
      end
  | PLabel _ :: r => resolve_at r pos locs
  end.

Definition resolve (c : pcode) : option code :=
  match label_locs c O [] with
  | Some locs => resolve_at c O locs
  | None => None
  end.

(** Compile-time bindings: BindContext::for_compile(), no CelContext, no clock. *)
Definition compile_env : env := mkEnv true [] [] [] false None.

(** Outcome of code generation: [CPanic] stands for the Rust panics
    (duplicate/undefined label, const_val on a non-constant), which
    Proofs/ shows unreachable. *)
Inductive cres (A : Type) := COk (a : A) (next_label : nat) | CPanic | CFuel | CUnmod | CSyntax (l : loc).
Arguments COk {A} _ _.
Arguments CPanic {A}.
Arguments CFuel {A}.
Arguments CUnmod {A}.
Arguments CSyntax {A} _.

Definition C (A : Type) := nat -> cres A.
Definition cret {A} (a : A) : C A := fun n => COk a n.
Definition cbind {A B} (m : C A) (f : A -> C B) : C B :=
  fun n => match m n with
           | COk a n' => f a n'
           | CPanic => CPanic | CFuel => CFuel | CUnmod => CUnmod | CSyntax l => CSyntax l
           end.
Notation "'let+' x ':=' m 'in' k" := (cbind m (fun x => k))
  (at level 200, x pattern, m at level 100, k at level 200).
Definition new_label : C nat := fun n => COk n (S n).

Definition union (a b : list bytes) : list bytes := a ++ b.

Definition resolve_or_panic (c : pcode) : C code :=
  fun n => match resolve c with Some r => COk r n | None => CPanic end.

(** compile!(bytecode, const_expr, children...) for two children *)
Definition compile2 (op : instr) (f : value -> value -> value) (a b : cprog) : cprog :=
  let ps := union (cp_params a) (cp_params b) in
  match cp_node a, cp_node b with
  | NConst x, NConst y => mkCP (NConst (f x y)) ps
  | na, nb => mkCP (NBytecode (into_bytecode na ++ into_bytecode nb ++ [PBc op])) ps
  end.

(** append_result: always bytecode *)
Definition append_result (a b : cprog) : cprog :=
  mkCP (NBytecode (into_bytecode (cp_node a) ++ into_bytecode (cp_node b))) (union (cp_params a) (cp_params b)).

Definition contains_err (v : value) : bool :=
  (fix go (v : value) : bool :=
     match v with
     | VErr _ => true
     | VList l => (fix gl (l : list value) := match l with [] => false | x :: r => go x || gl r end) l
     | VMap m => (fix gm (m : list (bytes * value)) := match m with [] => false | (_, x) :: r => go x || gm r end) m
     | _ => false
     end) v.

Section Gen.
  Variable fuel : nat.                               (* for compile-time evaluation and sub-parsers *)
  Variable rec_expr : expr -> C cprog.               (* compile an expression, one fuel unit lower *)

  (** check_for_const: run the call at compile time; a value without a nested
      error, computed without asking for the clock, is a constant. *)
  Definition check_for_const (node : cprog) : C cprog :=
    let+ bc := resolve_or_panic (into_bytecode (cp_node node)) in
    match run fuel compile_env bc true O [] with
    | (ROk v, lg) => if runtime_requested lg || contains_err v then cret (mkCP (NBytecode (of_code bc)) (cp_params node))
                     else cret (mkCP (NConst v) (cp_params node))
    | (RErr _, _) => cret (mkCP (NBytecode (of_code bc)) (cp_params node))
    | (RPanic, _) => fun _ => CPanic
    | (RFuel, _) => fun _ => CFuel
    | (RUnmod, _) => fun _ => CUnmod
    end.

  Fixpoint c_list (es : list expr) : C (list cprog) :=
    match es with
    | [] => cret []
    | e :: r => let+ x := rec_expr e in let+ xs := c_list r in cret (x :: xs)
    end.

  Definition all_const (cs : list cprog) : option (list value) :=
    fold_right (fun c acc => match cp_node c, acc with NConst v, Some vs => Some (v :: vs) | _, _ => None end)
               (Some []) cs.

  (** from_children_w_bytecode *)
  Definition from_children (cs : list cprog) (op : instr) (f : list value -> value) : cprog :=
    let ps := flat_map cp_params cs in
    match all_const cs with
    | Some vs => mkCP (NConst (f vs)) ps
    | None => mkCP (NBytecode (flat_map (fun c => into_bytecode (cp_node c)) cs ++ [PBc op])) ps
    end.

  (** constant object literal: vals = [value1; key1; value2; key2; ...] *)
  Fixpoint const_map (vals : list value) (acc : list (bytes * value)) : value :=
    match vals with
    | v :: VString k :: r => const_map r (map_insert acc k v)
    | _ :: _ :: _ => VErr EValue
    | _ => VMap acc
    end.

  Definition c_lit (l : lit) : C cprog :=
    match l with
    | LNull => cret (mkCP (NConst VNull) [])
    | LInt z => cret (mkCP (NConst (VInt z)) [])
    | LUInt z => cret (mkCP (NConst (VUInt z)) [])
    | LFloat f => cret (mkCP (NConst (VFloat f)) [])
    | LStr s => cret (mkCP (NConst (VString (utf8_encode s))) [])
    | LBytes b => cret (mkCP (NConst (VBytes b)) [])
    | LBool b => cret (mkCP (NConst (VBool b)) [])
    | LFStr segs =>
        (fix go (segs : list fseg) (acc : pcode) (ps : list bytes) (n : nat) : C cprog :=
           match segs with
           | [] => cret (mkCP (NBytecode (acc ++ [PBc (IFmt (Z.of_nat n))])) ps)
           | FLit s :: r =>
               go r (acc ++ [PBc (IPush (VString (utf8_encode s))); PBc (IPush (VIdent #"string")); PBc (ICall 1)])
                  ps (S n)
           | FExpr s :: r =>
               (* a fresh compiler (own label counter) on the segment text *)
               match p_expr fuel (tz_init s) with
               | POk e _ =>
                   fun lbl =>
                     match rec_expr e O with
                     | COk cp _ =>
                         match resolve (into_bytecode (cp_node cp)) with
                         | Some bc =>
                             go r (acc ++ [PBc (IPush (VCode bc)); PBc (IPush (VIdent #"string")); PBc (ICall 1)])
                                (union ps (cp_params cp)) (S n) lbl
                         | None => CPanic
                         end
                     | CPanic => CPanic | CFuel => CFuel | CUnmod => CUnmod | CSyntax l => CSyntax l
                     end
               | PErr l => fun _ => CSyntax l
               | PFuel => fun _ => CFuel
               end
           end) segs [] [] O
    end.

  Definition c_primary (p : primary) : C cprog :=
    match p with
    | PrIdent _ name => let n := utf8_encode name in cret (mkCP (NBytecode [PBc (IPush (VIdent n))]) [n])
    | PrParens _ e => rec_expr e
    | PrList _ es =>
        let+ cs := c_list es in
        cret (from_children cs (IMkList (zlen es)) (fun vs => VList vs))
    | PrObj _ inits =>
        let+ cs := (fix go (l : list objinit) : C (list cprog) :=
                      match l with
                      | [] => cret []
                      | ObjInit _ k v :: r =>
                          let+ ck := rec_expr k in let+ cv := rec_expr v in let+ rest := go r in
                          cret (cv :: ck :: rest)
                      end) inits in
        cret (from_children cs (IMkDict (zlen inits)) (fun vs => const_map vs []))
    | PrLit _ l => c_lit l
    end.

  (** one postfix operator applied to the member chain compiled so far *)
  Definition c_mprime (cur : cprog) (m : mprime) : C cprog :=
    match m with
    | MPAccess _ _ name =>
        let n := utf8_encode name in
        let ps := cp_params cur in
        match cp_node cur with
        | NConst o =>
            let folded := match o with
                          | VMap _ => match access o n with VErr _ => None | v => Some v end
                          | _ => None
                          end in
            match folded with
            | Some v => cret (mkCP (NConst v) ps)
            | None => cret (mkCP (NBytecode [PBc (IPush o); PBc (IPush (VIdent n)); PBc IAccess]) ps)
            end
        | NBytecode c => cret (mkCP (NBytecode (c ++ [PBc (IPush (VIdent n)); PBc IAccess])) ps)
        end
    | MPCall _ rargs =>
        (* rargs is in reverse source order, which is the push order *)
        let+ pushes := (fix go (l : list expr) : C (pcode * list bytes) :=
                          match l with
                          | [] => cret ([], [])
                          | a :: r =>
                              let+ ca := rec_expr a in
                              let+ bc := resolve_or_panic (into_bytecode (cp_node ca)) in
                              let+ rest := go r in
                              cret (PBc (IPush (VCode bc)) :: fst rest, union (cp_params ca) (snd rest))
                          end) rargs in
        let node := mkCP (NBytecode (fst pushes ++ into_bytecode (cp_node cur) ++ [PBc (ICall (zlen rargs))]))
                         (union (snd pushes) (cp_params cur)) in
        check_for_const node
    | MPIndex _ e =>
        let+ ci := rec_expr e in
        cret (compile2 IIndex index cur ci)
    end.

  Definition c_member (m : member) : C cprog :=
    match m with
    | Member _ p ms =>
        let+ cp := c_primary p in
        (fix go (ms : list mprime) (cur : cprog) : C cprog :=
           match ms with
           | [] => cret cur
           | x :: r => let+ c' := c_mprime cur x in go r c'
           end) ms cp
    end.

  Fixpoint oplist_len (o : oplist) : nat := match o with OLCons _ t => S (oplist_len t) | OLEmpty _ => O end.

  Definition c_unary (u : unary) : C cprog :=
    match u with
    | UnMember _ m => c_member m
    | UnNot _ nots m =>
        let+ cm := c_member m in
        cret (append_result cm (mkCP (NBytecode (repeat (PBc INot) (oplist_len nots))) []))
    | UnNeg _ negs m =>
        let+ cm := c_member m in
        cret (append_result cm (mkCP (NBytecode (repeat (PBc INeg) (oplist_len negs))) []))
    end.

  Fixpoint c_mult (e : mult) : C cprog :=
    match e with
    | MulUn _ u => c_unary u
    | MulBin _ l op r =>
        let+ cl := c_mult l in let+ cr := c_unary r in
        cret (match op with
              | MOMul => compile2 IMul mul cl cr
              | MODiv => compile2 IDiv div cl cr
              | MOMod => compile2 IMod rem cl cr
              end)
    end.

  Fixpoint c_addn (e : addn) : C cprog :=
    match e with
    | AddUn _ u => c_mult u
    | AddBin _ l op r =>
        let+ cl := c_addn l in let+ cr := c_mult r in
        cret (match op with AOAdd => compile2 IAdd add cl cr | AOSub => compile2 ISub sub cl cr end)
    end.

  Fixpoint c_rel (e : rel) : C cprog :=
    match e with
    | RelUn _ u => c_addn u
    | RelBin _ l op r =>
        let+ cl := c_rel l in let+ cr := c_addn r in
        cret (match op with
              | RLt => compile2 ILt lt cl cr | RLe => compile2 ILe le cl cr
              | REq => compile2 IEq eq_ cl cr | RNe => compile2 INe neq cl cr
              | RGe => compile2 IGe ge cl cr | RGt => compile2 IGt gt cl cr
              | RIn => compile2 IIn in_ cl cr
              end)
    end.

  (** && chain: [label] is shared by the whole chain (the jump node is never a
      constant, so && and || are never folded). *)
  Fixpoint c_cand_chain (e : cand) (label : nat) : C cprog :=
    match e with
    | AndUn _ u => c_rel u
    | AndBin _ l r =>
        let+ cl := c_cand_chain l label in let+ cr := c_rel r in
        cret (mkCP (NBytecode (into_bytecode (cp_node cl) ++
                               [PBc ITest; PBc IDup; PJmpCond false label] ++
                               into_bytecode (cp_node cr) ++ [PBc IAnd]))
                   (union (cp_params cl) (cp_params cr)))
    end.

  Definition append_if_bytecode (c : cprog) (x : pcode) : cprog :=
    match cp_node c with
    | NBytecode b => mkCP (NBytecode (b ++ x)) (cp_params c)
    | NConst _ => c
    end.

  Definition c_cand (e : cand) : C cprog :=
    let+ label := new_label in
    let+ c := c_cand_chain e label in
    cret (append_if_bytecode c [PLabel label]).

  Fixpoint c_cor_chain (e : cor) (label : nat) : C cprog :=
    match e with
    | OrUn _ u => c_cand u
    | OrBin _ l r =>
        let+ cl := c_cor_chain l label in let+ cr := c_cand r in
        cret (mkCP (NBytecode (into_bytecode (cp_node cl) ++
                               [PBc ITest; PBc IDup; PJmpCond true label] ++
                               into_bytecode (cp_node cr) ++ [PBc IOr]))
                   (union (cp_params cl) (cp_params cr)))
    end.

  Definition c_cor (e : cor) : C cprog :=
    let+ label := new_label in
    let+ c := c_cor_chain e label in
    cret (append_if_bytecode c [PLabel label]).

  Definition cmp_instr (op : cmpop) : instr :=
    match op with CEq => IEq | CNeq => INe | CGt => IGt | CGe => IGe | CLt => ILt | CLe => ILe end.

  Definition c_pattern (p : mpat) : C (pcode * list bytes) :=
    match p with
    | MPatAny _ _ => cret ([PBc IPop; PBc (IPush (VBool true))], [])
    | MPatType _ _ _ tyname =>
        (* the parser builds a type pattern only from the name of a built-in type (Parser.p_pattern); any other
           name here is a state the implementation cannot reach *)
        if is_type_name (utf8_encode tyname)
        then cret ([PBc (IPush (VIdent #"type")); PBc (ICall 1); PBc (IPush (VIdent (utf8_encode tyname))); PBc IEq], [])
        else fun _ => CPanic
    | MPatCmp _ _ op o =>
        let+ co := c_cor o in
        cret (into_bytecode (cp_node co) ++ [PBc (cmp_instr op)], cp_params co)
    end.

  Definition c_expr_body (e : expr) : C cprog :=
    match e with
    | EUnary _ c => c_cor c
    | ETernary _ c t f =>
        let+ cc := c_cor c in
        let+ ct := c_cor t in
        let+ cf := rec_expr f in
        let ps := union (cp_params cc) (union (cp_params ct) (cp_params cf)) in
        match cp_node cc with
        | NConst v =>
            if is_err v then cret (mkCP (NConst v) ps)
            else if is_truthy v then cret (mkCP (cp_node ct) ps)
            else cret (mkCP (cp_node cf) ps)
        | NBytecode cb =>
            let+ after_true := new_label in
            let+ end_label := new_label in
            cret (mkCP (NBytecode (cb ++ [PBc ITest; PBc IDup; PJmpCond false after_true; PBc IPop] ++
                                   into_bytecode (cp_node ct) ++
                                   [PJmp end_label; PLabel after_true; PBc IDup; PBc INot;
                                    PJmpCond false end_label; PBc IPop] ++
                                   into_bytecode (cp_node cf) ++ [PLabel end_label])) ps)
        end
    | EMatch _ c cases =>
        let+ cc := rec_expr c in
        let+ parts := (fix go (l : list mcase) : C (list (pcode * pcode) * list bytes) :=
                         match l with
                         | [] => cret ([], [])
                         | MCase _ p arm :: r =>
                             let+ cp := c_pattern p in
                             let+ ca := rec_expr arm in
                             let+ rest := go r in
                             cret ((fst cp, PBc IPop :: into_bytecode (cp_node ca)) :: fst rest,
                                   union (snd cp) (union (cp_params ca) (snd rest)))
                         end) cases in
        let+ after_match := new_label in
        let+ body := (fix go (l : list (pcode * pcode)) : C pcode :=
                        match l with
                        | [] => cret []
                        | (pb, eb) :: r =>
                            let+ after_case := new_label in
                            let+ rest := go r in
                            cret ([PBc IDup] ++ pb ++ [PJmpCond false after_case] ++ eb ++
                                  [PJmp after_match; PLabel after_case] ++ rest)
                        end) (fst parts) in
        cret (mkCP (NBytecode (into_bytecode (cp_node cc) ++ body ++
                               [PBc IPop; PBc (IPush VNull); PLabel after_match]))
                   (union (cp_params cc) (snd parts)))
    end.
End Gen.

(** Compile an expression tree; [fuel] bounds nesting depth, compile-time
    evaluation and the f-string sub-parsers. *)
Fixpoint c_expr (fuel : nat) (e : expr) : C cprog :=
  match fuel with
  | O => fun _ => CFuel
  | S f => c_expr_body f (c_expr f) e
  end.

(** Sorted, duplicate-free parameter list (the order of a HashSet is unspecified). *)
Fixpoint insert_sorted (x : bytes) (l : list bytes) : list bytes :=
  match l with
  | [] => [x]
  | y :: r => match bytes_cmp x y with Lt => x :: l | Eq => l | Gt => y :: insert_sorted x r end
  end.
Definition sort_params (l : list bytes) : list bytes := fold_right insert_sorted [] l.

Record program := mkProgram { pr_code : code; pr_params : list bytes; pr_ast : expr }.

(** Program::from_source *)
Definition compile_source (fuel : nat) (src : chars) : cres program :=
  match parse_program fuel src with
  | PErr l => CSyntax l
  | PFuel => CFuel
  | POk e _ =>
      match c_expr fuel e O with
      | COk cp n =>
          match resolve (into_bytecode (cp_node cp)) with
          | Some bc => COk (mkProgram bc (sort_params (cp_params cp)) e) n
          | None => CPanic
          end
      | CPanic => CPanic | CFuel => CFuel | CUnmod => CUnmod | CSyntax l => CSyntax l
      end
  end.

(** The implementation refuses an expression with more than 1024 binary operators
    (MAX_BINARY_OPERATORS; f-string segments count towards their expression).  The model does
    not thread that counter through the parser: a source that could exceed the bound is declared
    outside the model.  The count used here can only be too high (every operator token of the
    source, prefix operators included, plus every character of an f-string segment), so a source
    the model does compile is one the implementation does not refuse for this reason. *)
Definition max_binary_operators : Z := 1024.
Definition is_operator_token (t : token) : bool :=
  match t with
  | TAdd | TMinus | TMultiply | TDivide | TMod | TLessThan | TGreaterThan | TOrOr | TAndAnd
  | TLessEqual | TGreaterEqual | TEqualEqual | TNotEqual | TIn => true
  | _ => false
  end.
Definition token_operator_bound (t : token) : Z :=
  match t with
  | TFStringLit segs =>
      fold_left (fun acc sg => match sg with FExpr s => acc + Z.of_nat (length s) | FLit _ => acc end) segs 0
  | _ => if is_operator_token t then 1 else 0
  end.
Definition operator_bound (src : chars) : Z :=
  match lex src with
  | LOk toks _ => fold_left (fun acc t => acc + token_operator_bound (t_tok t)) toks 0
  | _ => 0
  end.
Definition compile_checked (fuel : nat) (src : chars) : cres program :=
  if max_binary_operators <? operator_bound src then CUnmod else compile_source fuel src.
