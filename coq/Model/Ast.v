(* Model/Ast.v — rscel/src/compiler/grammar.rs with the source range that
   AstNode<T> attaches to every node (first argument of each constructor). *)
From Coq Require Import ZArith List Bool.
From Rscel Require Import Base.Prims Base.F64 Model.Value Model.Lexer.
Import ListNotations.
Open Scope Z_scope.

Inductive relop := RLe | RLt | RGe | RGt | REq | RNe | RIn.
Inductive addop := AOAdd | AOSub.
Inductive mulop := MOMul | MODiv | MOMod.
Inductive cmpop := CEq | CNeq | CGt | CGe | CLt | CLe.
Inductive mtype := MTInt | MTUint | MTFloat | MTString | MTBool | MTBytes | MTList | MTObject
                 | MTNull | MTTimestamp | MTDuration | MTType | MTDyn.

Inductive lit :=
| LNull | LInt (z : Z) | LUInt (z : Z) | LFloat (f : f64) | LFStr (segs : list fseg)
| LStr (s : chars) | LBytes (b : bytes) | LBool (b : bool).

(** NotList / NegList: one range per operator, then the EmptyList range. *)
Inductive oplist := OLCons (r : range) (tail : oplist) | OLEmpty (r : range).

Inductive expr :=
| ETernary (r : range) (c : cor) (t : cor) (f : expr)
| EMatch (r : range) (c : expr) (cases : list mcase)
| EUnary (r : range) (c : cor)
with mcase := MCase (r : range) (p : mpat) (e : expr)
with mpat :=
| MPatCmp (r : range) (opr : range) (op : cmpop) (o : cor)
| MPatType (r : range) (tr : range) (ty : mtype) (name : chars)   (* name: the spelling, e.g. double vs float *)
| MPatAny (r : range) (ar : range)
with cor := OrBin (r : range) (l : cor) (rhs : cand) | OrUn (r : range) (a : cand)
with cand := AndBin (r : range) (l : cand) (rhs : rel) | AndUn (r : range) (a : rel)
with rel := RelBin (r : range) (l : rel) (op : relop) (rhs : addn) | RelUn (r : range) (a : addn)
with addn := AddBin (r : range) (l : addn) (op : addop) (rhs : mult) | AddUn (r : range) (a : mult)
with mult := MulBin (r : range) (l : mult) (op : mulop) (rhs : unary) | MulUn (r : range) (a : unary)
with unary :=
| UnMember (r : range) (m : member)
| UnNot (r : range) (nots : oplist) (m : member)
| UnNeg (r : range) (negs : oplist) (m : member)
with member := Member (r : range) (p : primary) (ms : list mprime)
with mprime :=
| MPAccess (r : range) (ir : range) (name : chars)
| MPCall (r : range) (args : list expr)         (* ExprList carries the same range *)
| MPIndex (r : range) (e : expr)
with primary :=
| PrIdent (r : range) (name : chars)
| PrParens (r : range) (e : expr)
| PrList (r : range) (es : list expr)            (* ExprList carries the same range *)
| PrObj (r : range) (inits : list objinit)       (* ObjInits carries the same range *)
| PrLit (r : range) (l : lit)
with objinit := ObjInit (r : range) (k : expr) (v : expr).

Definition expr_range (e : expr) : range :=
  match e with ETernary r _ _ _ | EMatch r _ _ | EUnary r _ => r end.
Definition cor_range (e : cor) : range := match e with OrBin r _ _ | OrUn r _ => r end.
Definition cand_range (e : cand) : range := match e with AndBin r _ _ | AndUn r _ => r end.
Definition rel_range (e : rel) : range := match e with RelBin r _ _ _ | RelUn r _ => r end.
Definition addn_range (e : addn) : range := match e with AddBin r _ _ _ | AddUn r _ => r end.
Definition mult_range (e : mult) : range := match e with MulBin r _ _ _ | MulUn r _ => r end.
Definition unary_range (e : unary) : range := match e with UnMember r _ | UnNot r _ _ | UnNeg r _ _ => r end.
Definition member_range (e : member) : range := match e with Member r _ _ => r end.
Definition mprime_range (e : mprime) : range :=
  match e with MPAccess r _ _ | MPCall r _ | MPIndex r _ => r end.
Definition primary_range (e : primary) : range :=
  match e with PrIdent r _ | PrParens r _ | PrList r _ | PrObj r _ | PrLit r _ => r end.
Definition mpat_range (p : mpat) : range := match p with MPatCmp r _ _ _ | MPatType r _ _ _ | MPatAny r _ => r end.
Definition oplist_range (o : oplist) : range := match o with OLCons r _ | OLEmpty r => r end.

(** SourceLocation is ordered by (line, column); [surrounding] takes the
    smaller start and the larger end. *)
Definition loc_leb (a b : loc) : bool :=
  (l_line a <? l_line b) || ((l_line a =? l_line b) && (l_col a <=? l_col b)).
Definition loc_min (a b : loc) : loc := if loc_leb a b then a else b.
Definition loc_max (a b : loc) : loc := if loc_leb a b then b else a.
Definition surrounding (a b : range) : range :=
  mkRange (loc_min (r_start a) (r_start b)) (loc_max (r_end a) (r_end b)).
