(* Model/Time.v — civil-time fields of an instant (chrono: NaiveDate from days,
   proleptic Gregorian calendar), duration parts, fixed-offset zones.
   Instants and durations are total nanoseconds. *)
From Coq Require Import ZArith List Bool.
From Rscel Require Import Base.Prims Base.Text Model.Value.
Import ListNotations.
Import Coq.Strings.String.StringSyntax.
Open Scope Z_scope.

(** fields of day number doe (0 .. 146096) of a 400-year era that starts on 1 March of year 0 of the era *)
Definition yoe_of (doe : Z) : Z := (doe - doe / 1460 + doe / 36524 - doe / 146096) / 365.
Definition doy_of (doe : Z) : Z := let yoe := yoe_of doe in doe - (365 * yoe + yoe / 4 - yoe / 100).
Definition mp_of (doy : Z) : Z := (5 * doy + 2) / 153.

(** days since 1970-01-01 -> (year, month 1..12, day 1..31) *)
Definition civil_from_days (z : Z) : Z * Z * Z :=
  let z' := z + 719468 in
  let era := z' / 146097 in
  let doe := z' mod 146097 in
  let yoe := yoe_of doe in
  let doy := doy_of doe in
  let mp := mp_of doy in
  let d := doy - (153 * mp + 2) / 5 + 1 in
  let m := if mp <? 10 then mp + 3 else mp - 9 in
  (yoe + era * 400 + (if m <=? 2 then 1 else 0), m, d).

Definition days_from_civil (y m d : Z) : Z :=
  let y' := if m <=? 2 then y - 1 else y in
  let era := y' / 400 in
  let yoe := y' mod 400 in
  let doy := (153 * (if 2 <? m then m - 3 else m + 9) + 2) / 5 + d - 1 in
  let doe := yoe * 365 + yoe / 4 - yoe / 100 + doy in
  era * 146097 + doe - 719468.

Definition ns_per_s : Z := 1000000000.
Definition secs_of (ns : Z) : Z := ns / ns_per_s.             (* floor *)
Definition days_of (ns : Z) : Z := secs_of ns / 86400.
Definition sod_of (ns : Z) : Z := secs_of ns mod 86400.

Definition t_year (ns : Z) : Z := fst (fst (civil_from_days (days_of ns))).
Definition t_month0 (ns : Z) : Z := snd (fst (civil_from_days (days_of ns))) - 1.
Definition t_day (ns : Z) : Z := snd (civil_from_days (days_of ns)).
Definition t_ordinal0 (ns : Z) : Z := days_of ns - days_from_civil (t_year ns) 1 1.
Definition t_weekday_from_sunday (ns : Z) : Z := (days_of ns + 4) mod 7.       (* 1970-01-01 was a Thursday *)
Definition t_hour (ns : Z) : Z := sod_of ns / 3600.
Definition t_minute (ns : Z) : Z := (sod_of ns mod 3600) / 60.
Definition t_second (ns : Z) : Z := sod_of ns mod 60.
Definition t_millis (ns : Z) : Z := (ns mod ns_per_s) / 1000000.

(** Duration::num_hours / num_minutes / num_seconds truncate toward zero; subsec_nanos has the sign of the duration *)
Definition d_hours (ns : Z) : Z := Z.quot ns (3600 * ns_per_s).
Definition d_minutes (ns : Z) : Z := Z.quot ns (60 * ns_per_s).
Definition d_seconds (ns : Z) : Z := Z.quot ns ns_per_s.
Definition d_millis (ns : Z) : Z := Z.quot (Z.rem ns ns_per_s) 1000000.

(** zones with a fixed offset that need no time-zone database: UTC and its
    aliases, and Etc/GMT+N (N hours WEST of Greenwich) / Etc/GMT-N.  [None]: not covered here. *)
Definition utc_aliases : list bytes :=
  [ #"UTC"; #"Etc/UTC"; #"GMT"; #"Etc/GMT"; #"Zulu"; #"Etc/Zulu"; #"UCT"; #"Etc/UCT"; #"Universal"; #"Etc/Universal";
    #"Greenwich"; #"Etc/Greenwich"; #"GMT0"; #"Etc/GMT0"; #"GMT+0"; #"Etc/GMT+0"; #"GMT-0"; #"Etc/GMT-0" ].

Definition fixed_offset_hours (zone : bytes) : option Z :=
  if existsb (bytes_eqb zone) utc_aliases then Some 0
  else match zone with
       | 69 :: 116 :: 99 :: 47 :: 71 :: 77 :: 84 :: sgn :: ds =>       (* "Etc/GMT" sign digits *)
           match parse_u64 ds with
           | Some n =>
               if (sgn =? 43) && (1 <=? n) && (n <=? 12) && negb (bytes_eqb ds #"00") && (Z.of_nat (length ds) <=? 2)
                  && negb (match ds with 48 :: _ => true | _ => false end) then Some (- n)
               else if (sgn =? 45) && (1 <=? n) && (n <=? 14) && (Z.of_nat (length ds) <=? 2)
                  && negb (match ds with 48 :: _ => true | _ => false end) then Some n
               else None
           | None => None
           end
       | _ => None
       end.

Inductive taccess := TADate | TADayOfMonth | TADayOfWeek | TADayOfYear | TAFullYear | TAHours | TAMillis | TAMinutes
                   | TAMonth | TASeconds.

Definition taccess_of (name : bytes) : option taccess :=
  if bytes_eqb name #"getDate" then Some TADate else if bytes_eqb name #"getDayOfMonth" then Some TADayOfMonth
  else if bytes_eqb name #"getDayOfWeek" then Some TADayOfWeek else if bytes_eqb name #"getDayOfYear" then Some TADayOfYear
  else if bytes_eqb name #"getFullYear" then Some TAFullYear else if bytes_eqb name #"getHours" then Some TAHours
  else if bytes_eqb name #"getMilliseconds" then Some TAMillis else if bytes_eqb name #"getMinutes" then Some TAMinutes
  else if bytes_eqb name #"getMonth" then Some TAMonth else if bytes_eqb name #"getSeconds" then Some TASeconds else None.

(** [zoned]: the form with a zone argument (getDayOfWeek is then one-based: number_from_sunday) *)
Definition time_field (a : taccess) (zoned : bool) (local_ns : Z) : Z :=
  match a with
  | TADate => t_day local_ns
  | TADayOfMonth => t_day local_ns - 1
  | TADayOfWeek => t_weekday_from_sunday local_ns + (if zoned then 1 else 0)
  | TADayOfYear => t_ordinal0 local_ns
  | TAFullYear => t_year local_ns
  | TAHours => t_hour local_ns
  | TAMillis => t_millis local_ns
  | TAMinutes => t_minute local_ns
  | TAMonth => t_month0 local_ns
  | TASeconds => t_second local_ns
  end.

Definition dur_field (a : taccess) (ns : Z) : option Z :=
  match a with
  | TAHours => Some (d_hours ns) | TAMinutes => Some (d_minutes ns) | TASeconds => Some (d_seconds ns)
  | TAMillis => Some (d_millis ns) | _ => None
  end.
