(* Model/Ops.v — transliteration of the operators of
   rscel/src/types/cel_value.rs (default features: type_prop, neg_index). *)
From Coq Require Import ZArith List Bool.
From Coq Require Import Floats.SpecFloat.
From Rscel Require Import Base.Prims Base.F64 Model.Value.
Import ListNotations.
Open Scope Z_scope.

(** chrono ranges.  DateTime<Utc>: -262143-01-01T00:00:00 ..
    +262142-12-31T23:59:59.999999999; TimeDelta: +-i64::MAX milliseconds. *)
Definition time_min_ns : Z := -8334601228800 * 1000000000.
Definition time_max_ns : Z := 8210266876799 * 1000000000 + 999999999.
Definition dur_max_ns : Z := 9223372036854775807 * 1000000.
Definition dur_min_ns : Z := - dur_max_ns.
Definition in_time (ns : Z) : bool := (time_min_ns <=? ns) && (ns <=? time_max_ns).
Definition in_dur (ns : Z) : bool := (dur_min_ns <=? ns) && (ns <=? dur_max_ns).
Definition checked_time (ns : Z) : value := if in_time ns then VTime ns else VErr EValue.
Definition checked_dur (ns : Z) : value := if in_dur ns then VDur ns else VErr EValue.

(** [CelValue::type_prop] *)
Definition type_prop (l r : value) : value * value :=
  match l with
  | VInt li =>
      match r with
      | VUInt u => if u <=? i64_max then (l, VInt u) else (l, r)
      | VFloat _ => (VFloat (f64_of_Z li), r)
      | VBool b => (l, VInt (b2z b))
      | _ => (l, r)
      end
  | VUInt lu =>
      match r with
      | VInt _ => if lu <=? i64_max then (VInt lu, r) else (l, r)
      | VFloat _ => (VFloat (f64_of_Z lu), r)
      | VBool b => (l, VUInt (b2z b))
      | _ => (l, r)
      end
  | VFloat _ =>
      match r with
      | VInt i => (l, VFloat (f64_of_Z i))
      | VUInt u => (l, VFloat (f64_of_Z u))
      | VBool b => (l, VFloat (if b then f64_one else f64_zero))
      | _ => (l, r)
      end
  | VBool lb =>
      match r with
      | VInt _ => (VInt (b2z lb), r)
      | VUInt _ => (VUInt (b2z lb), r)
      | VFloat _ => (VFloat (if lb then f64_one else f64_zero), r)
      | _ => (l, r)
      end
  | _ => (l, r)
  end.

(** [error_prop_or] *)
Definition error_prop_or (l r : value) (f : value -> value -> value) : value :=
  if is_err l then l else if is_err r then r else f l r.

Definition ck_int (z : Z) : value := if in_i64 z then VInt z else VErr EValue.
Definition ck_uint (z : Z) : value := if in_u64 z then VUInt z else VErr EValue.

(** [impl Add for CelValue] *)
Definition add (a b : value) : value :=
  error_prop_or a b (fun a b =>
    match type_prop a b with
    | (VInt x, VInt y) => ck_int (x + y)
    | (VUInt x, VUInt y) => ck_uint (x + y)
    | (VFloat x, VFloat y) => VFloat (f64_add x y)
    | (VString x, VString y) => VString (x ++ y)
    | (VBytes x, VBytes y) => VBytes (x ++ y)
    | (VList x, VList y) => VList (x ++ y)
    | (VTime t, VDur d) => checked_time (t + d)
    | (VDur d, VTime t) => checked_time (t + d)
    | (VDur x, VDur y) => checked_dur (x + y)
    | _ => VErr EInvalidOp
    end).

Definition sub (a b : value) : value :=
  error_prop_or a b (fun a b =>
    match type_prop a b with
    | (VInt x, VInt y) => ck_int (x - y)
    | (VUInt x, VUInt y) => ck_uint (x - y)
    | (VFloat x, VFloat y) => VFloat (f64_sub x y)
    | (VTime t, VDur d) => checked_time (t - d)
    | (VTime t1, VTime t2) => VDur (t1 - t2)
    | (VDur d, VTime t) => checked_time (t - d)
    | (VDur x, VDur y) => checked_dur (x - y)
    | _ => VErr EInvalidOp
    end).

Definition mul (a b : value) : value :=
  error_prop_or a b (fun a b =>
    match type_prop a b with
    | (VInt x, VInt y) => ck_int (x * y)
    | (VUInt x, VUInt y) => ck_uint (x * y)
    | (VFloat x, VFloat y) => VFloat (f64_mul x y)
    | _ => VErr EInvalidOp
    end).

Definition div (a b : value) : value :=
  error_prop_or a b (fun a b =>
    match type_prop a b with
    | (VInt x, VInt y) => if y =? 0 then VErr EDivZero else ck_int (Z.quot x y)
    | (VUInt x, VUInt y) => if y =? 0 then VErr EDivZero else VUInt (Z.quot x y)
    | (VFloat x, VFloat y) => VFloat (f64_div x y)
    | _ => VErr EInvalidOp
    end).

Definition rem (a b : value) : value :=
  error_prop_or a b (fun a b =>
    match type_prop a b with
    | (VInt x, VInt y) => if y =? 0 then VErr EDivZero else VInt (Z.rem x y)
    | (VUInt x, VUInt y) => if y =? 0 then VErr EDivZero else VUInt (Z.rem x y)
    | _ => VErr EInvalidOp
    end).

Definition neg (a : value) : value :=
  match a with
  | VErr _ => a
  | VInt x => ck_int (- x)
  | VFloat x => VFloat (f64_neg x)
  | _ => VErr EInvalidOp
  end.

(** [CelValueDyn::is_truthy] *)
Definition is_truthy (v : value) : bool :=
  match v with
  | VInt i => negb (i =? 0)
  | VUInt u => negb (u =? 0)
  | VFloat f => negb (f64_is_zero f)      (* [f != 0.0]: NaN is truthy *)
  | VBool b => b
  | VString s => negb (zlen s =? 0)
  | VBytes s => negb (zlen s =? 0)
  | VList l => negb (zlen l =? 0)
  | VMap m => negb (zlen m =? 0)
  | VNull => false
  | VType _ => true
  | VTime _ => true
  | VDur _ => true
  | VErr _ => false
  | VIdent _ => false
  | VCode _ => false
  end.

(** [impl Not] (type_prop) *)
Definition not_ (a : value) : value :=
  if is_err a then a else VBool (negb (is_truthy a)).

(** [CelValue::or] (type_prop) *)
Definition or_ (a b : value) : value :=
  if is_err a then (if is_truthy b then VBool true else a)
  else if is_err b then (if is_truthy a then VBool true else b)
  else VBool (is_truthy a || is_truthy b).

(** [CelValue::and] (type_prop) *)
Definition and_ (a b : value) : value :=
  error_prop_or a b (fun a b => VBool (is_truthy a && is_truthy b)).

(** [impl PartialEq for CelValue] (structural; used by [in]); [ByteCode]
    derives PartialEq. *)
Fixpoint peq (a b : value) {struct a} : bool :=
  match a, b with
  | VInt x, VInt y => x =? y
  | VUInt x, VUInt y => x =? y
  | VFloat x, VFloat y => f64_eqb x y
  | VBool x, VBool y => Bool.eqb x y
  | VString x, VString y => bytes_eqb x y
  | VBytes x, VBytes y => bytes_eqb x y
  | VList l, VList r =>
      (fix go (l r : list value) : bool :=
         match l, r with
         | [], [] => true
         | x :: l', y :: r' => peq x y && go l' r'
         | _, _ => false
         end) l r
  | VMap l, VMap r =>
      (fix go (l r : list (bytes * value)) : bool :=
         match l, r with
         | [], [] => true
         | (k, x) :: l', (k', y) :: r' => bytes_eqb k k' && peq x y && go l' r'
         | _, _ => false
         end) l r
  | VNull, VNull => true
  | VIdent x, VIdent y => bytes_eqb x y
  | VType x, VType y => bytes_eqb x y
  | VTime x, VTime y => x =? y
  | VDur x, VDur y => x =? y
  | VCode c, VCode d =>
      (fix go (c d : list instr) : bool :=
         match c, d with
         | [], [] => true
         | i :: c', j :: d' => ieq i j && go c' d'
         | _, _ => false
         end) c d
  | _, _ => false
  end
with ieq (i j : instr) {struct i} : bool :=
  match i, j with
  | IPush v, IPush w => peq v w
  | IPop, IPop | ITest, ITest | IDup, IDup | IOr, IOr | IAnd, IAnd | INot, INot
  | INeg, INeg | IAdd, IAdd | ISub, ISub | IMul, IMul | IDiv, IDiv | IMod, IMod
  | ILt, ILt | ILe, ILe | IEq, IEq | INe, INe | IGe, IGe | IGt, IGt | IIn, IIn
  | IIndex, IIndex | IAccess, IAccess => true
  | IJmp d, IJmp d' => d =? d'
  | IJmpCond w d, IJmpCond w' d' => Bool.eqb w w' && (d =? d')
  | IMkList n, IMkList n' => n =? n'
  | IMkDict n, IMkDict n' => n =? n'
  | ICall n, ICall n' => n =? n'
  | IFmt n, IFmt n' => n =? n'
  | _, _ => false
  end.

Definition is_true (v : value) : bool := match v with VBool true => true | _ => false end.

(** [CelValueDyn::eq] *)
Fixpoint eq_ (a b : value) {struct a} : value :=
  if is_err a then a else if is_err b then b else
  match type_prop a b with
  | (VInt x, VInt y) => VBool (x =? y)
  | (VUInt x, VUInt y) => VBool (x =? y)
  | (VFloat x, VFloat y) => VBool (f64_eqb x y)
  | (VBool x, VBool y) => VBool (Bool.eqb x y)
  | (VString x, VString y) => VBool (bytes_eqb x y)
  | (VBytes x, VBytes y) => VBool (bytes_eqb x y)
  | (VNull, VNull) => VBool true
  | (VTime x, VTime y) => VBool (x =? y)
  | (VDur x, VDur y) => VBool (x =? y)
  | (VType x, VType y) => VBool (bytes_eqb x y)
  | _ =>
    match a, b with
    | VList l, VList r =>
        if negb (zlen l =? zlen r) then VBool false else
        (fix go (l r : list value) : value :=
           match l, r with
           | x :: l', y :: r' =>
               match eq_ x y with
               | VErr e => VErr e
               | o => if is_true o then go l' r' else VBool false
               end
           | _, _ => VBool true
           end) l r
    | VMap l, VMap r =>
        (* for every key of l: present in r with an equal value; then r has no other key *)
        if (fix go (l : list (bytes * value)) : bool :=
              match l with
              | [] => true
              | (k, x) :: l' =>
                  match map_get r k with
                  | Some y => is_true (eq_ x y) && go l'
                  | None => false
                  end
              end) l
        then VBool (zlen l =? zlen r) else VBool false
    | _, _ => VBool false
    end
  end.

(** [CelValue::neq]: [unreachable!()] when [eq] is not a Bool is modelled as
    propagating that value (the repaired source does the same). *)
Definition neq (a b : value) : value :=
  error_prop_or a b (fun a b =>
    match eq_ a b with
    | VBool r => VBool (negb r)
    | o => o
    end).

(** [CelValue::ord]: [inl None] = incomparable (NaN), [inr e] = error. *)
Definition ord (a b : value) : option comparison + cel_error :=
  match type_prop a b with
  | (VInt x, VInt y) => inl (Some (x ?= y))
  | (VUInt x, VUInt y) => inl (Some (x ?= y))
  | (VInt _, VUInt _) => inl (Some Lt)
  | (VUInt _, VInt _) => inl (Some Gt)
  | (VFloat x, VFloat y) => inl (f64_cmp x y)
  | (VBool x, VBool y) => inl (Some (b2z x ?= b2z y))
  | (VString x, VString y) => inl (Some (bytes_cmp x y))
  | (VBytes x, VBytes y) => inl (Some (bytes_cmp x y))
  | (VTime x, VTime y) => inl (Some (x ?= y))
  | (VDur x, VDur y) => inl (Some (x ?= y))
  | _ => inr EInvalidOp
  end.

Definition cmp_with (p : option comparison -> bool) (a b : value) : value :=
  error_prop_or a b (fun a b =>
    match ord a b with
    | inl c => VBool (p c)
    | inr e => VErr e
    end).

Definition lt := cmp_with (fun c => match c with Some Lt => true | _ => false end).
Definition gt := cmp_with (fun c => match c with Some Gt => true | _ => false end).
Definition le := cmp_with (fun c => match c with Some Lt | Some Eq => true | _ => false end).
Definition ge := cmp_with (fun c => match c with Some Gt | Some Eq => true | _ => false end).

(** [CelValue::in_] *)
Definition in_ (a b : value) : value :=
  error_prop_or a b (fun lhs rhs =>
    match rhs with
    | VList l => VBool (existsb (fun v => peq lhs v) l)
    | VMap m =>
        match lhs with
        | VString k => VBool (match map_get m k with Some _ => true | None => false end)
        | _ => VErr EInvalidOp
        end
    | VString s =>
        match lhs with
        | VString n => VBool (contains n s)
        | _ => VErr EInvalidOp
        end
    | _ => VErr EInvalidOp
    end).

(** [CelValue::index] (neg_index) *)
Definition index (obj idx : value) : value :=
  error_prop_or obj idx (fun obj idx =>
    match obj with
    | VList l =>
        match idx with
        | VUInt i => match znth l i with Some v => v | None => VErr EValue end
        | VInt i =>
            let j := if i <? 0 then zlen l + i else i in
            if j <? 0 then VErr EValue
            else match znth l j with Some v => v | None => VErr EValue end
        | _ => VErr EValue
        end
    | VMap m =>
        match idx with
        | VString k => match map_get m k with Some v => v | None => VErr (EAttribute k) end
        | _ => VErr EValue
        end
    | _ => VErr EValue
    end).

(** [CelValueDyn::access] (used by the compiler on constant objects) *)
Definition access (obj : value) (key : bytes) : value :=
  if is_err obj then obj else
  match obj with
  | VMap m => match map_get m key with Some v => v | None => VErr (EAttribute key) end
  | _ => VErr EInvalidOp
  end.

(** The 13 binary and 2 unary value operators, as named by the VM. *)
Inductive binop := OAdd | OSub | OMul | ODiv | OMod | OLt | OLe | OEq | ONe | OGe | OGt | OIn
                 | OOr | OAnd | OIndex.
Inductive unop := UNot | UNeg.

Definition binop_eval (o : binop) (a b : value) : value :=
  match o with
  | OAdd => add a b | OSub => sub a b | OMul => mul a b | ODiv => div a b | OMod => rem a b
  | OLt => lt a b | OLe => le a b | OEq => eq_ a b | ONe => neq a b | OGe => ge a b | OGt => gt a b
  | OIn => in_ a b | OOr => or_ a b | OAnd => and_ a b | OIndex => index a b
  end.

Definition unop_eval (o : unop) (a : value) : value :=
  match o with UNot => not_ a | UNeg => neg a end.
