(* Model/Lexer.v — rscel/src/compiler/string_scanner.rs and
   string_tokenizer.rs.  The source is a list of Unicode scalar values; the
   scanner counts characters ([column]) and newlines ([line]).  The tokenizer
   is lazy with one token of look-ahead, and [location()] is the scanner's
   position, so the state is explicit. *)
From Coq Require Import ZArith List Bool.
From Coq Require Import Floats.SpecFloat.
From Rscel Require Import Base.Prims Base.F64 Base.Text Model.Value.
From Rscel Require Export Base.FloatText.
Import ListNotations.
Open Scope Z_scope.

Definition chars := list Z.

Inductive fseg := FLit (s : chars) | FExpr (s : chars).

Inductive token :=
| TQuestion | TColon | TAdd | TMinus | TMultiply | TDivide | TMod | TNot | TDot | TComma
| TLBracket | TRBracket | TLBrace | TRBrace | TLParen | TRParen
| TLessThan | TGreaterThan | TOrOr | TAndAnd | TLessEqual | TGreaterEqual | TEqualEqual | TNotEqual
| TIn | TNull | TMatch | TCase
| TBoolLit (b : bool)
| TIntLit (v : Z)            (* u64 *)
| TUIntLit (v : Z)
| TFloatLit (f : f64)
| TStringLit (s : chars)
| TFStringLit (segs : list fseg)
| TByteStringLit (b : bytes)
| TIdent (s : chars).

Record loc := mkLoc { l_line : Z; l_col : Z }.
Record range := mkRange { r_start : loc; r_end : loc }.
Record tokloc := mkTok { t_tok : token; t_loc : range }.

(** StringScanner: remaining characters and position.  ([peek] does not move
    the position; the one-character buffer is therefore invisible.) *)
Record scanner := mkScan { sc_rest : chars; sc_line : Z; sc_col : Z }.

Definition sc_loc (s : scanner) : loc := mkLoc (sc_line s) (sc_col s).
Definition sc_peek (s : scanner) : option Z := match sc_rest s with c :: _ => Some c | [] => None end.
Definition sc_next (s : scanner) : option Z * scanner :=
  match sc_rest s with
  | [] => (None, s)
  | c :: r => (Some c, if c =? 10 then mkScan r (sc_line s + 1) 0 else mkScan r (sc_line s) (sc_col s + 1))
  end.

(** Lexing outcome: a syntax error carries the scanner position. *)
Inductive lres (A : Type) := LOk (a : A) (s : scanner) | LErr (l : loc) | LFuel.
Arguments LOk {A} _ _.
Arguments LErr {A} _.
Arguments LFuel {A}.

Definition is_alpha (c : Z) : bool := ((65 <=? c) && (c <=? 90)) || ((97 <=? c) && (c <=? 122)).
Definition is_ident_char (c : Z) : bool := is_alpha c || is_digit c || (c =? 95).
Definition is_hex (c : Z) : bool :=
  is_digit c || ((65 <=? c) && (c <=? 70)) || ((97 <=? c) && (c <=? 102)).
Definition hex_val (c : Z) : Z :=
  if is_digit c then c - 48 else if c <=? 70 then c - 55 else c - 87.

(** [parse_keywords_or_ident] *)
Fixpoint take_ident (fuel : nat) (s : scanner) (acc : chars) : chars * scanner :=
  match fuel with
  | O => (rev acc, s)
  | S f => match sc_peek s with
           | Some c => if is_ident_char c then take_ident f (snd (sc_next s)) (c :: acc) else (rev acc, s)
           | None => (rev acc, s)
           end
  end.

Definition chars_of_string (s : String.string) : chars := bytes_of_string s.
Definition chars_eqb := bytes_eqb.

Import Coq.Strings.String.StringSyntax.

Definition keyword_or_ident (first : Z) (w : chars) : token :=
  if (first =? 99) && chars_eqb w #"case" then TCase
  else if (first =? 102) && chars_eqb w #"false" then TBoolLit false
  else if (first =? 105) && chars_eqb w #"in" then TIn
  else if (first =? 109) && chars_eqb w #"match" then TMatch
  else if (first =? 110) && chars_eqb w #"null" then TNull
  else if (first =? 116) && chars_eqb w #"true" then TBoolLit true
  else TIdent w.

Definition lex_ident (first : Z) (s : scanner) : lres token :=
  let '(w, s') := take_ident (length (sc_rest s)) s [first] in
  LOk (keyword_or_ident first w) s'.

(** [extract_hex_val len]: exactly [len] hex digits, a Unicode scalar value. *)
Fixpoint hex_digits (n : nat) (s : scanner) (acc : Z) : lres Z :=
  match n with
  | O => LOk acc s
  | S n' => match sc_next s with
            | (Some c, s') => if is_hex c then hex_digits n' s' (acc * 16 + hex_val c) else LErr (sc_loc s')
            | (None, s') => LErr (sc_loc s')
            end
  end.

Definition extract_hex (n : nat) (s : scanner) : lres Z :=
  match hex_digits n s 0 with
  | LOk v s' => if is_scalar v then LOk v s' else LErr (sc_loc s')
  | LErr l => LErr l
  | LFuel => LFuel
  end.

(** Three-digit octal escape: the first digit is already consumed; the next
    two characters are taken whatever they are, then parsed in base 8. *)
Definition oct_val (c : Z) : option Z := if (48 <=? c) && (c <=? 55) then Some (c - 48) else None.
Definition octal3 (d0 : Z) (s : scanner) : lres Z :=
  match sc_next s with
  | (Some d1, s1) =>
      match sc_next s1 with
      | (Some d2, s2) =>
          match oct_val d0, oct_val d1, oct_val d2 with
          | Some a, Some b, Some c => LOk (a * 64 + b * 8 + c) s2
          | _, _, _ => LErr (sc_loc s2)
          end
      | (None, s2) => LErr (sc_loc s2)
      end
  | (None, s1) => LErr (sc_loc s1)
  end.

(** [parse_bytes_literal] *)
Fixpoint lex_bytes (fuel : nat) (q : Z) (s : scanner) (acc : bytes) : lres token :=
  match fuel with
  | O => LFuel
  | S f =>
    match sc_next s with
    | (None, s1) => LErr (sc_loc s1)
    | (Some c, s1) =>
      if c =? q then LOk (TByteStringLit (rev acc)) s1
      else if c =? 92 then
        match sc_next s1 with
        | (None, s2) => LErr (sc_loc s2)
        | (Some e, s2) =>
            let simple b := lex_bytes f q s2 (b :: acc) in
            if e =? 97 then simple 7 else if e =? 98 then simple 8 else if e =? 102 then simple 12
            else if e =? 110 then simple 10 else if e =? 114 then simple 13 else if e =? 116 then simple 9
            else if e =? 118 then simple 11
            else if (e =? 120) || (e =? 88) then
              match extract_hex 2 s2 with
              | LOk v s3 => lex_bytes f q s3 (v :: acc)       (* [as u8]: two hex digits fit *)
              | LErr l => LErr l
              | LFuel => LFuel
              end
            else if e =? 92 then simple 92 else if e =? 39 then simple 39 else if e =? 34 then simple 34
            else if is_digit e then
              match octal3 e s2 with
              | LOk v s3 => if v <=? 255 then lex_bytes f q s3 (v :: acc) else LErr (sc_loc s3)
              | LErr l => LErr l
              | LFuel => LFuel
              end
            else lex_bytes f q s2 (rev (utf8_encode_char e) ++ acc)
        end
      else lex_bytes f q s1 (rev (utf8_encode_char c) ++ acc)
    end
  end.

(** Body of an f-string expression segment: up to the matching '}'. *)
Fixpoint lex_fexpr (fuel : nat) (s : scanner) (depth : Z) (acc : chars) : lres chars :=
  match fuel with
  | O => LFuel
  | S f =>
    match sc_next s with
    | (None, s1) => LErr (sc_loc s1)
    | (Some c, s1) =>
        if c =? 125 then
          (if depth - 1 >? 0 then lex_fexpr f s1 (depth - 1) (125 :: acc) else LOk (rev acc) s1)
        else if c =? 123 then lex_fexpr f s1 (depth + 1) (123 :: acc)
        else lex_fexpr f s1 depth (c :: acc)
    end
  end.

(** [parse_string_literal starting is_raw is_format] *)
Fixpoint lex_string (fuel : nat) (q : Z) (raw fmt : bool) (s : scanner)
         (work : chars) (segs : list fseg) : lres token :=
  match fuel with
  | O => LFuel
  | S f =>
    match sc_next s with
    | (None, s1) => LErr (sc_loc s1)
    | (Some c, s1) =>
      if c =? q then
        match segs with
        | [] => LOk (TStringLit (rev work)) s1
        | _ => LOk (TFStringLit (rev (match work with [] => segs | _ => FLit (rev work) :: segs end))) s1
        end
      else if (c =? 92) && negb raw then
        match sc_next s1 with
        | (None, s2) => LErr (sc_loc s2)
        | (Some e, s2) =>
            let simple ch := lex_string f q raw fmt s2 (ch :: work) segs in
            let hexn n :=
              match extract_hex n s2 with
              | LOk v s3 => lex_string f q raw fmt s3 (v :: work) segs
              | LErr l => LErr l
              | LFuel => LFuel
              end in
            if e =? 97 then simple 7 else if e =? 98 then simple 8 else if e =? 102 then simple 12
            else if e =? 110 then simple 10 else if e =? 114 then simple 13 else if e =? 116 then simple 9
            else if e =? 117 then hexn 4%nat else if e =? 85 then hexn 8%nat
            else if e =? 118 then simple 11
            else if (e =? 120) || (e =? 88) then hexn 2%nat
            else if e =? 92 then simple 92 else if e =? 39 then simple 39 else if e =? 34 then simple 34
            else if is_digit e then
              match octal3 e s2 with
              | LOk v s3 => if is_scalar v then lex_string f q raw fmt s3 (v :: work) segs else LErr (sc_loc s3)
              | LErr l => LErr l
              | LFuel => LFuel
              end
            else simple e
        end
      else if (c =? 123) && fmt then
        match sc_next s1 with
        | (None, s2) => LErr (sc_loc s2)
        | (Some e, s2) =>
            if e =? 123 then lex_string f q raw fmt s2 (123 :: work) segs
            else
              let segs1 := match work with [] => segs | _ => FLit (rev work) :: segs end in
              if e =? 125 then LErr (sc_loc s2)
              else
                match lex_fexpr f s2 1 [e] with
                | LOk body s3 => lex_string f q raw fmt s3 [] (FExpr body :: segs1)
                | LErr l => LErr l
                | LFuel => LFuel
                end
        end
      else if (c =? 125) && fmt then
        match sc_next s1 with
        | (None, s2) => LErr (sc_loc s2)
        | (Some e, s2) => if e =? 125 then lex_string f q raw fmt s2 (125 :: work) segs else LErr (sc_loc s2)
        end
      else lex_string f q raw fmt s1 (c :: work) segs
    end
  end.

(** [parse_number_or_token]: collects the text, then parses it. *)
Record numst := mkNum { n_work : chars; n_float : bool; n_exp : bool; n_uns : bool; n_hex : bool }.

Fixpoint collect_number (fuel : nat) (s : scanner) (st : numst) : numst * scanner :=
  match fuel with
  | O => (st, s)
  | S f =>
    match sc_peek s with
    | None => (st, s)
    | Some c =>
      let s1 := snd (sc_next s) in
      if is_digit c || (n_hex st && is_hex c)
      then collect_number f s1 (mkNum (c :: n_work st) (n_float st) (n_exp st) (n_uns st) (n_hex st))
      else if (c =? 101) || (c =? 69) || (c =? 46) then
        if ((c =? 46) && n_float st) || n_exp st then (st, s)
        else
          let st1 := mkNum (c :: n_work st) true ((c =? 101) || (c =? 69)) (n_uns st) (n_hex st) in
          match sc_peek s1 with
          | Some p => if (p =? 43) || (p =? 45)
                      then collect_number f (snd (sc_next s1)) (mkNum (p :: n_work st1) true (n_exp st1) (n_uns st1) (n_hex st1))
                      else collect_number f s1 st1
          | None => collect_number f s1 st1
          end
      else if (c =? 117) || (c =? 85) then
        if n_float st then (st, s)
        else (mkNum (n_work st) (n_float st) (n_exp st) true (n_hex st), s1)
      else if (c =? 120) || (c =? 88) then
        if chars_eqb (rev (n_work st)) [48] && negb (n_hex st)
        then collect_number f s1 (mkNum (120 :: n_work st) (n_float st) (n_exp st) (n_uns st) true)
        else (st, s)
      else (st, s)
    end
  end.

Definition digits_value_base (base : Z) (ds : chars) : option Z :=
  match ds with
  | [] => None
  | _ => fold_left (fun acc c => match acc with
                                 | Some a => if (if base =? 16 then is_hex c else is_digit c)
                                             then Some (a * base + hex_val c) else None
                                 | None => None end) ds (Some 0)
  end.

(** [trim_start_matches("0x")] removes every leading "0x". *)
Fixpoint trim_0x (fuel : nat) (s : chars) : chars :=
  match fuel with
  | O => s
  | S f => match s with 48 :: 120 :: r => trim_0x f r | _ => s end
  end.

Definition lex_number (first : chars) (is_float0 : bool) (s : scanner) : lres token :=
  let '(st, s1) := collect_number (length (sc_rest s)) s (mkNum (rev first) is_float0 false false false) in
  let text := rev (n_work st) in
  let digits := if n_hex st then trim_0x (length text) text else text in
  let base := if n_hex st then 16 else 10 in
  if n_uns st then
    match digits_value_base base digits with
    | Some v => if in_u64 v then LOk (TUIntLit v) s1 else LErr (sc_loc s1)
    | None => LErr (sc_loc s1)
    end
  else if n_float st then
    match parse_float_text text with
    | Some f => LOk (TFloatLit f) s1
    | None => LErr (sc_loc s1)
    end
  else
    match digits_value_base base digits with
    | Some v => if in_u64 v then LOk (TIntLit v) s1 else LErr (sc_loc s1)
    | None => LErr (sc_loc s1)
    end.

(** Skip ' ', '\t', '\n' and return the first other character. *)
Fixpoint skip_ws (fuel : nat) (s : scanner) : loc * option Z * scanner :=
  match fuel with
  | O => (sc_loc s, None, s)
  | S f =>
    let start := sc_loc s in
    match sc_next s with
    | (Some c, s1) => if (c =? 32) || (c =? 9) || (c =? 10) then skip_ws f s1 else (start, Some c, s1)
    | (None, s1) => (start, None, s1)
    end
  end.

(** [collect_next_token]; [None] at end of input. *)
Definition collect_token (s : scanner) : lres (option tokloc) :=
  let n := S (length (sc_rest s)) in
  let '(start, oc, s1) := skip_ws n s in
  match oc with
  | None => LOk None s1
  | Some c =>
    let one t := LOk t s1 in
    let two (nx : Z) (t2 : token) (t1 : option token) : lres token :=
      match sc_peek s1 with
      | Some p => if p =? nx then LOk t2 (snd (sc_next s1))
                  else match t1 with Some t => LOk t s1 | None => LErr (sc_loc s1) end
      | None => match t1 with Some t => LOk t s1 | None => LErr (sc_loc s1) end
      end in
    let quoted (k : scanner -> Z -> lres token) (dflt : lres token) : lres token :=
      match sc_peek s1 with
      | Some p => if (p =? 39) || (p =? 34) then k (snd (sc_next s1)) p else dflt
      | None => dflt
      end in
    let r : lres token :=
      if c =? 63 then one TQuestion else if c =? 58 then one TColon else if c =? 43 then one TAdd
      else if c =? 45 then one TMinus else if c =? 42 then one TMultiply else if c =? 47 then one TDivide
      else if c =? 37 then one TMod
      else if c =? 33 then two 61 TNotEqual (Some TNot)
      else if c =? 46 then
        match sc_peek s1 with
        | Some v => if is_digit v then lex_number [46] true s1 else one TDot
        | None => one TDot
        end
      else if c =? 44 then one TComma else if c =? 91 then one TLBracket else if c =? 93 then one TRBracket
      else if c =? 123 then one TLBrace else if c =? 125 then one TRBrace
      else if c =? 40 then one TLParen else if c =? 41 then one TRParen
      else if c =? 60 then two 61 TLessEqual (Some TLessThan)
      else if c =? 62 then two 61 TGreaterEqual (Some TGreaterThan)
      else if c =? 61 then two 61 TEqualEqual None
      else if c =? 124 then two 124 TOrOr None
      else if c =? 38 then two 38 TAndAnd None
      else if c =? 98 then quoted (fun s2 q => lex_bytes n q s2 []) (lex_ident c s1)
      else if c =? 102 then quoted (fun s2 q => lex_string n q false true s2 [] []) (lex_ident c s1)
      else if c =? 114 then quoted (fun s2 q => lex_string n q true false s2 [] []) (lex_ident c s1)
      else if is_digit c then lex_number [c] false s1
      else if (c =? 39) || (c =? 34) then lex_string n c false false s1 [] []
      else if is_alpha c || (c =? 95) then lex_ident c s1
      else LErr (sc_loc s1)
    in
    match r with
    | LOk t s2 => LOk (Some (mkTok t (mkRange start (sc_loc s2)))) s2
    | LErr l => LErr l
    | LFuel => LFuel
    end
  end.

(** StringTokenizer: scanner, one buffered token, eof flag. *)
Record tokenizer := mkTz { tz_scan : scanner; tz_cur : option tokloc; tz_eof : bool }.

Definition tz_init (src : chars) : tokenizer := mkTz (mkScan src 0 0) None false.
Definition tz_loc (t : tokenizer) : loc := sc_loc (tz_scan t).

(** [collect_next_token] as seen through the eof flag: once the end was
    seen the scanner still executes one [next()] (a no-op at end of input). *)
Definition tz_collect (t : tokenizer) : lres (option tokloc) * bool :=
  if tz_eof t then (LOk None (tz_scan t), true)
  else match collect_token (tz_scan t) with
       | LOk None s => (LOk None s, true)
       | r => (r, false)
       end.

Inductive tres (A : Type) := TOk (a : A) (t : tokenizer) | TErr (l : loc) | TFuel.
Arguments TOk {A} _ _.
Arguments TErr {A} _.
Arguments TFuel {A}.

Definition tz_peek (t : tokenizer) : tres (option tokloc) :=
  match tz_cur t with
  | Some x => TOk (Some x) t
  | None =>
      match tz_collect t with
      | (LOk o s, eof) => TOk o (mkTz s o eof)
      | (LErr l, _) => TErr l
      | (LFuel, _) => TFuel
      end
  end.

Definition tz_next (t : tokenizer) : tres (option tokloc) :=
  match tz_cur t with
  | Some x => TOk (Some x) (mkTz (tz_scan t) None (tz_eof t))
  | None =>
      match tz_collect t with
      | (LOk o s, eof) => TOk o (mkTz s None eof)
      | (LErr l, _) => TErr l
      | (LFuel, _) => TFuel
      end
  end.

(** Eager lexing of a whole source (used by C13/C18 and by the parser proofs). *)
Fixpoint lex_all (fuel : nat) (s : scanner) (acc : list tokloc) : lres (list tokloc) :=
  match fuel with
  | O => LFuel
  | S f => match collect_token s with
           | LOk (Some t) s1 => lex_all f s1 (t :: acc)
           | LOk None s1 => LOk (rev acc) s1
           | LErr l => LErr l
           | LFuel => LFuel
           end
  end.

Definition lex (src : chars) : lres (list tokloc) := lex_all (S (length src)) (mkScan src 0 0) [].
