(* DateTime<Utc>::to_rfc3339 (SecondsFormat::AutoSi, "+00:00"): year as {:04} within 0..9999, else {:+05} *)
From Coq Require Import ZArith List Bool.
From Rscel Require Import Base.Prims Base.Text Model.Value Model.Time.
Import ListNotations.
Open Scope Z_scope.

Definition pad (width : nat) (n : Z) : bytes :=
  let ds := dec_of_nonneg n in repeat 48 (width - length ds) ++ ds.

Definition year_text (y : Z) : bytes :=
  if (0 <=? y) && (y <=? 9999) then pad 4 y
  else (if y <? 0 then 45 else 43) :: pad 4 (Z.abs y).

Definition fraction_text (sub : Z) : bytes :=
  if sub =? 0 then []
  else if sub mod 1000000 =? 0 then 46 :: pad 3 (sub / 1000000)
  else if sub mod 1000 =? 0 then 46 :: pad 6 (sub / 1000)
  else 46 :: pad 9 sub.

Definition rfc3339_of_ns (ns : Z) : bytes :=
  year_text (t_year ns) ++ [45] ++ pad 2 (t_month0 ns + 1) ++ [45] ++ pad 2 (t_day ns) ++ [84]
  ++ pad 2 (t_hour ns) ++ [58] ++ pad 2 (t_minute ns) ++ [58] ++ pad 2 (t_second ns)
  ++ fraction_text (ns mod 1000000000) ++ [43; 48; 48; 58; 48; 48].
