//! Canonical text of the exposed syntax tree (same format as ocaml/astprint.ml).
use crate::codec::{f64_bits_canon, hex};
use rscel::*;

fn rg(r: SourceRange) -> String {
    format!(
        "@{}:{}-{}:{}",
        r.start().line(),
        r.start().col(),
        r.end().line(),
        r.end().col()
    )
}

pub fn expr(o: &mut String, e: &AstNode<Expr>) {
    match e.node() {
        Expr::Ternary {
            condition,
            true_clause,
            false_clause,
        } => {
            o.push_str(&format!("(Tern{} ", rg(e.range())));
            cor(o, condition);
            o.push(' ');
            cor(o, true_clause);
            o.push(' ');
            expr(o, false_clause);
            o.push(')');
        }
        Expr::Match { condition, cases } => {
            o.push_str(&format!("(Match{} ", rg(e.range())));
            expr(o, condition);
            for c in cases {
                o.push_str(&format!(" (Case{} ", rg(c.range())));
                pattern(o, &c.node().pattern);
                o.push(' ');
                expr(o, &c.node().expr);
                o.push(')');
            }
            o.push(')');
        }
        Expr::Unary(c) => {
            o.push_str(&format!("(EU{} ", rg(e.range())));
            cor(o, c);
            o.push(')');
        }
    }
}

fn pattern(o: &mut String, p: &AstNode<MatchPattern>) {
    match p.node() {
        MatchPattern::Cmp { op, or } => {
            o.push_str(&format!("(PCmp{} {} {:?} ", rg(p.range()), rg(op.range()), op.node()));
            cor(o, or);
            o.push(')');
        }
        MatchPattern::Type(t) => {
            o.push_str(&format!("(PType{} {} {:?})", rg(p.range()), rg(t.range()), t.node()))
        }
        MatchPattern::Any(a) => o.push_str(&format!("(PAny{} {})", rg(p.range()), rg(a.range()))),
    }
}

fn cor(o: &mut String, e: &AstNode<ConditionalOr>) {
    match e.node() {
        ConditionalOr::Binary { lhs, rhs } => {
            o.push_str(&format!("(Or{} ", rg(e.range())));
            cor(o, lhs);
            o.push(' ');
            cand(o, rhs);
            o.push(')');
        }
        ConditionalOr::Unary(a) => {
            o.push_str(&format!("(OrU{} ", rg(e.range())));
            cand(o, a);
            o.push(')');
        }
    }
}

fn cand(o: &mut String, e: &AstNode<ConditionalAnd>) {
    match e.node() {
        ConditionalAnd::Binary { lhs, rhs } => {
            o.push_str(&format!("(And{} ", rg(e.range())));
            cand(o, lhs);
            o.push(' ');
            rel(o, rhs);
            o.push(')');
        }
        ConditionalAnd::Unary(a) => {
            o.push_str(&format!("(AndU{} ", rg(e.range())));
            rel(o, a);
            o.push(')');
        }
    }
}

fn rel(o: &mut String, e: &AstNode<Relation>) {
    match e.node() {
        Relation::Binary { lhs, op, rhs } => {
            o.push_str(&format!("(Rel{} {:?} ", rg(e.range()), op));
            rel(o, lhs);
            o.push(' ');
            addn(o, rhs);
            o.push(')');
        }
        Relation::Unary(a) => {
            o.push_str(&format!("(RelU{} ", rg(e.range())));
            addn(o, a);
            o.push(')');
        }
    }
}

fn addn(o: &mut String, e: &AstNode<Addition>) {
    match e.node() {
        Addition::Binary { lhs, op, rhs } => {
            o.push_str(&format!("(AddB{} {:?} ", rg(e.range()), op));
            addn(o, lhs);
            o.push(' ');
            mult(o, rhs);
            o.push(')');
        }
        Addition::Unary(a) => {
            o.push_str(&format!("(AddU{} ", rg(e.range())));
            mult(o, a);
            o.push(')');
        }
    }
}

fn mult(o: &mut String, e: &AstNode<Multiplication>) {
    match e.node() {
        Multiplication::Binary { lhs, op, rhs } => {
            o.push_str(&format!("(MulB{} {:?} ", rg(e.range()), op));
            mult(o, lhs);
            o.push(' ');
            unary(o, rhs);
            o.push(')');
        }
        Multiplication::Unary(a) => {
            o.push_str(&format!("(MulU{} ", rg(e.range())));
            unary(o, a);
            o.push(')');
        }
    }
}

fn notlist(o: &mut String, e: &AstNode<NotList>) {
    match e.node() {
        NotList::List { tail } => {
            o.push_str(&format!("(OL{} ", rg(e.range())));
            notlist(o, tail);
            o.push(')');
        }
        NotList::EmptyList => o.push_str(&format!("(OE{})", rg(e.range()))),
    }
}

fn neglist(o: &mut String, e: &AstNode<NegList>) {
    match e.node() {
        NegList::List { tail } => {
            o.push_str(&format!("(OL{} ", rg(e.range())));
            neglist(o, tail);
            o.push(')');
        }
        NegList::EmptyList => o.push_str(&format!("(OE{})", rg(e.range()))),
    }
}

fn unary(o: &mut String, e: &AstNode<Unary>) {
    match e.node() {
        Unary::Member(m) => {
            o.push_str(&format!("(UM{} ", rg(e.range())));
            member(o, m);
            o.push(')');
        }
        Unary::NotMember { nots, member: m } => {
            o.push_str(&format!("(UNot{} ", rg(e.range())));
            notlist(o, nots);
            o.push(' ');
            member(o, m);
            o.push(')');
        }
        Unary::NegMember { negs, member: m } => {
            o.push_str(&format!("(UNeg{} ", rg(e.range())));
            neglist(o, negs);
            o.push(' ');
            member(o, m);
            o.push(')');
        }
    }
}

fn member(o: &mut String, e: &AstNode<Member>) {
    o.push_str(&format!("(Mem{} ", rg(e.range())));
    primary(o, &e.node().primary);
    for m in e.node().member.iter() {
        o.push(' ');
        match m.node() {
            MemberPrime::MemberAccess { ident } => o.push_str(&format!(
                "(Acc{} {} {})",
                rg(m.range()),
                rg(ident.range()),
                hex(ident.node().0.as_bytes())
            )),
            MemberPrime::Call { call } => {
                o.push_str(&format!("(Call{}{}", rg(m.range()), rg(call.range())));
                for a in call.node().exprs.iter() {
                    o.push(' ');
                    expr(o, a);
                }
                o.push(')');
            }
            MemberPrime::ArrayAccess { access } => {
                o.push_str(&format!("(Idx{} ", rg(m.range())));
                expr(o, access);
                o.push(')');
            }
            MemberPrime::Empty => o.push_str("(Empty)"),
        }
    }
    o.push(')');
}

fn primary(o: &mut String, e: &AstNode<Primary>) {
    match e.node() {
        Primary::Type => o.push_str("(PrimType)"),
        Primary::Ident(i) => o.push_str(&format!("(Id{} {})", rg(e.range()), hex(i.0.as_bytes()))),
        Primary::Parens(x) => {
            o.push_str(&format!("(Par{} ", rg(e.range())));
            expr(o, x);
            o.push(')');
        }
        Primary::ListConstruction(l) => {
            o.push_str(&format!("(List{}{}", rg(e.range()), rg(l.range())));
            for a in l.node().exprs.iter() {
                o.push(' ');
                expr(o, a);
            }
            o.push(')');
        }
        Primary::ObjectInit(oi) => {
            o.push_str(&format!("(Obj{}{}", rg(e.range()), rg(oi.range())));
            for i in oi.node().inits.iter() {
                o.push_str(&format!(" (Init{} ", rg(i.range())));
                expr(o, &i.node().key);
                o.push(' ');
                expr(o, &i.node().value);
                o.push(')');
            }
            o.push(')');
        }
        Primary::Literal(l) => {
            o.push_str(&format!("(Lit{} ", rg(e.range())));
            match l {
                LiteralsAndKeywords::NullLit => o.push_str("Null"),
                LiteralsAndKeywords::IntegerLit(v) => o.push_str(&format!("Int:{}", v)),
                LiteralsAndKeywords::UnsignedLit(v) => o.push_str(&format!("UInt:{}", v)),
                LiteralsAndKeywords::FloatingLit(f) => {
                    o.push_str(&format!("Float:{:016x}", f64_bits_canon(*f)))
                }
                LiteralsAndKeywords::FStringList(segs) => {
                    o.push_str("FStr:");
                    let v = serde_json::to_value(segs).unwrap();
                    for (i, sg) in v.as_array().unwrap().iter().enumerate() {
                        if i > 0 {
                            o.push(',');
                        }
                        if let Some(s) = sg.get("Lit") {
                            o.push_str(&format!("L{}", hex(s.as_str().unwrap().as_bytes())));
                        } else if let Some(s) = sg.get("Expr") {
                            o.push_str(&format!("E{}", hex(s.as_str().unwrap().as_bytes())));
                        }
                    }
                }
                LiteralsAndKeywords::StringLit(s) => o.push_str(&format!("Str:{}", hex(s.as_bytes()))),
                LiteralsAndKeywords::ByteStringLit(b) => o.push_str(&format!("Bytes:{}", hex(b))),
                LiteralsAndKeywords::BooleanLit(b) => o.push_str(if *b { "Bool:1" } else { "Bool:0" }),
                other => o.push_str(&format!("Other:{:?}", other)),
            }
            o.push(')');
        }
    }
}
