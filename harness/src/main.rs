//! Runs the implementation (current /repo working tree) on a case file:
//! one case per line "<kind> <payload tokens>", one result line per case.
//! Usage: harness <cases> <out> [start]
//! Results are flushed per case so that an abort (stack overflow) identifies
//! the case that died: the caller restarts at the following case.
mod astprint;
mod codec;
use codec::*;
use rscel::{CelValue, CelValueDyn};
use std::io::{BufRead, BufWriter, Write};
use std::panic::{catch_unwind, AssertUnwindSafe};

fn binop(name: &str, a: CelValue, b: CelValue) -> Result<CelValue, String> {
    Ok(match name {
        "add" => a + b,
        "sub" => a - b,
        "mul" => a * b,
        "div" => a / b,
        "mod" => a % b,
        "lt" => a.lt(b),
        "le" => a.le(b),
        "eq" => CelValueDyn::eq(&a, &b),
        "ne" => a.neq(b),
        "ge" => a.ge(b),
        "gt" => a.gt(b),
        "in" => a.in_(b),
        "or" => a.or(&b),
        "and" => a.and(b),
        "index" => a.index(b),
        _ => return Err(format!("bad binop {}", name)),
    })
}

fn program_from_code(code: Vec<rscel::ByteCode>) -> Result<rscel::Program, String> {
    // CelByteCode is not nameable from outside the crate, but it is
    // From<Vec<ByteCode>> and inference finds it.
    Ok(rscel::Program::new(rscel::ProgramDetails::new(), code.into()))
}

fn expect(t: &mut Toks, s: &str) -> Result<(), String> {
    let x = t.next()?;
    if x != s {
        return Err(format!("expected {} got {}", s, x));
    }
    Ok(())
}

#[derive(Clone)]
enum UFun {
    Const(CelValue),
    Arg0,
    This,
    Args,
}

thread_local! {
    static CALL_LOG: std::cell::RefCell<Vec<(String, CelValue, Vec<CelValue>)>> = std::cell::RefCell::new(Vec::new());
}

fn run_ctx(
    entry: &str,
    progs: Vec<(String, rscel::Program)>,
    binds: Vec<(String, CelValue)>,
    ufuncs: Vec<(String, UFun)>,
) -> String {
    let mut ctx = rscel::CelContext::new();
    for (n, p) in progs.into_iter() {
        ctx.add_program(&n, p);
    }
    CALL_LOG.with(|l| l.borrow_mut().clear());
    let closures: Vec<(String, Box<rscel::RsCelFunction>)> = ufuncs
        .into_iter()
        .map(|(n, u)| {
            let name = n.clone();
            let f: Box<rscel::RsCelFunction> = Box::new(move |this: CelValue, args: Vec<CelValue>| {
                CALL_LOG.with(|l| l.borrow_mut().push((name.clone(), this.clone(), args.clone())));
                match &u {
                    UFun::Const(v) => v.clone(),
                    UFun::Arg0 => args.get(0).cloned().unwrap_or(CelValue::Null),
                    UFun::This => this,
                    UFun::Args => CelValue::List(args),
                }
            });
            (n, f)
        })
        .collect();
    let mut bctx = rscel::BindContext::new();
    for (k, v) in binds.into_iter() {
        bctx.bind_param(&k, v);
    }
    for (n, f) in closures.iter() {
        bctx.bind_func(n, f.as_ref());
    }
    let r = ctx.exec(entry, &bctx);
    let mut out = match r {
        Ok(v) => format!("OK {}", value_string(&v)),
        Err(e) => format!("ERR {}", print_err(&e)),
    };
    out.push_str(" LOG(");
    CALL_LOG.with(|l| {
        for (n, this, args) in l.borrow().iter() {
            out.push(' ');
            out.push_str(&hex(n.as_bytes()));
            out.push(' ');
            print_value(&mut out, this);
            out.push(' ');
            print_value(&mut out, &CelValue::List(args.clone()));
        }
    });
    out.push_str(" )");
    out
}

fn parse_binds(t: &mut Toks) -> Result<Vec<(String, CelValue)>, String> {
    expect(t, "B(")?;
    let mut v = Vec::new();
    loop {
        if t.peek() == Some(")") {
            t.next()?;
            break;
        }
        let n = unhex_str(t.next()?)?;
        v.push((n, parse_value(t)?));
    }
    Ok(v)
}

fn parse_ufuncs(t: &mut Toks) -> Result<Vec<(String, UFun)>, String> {
    expect(t, "F(")?;
    let mut v = Vec::new();
    loop {
        if t.peek() == Some(")") {
            t.next()?;
            break;
        }
        let n = unhex_str(t.next()?)?;
        let u = match t.next()? {
            "const" => UFun::Const(parse_value(t)?),
            "arg0" => UFun::Arg0,
            "this" => UFun::This,
            "args" => UFun::Args,
            s => return Err(format!("ufun {}", s)),
        };
        v.push((n, u));
    }
    Ok(v)
}

fn print_token(out: &mut String, t: &rscel::verif_hooks::Token) {
    use rscel::verif_hooks::{FStringSegment, Token};
    match t {
        Token::BoolLit(b) => out.push_str(if *b { "Bool:1" } else { "Bool:0" }),
        Token::IntLit(v) => out.push_str(&format!("Int:{}", v)),
        Token::UIntLit(v) => out.push_str(&format!("UInt:{}", v)),
        Token::FloatLit(f) => out.push_str(&format!("Float:{:016x}", f64_bits_canon(*f))),
        Token::StringLit(s) => out.push_str(&format!("Str:{}", hex(s.as_bytes()))),
        Token::FStringLit(segs) => {
            out.push_str("FStr:");
            for (i, sg) in segs.iter().enumerate() {
                if i > 0 {
                    out.push(',');
                }
                match sg {
                    FStringSegment::Lit(s) => out.push_str(&format!("L{}", hex(s.as_bytes()))),
                    FStringSegment::Expr(s) => out.push_str(&format!("E{}", hex(s.as_bytes()))),
                }
            }
        }
        Token::ByteStringLit(b) => out.push_str(&format!("Bytes:{}", hex(b.as_slice()))),
        Token::Ident(s) => out.push_str(&format!("Ident:{}", hex(s.as_bytes()))),
        other => out.push_str(&format!("{:?}", other)),
    }
}

fn lex_case(src: &str) -> String {
    use rscel::Tokenizer;
    let mut tz = rscel::StringTokenizer::with_input(src);
    let mut out = String::new();
    loop {
        match tz.next() {
            Ok(Some(t)) => {
                print_token(&mut out, &t.token);
                out.push_str(&format!(
                    "@{}:{}-{}:{} ",
                    t.loc.start().line(),
                    t.loc.start().col(),
                    t.loc.end().line(),
                    t.loc.end().col()
                ));
            }
            Ok(None) => {
                let l = tz.location();
                out.push_str(&format!("END@{}:{}", l.line(), l.col()));
                break;
            }
            Err(e) => {
                out.push_str(&format!("ERR@{}:{}", e.loc().line(), e.loc().col()));
                break;
            }
        }
    }
    out
}

fn run_case(line: &str) -> Result<String, String> {
    let mut t = Toks::new(line);
    let kind = t.next()?;
    match kind {
        "binop" => {
            let name = t.next()?;
            let a = parse_value(&mut t)?;
            let b = parse_value(&mut t)?;
            Ok(value_string(&binop(name, a, b)?))
        }
        "unop" => {
            let name = t.next()?;
            let a = parse_value(&mut t)?;
            Ok(value_string(&match name {
                "not" => !a,
                "neg" => -a,
                _ => return Err("bad unop".to_string()),
            }))
        }
        "ord" => {
            let a = parse_value(&mut t)?;
            let b = parse_value(&mut t)?;
            Ok(match a.ord(b) {
                Ok(Some(std::cmp::Ordering::Less)) => "lt".to_string(),
                Ok(Some(std::cmp::Ordering::Equal)) => "eq".to_string(),
                Ok(Some(std::cmp::Ordering::Greater)) => "gt".to_string(),
                Ok(None) => "none".to_string(),
                Err(e) => format!("ERR {}", print_err(&e)),
            })
        }
        "peq" => {
            let a = parse_value(&mut t)?;
            let b = parse_value(&mut t)?;
            Ok(if a == b { "b1" } else { "b0" }.to_string())
        }
        "truthy" => {
            let a = parse_value(&mut t)?;
            Ok(if a.is_truthy() { "b1" } else { "b0" }.to_string())
        }
        "echo" => Ok(value_string(&parse_value(&mut t)?)),
        "run" => {
            // run <entry> P( name C( .. ) ... ) B( name value ... ) F( name kind ... )
            let entry = unhex_str(t.next()?)?;
            expect(&mut t, "P(")?;
            let mut progs = Vec::new();
            loop {
                if t.peek() == Some(")") {
                    t.next()?;
                    break;
                }
                let n = unhex_str(t.next()?)?;
                expect(&mut t, "C(")?;
                let code = parse_code_body(&mut t)?;
                progs.push((n, program_from_code(code)?));
            }
            let binds = parse_binds(&mut t)?;
            let ufuncs = parse_ufuncs(&mut t)?;
            Ok(run_ctx(&entry, progs, binds, ufuncs))
        }
        "evalsrc" => {
            // evalsrc <entry> S( name src ... ) B( ... ) F( ... ): programs from source text
            let entry = unhex_str(t.next()?)?;
            expect(&mut t, "S(")?;
            let mut progs = Vec::new();
            let mut err: Option<String> = None;
            loop {
                if t.peek() == Some(")") {
                    t.next()?;
                    break;
                }
                let n = unhex_str(t.next()?)?;
                let src = unhex_str(t.next()?)?;
                if err.is_none() {
                    match rscel::Program::from_source(&src) {
                        Ok(p) => progs.push((n, p)),
                        Err(e) => err = Some(format!("CERR {} {}", hex(n.as_bytes()), print_err(&e))),
                    }
                }
            }
            let binds = parse_binds(&mut t)?;
            let ufuncs = parse_ufuncs(&mut t)?;
            Ok(match err {
                Some(e) => e,
                None => run_ctx(&entry, progs, binds, ufuncs),
            })
        }
        "serde" => {
            // serde <fmt> <src> B( ... ): compile, round-trip through json|bincode, compare
            // bytecode/source/params and the result of execution under the bindings
            let fmt = t.next()?;
            let src = unhex_str(t.next()?)?;
            let binds = parse_binds(&mut t)?;
            let prog = match rscel::Program::from_source(&src) {
                Ok(p) => p,
                Err(e) => return Ok(format!("CERR {}", print_err(&e))),
            };
            let back: rscel::Program = match fmt {
                "json" => {
                    let txt = match serde_json::to_string(&prog) {
                        Ok(x) => x,
                        Err(e) => return Ok(format!("SERFAIL {}", e)),
                    };
                    match serde_json::from_str(&txt) {
                        Ok(p) => p,
                        Err(e) => return Ok(format!("DEFAIL {}", e)),
                    }
                }
                "bincode" => {
                    let bytes = match bincode::serialize(&prog) {
                        Ok(x) => x,
                        Err(e) => return Ok(format!("SERFAIL {}", e)),
                    };
                    match bincode::deserialize(&bytes) {
                        Ok(p) => p,
                        Err(e) => return Ok(format!("DEFAIL {}", e)),
                    }
                }
                _ => return Err("fmt".to_string()),
            };
            let code_of = |p: &rscel::Program| {
                let mut out = String::from("C(");
                for i in p.bytecode().iter() {
                    out.push(' ');
                    print_instr(&mut out, i);
                }
                out.push_str(" )");
                out
            };
            let mut pa: Vec<String> = prog.params().iter().map(|x| x.to_string()).collect();
            let mut pb: Vec<String> = back.params().iter().map(|x| x.to_string()).collect();
            pa.sort();
            pb.sort();
            let same_code = code_of(&prog) == code_of(&back);
            let same_meta = prog.source() == back.source() && pa == pb;
            let r1 = run_ctx("main", vec![("main".to_string(), prog)], binds.clone(), vec![]);
            let r2 = run_ctx("main", vec![("main".to_string(), back)], binds, vec![]);
            Ok(format!(
                "code={} meta={} exec={} | {} | {}",
                same_code,
                same_meta,
                r1 == r2,
                r1,
                r2
            ))
        }
        "func" => {
            let name = unhex_str(t.next()?)?;
            let this = parse_value(&mut t)?;
            let args = match parse_value(&mut t)? {
                CelValue::List(l) => l,
                _ => return Err("args".to_string()),
            };
            let b = rscel::BindContext::new();
            Ok(match b.get_func(&name) {
                Some(f) => value_string(&f(this, args)),
                None => "NOFUNC".to_string(),
            })
        }
        "ctor" => {
            // type constructor through the VM: args are pushed as plain values
            let name = unhex_str(t.next()?)?;
            let args = match parse_value(&mut t)? {
                CelValue::List(l) => l,
                _ => return Err("args".to_string()),
            };
            let n = args.len();
            let mut code: Vec<rscel::ByteCode> = args.into_iter().rev().map(rscel::ByteCode::Push).collect();
            code.push(rscel::ByteCode::Push(CelValue::Type(name)));
            code.push(rscel::ByteCode::Call(n as u32));
            let prog = program_from_code(code)?;
            let r = run_ctx("main", vec![("main".to_string(), prog)], vec![], vec![]);
            let r = r.trim_end_matches(" LOG( )").to_string();
            Ok(match r.strip_prefix("OK ") {
                Some(rest) => rest.to_string(),
                None => r.strip_prefix("ERR ").unwrap_or(&r).to_string(),
            })
        }
        "lex" => {
            let src = match parse_value(&mut t)? {
                CelValue::String(s) => s,
                _ => return Err("lex: source".to_string()),
            };
            Ok(lex_case(&src))
        }
        "parse" => {
            let src = match parse_value(&mut t)? {
                CelValue::String(s) => s,
                _ => return Err("parse: source".to_string()),
            };
            Ok(match rscel::Program::from_source(&src) {
                Ok(p) => {
                    let mut out = String::from("OK ");
                    astprint::expr(&mut out, p.ast().ok_or("no ast")?);
                    out
                }
                Err(e) => format!("ERR {}", print_err(&e)),
            })
        }
        "filterparams" => {
            // filterparams <src> B( ... ): params left after ProgramDetails::filter_from_bindings
            let src = unhex_str(t.next()?)?;
            let binds = parse_binds(&mut t)?;
            let prog = match rscel::Program::from_source(&src) {
                Ok(p) => p,
                Err(e) => return Ok(format!("CERR {}", print_err(&e))),
            };
            let mut b = rscel::BindContext::new();
            for (k, v) in binds.into_iter() {
                b.bind_param(&k, v);
            }
            let mut d = prog.into_details();
            d.filter_from_bindings(&b);
            let mut ps: Vec<String> = d.params().iter().map(|x| x.to_string()).collect();
            ps.sort();
            Ok(format!("PARAMS( {} )", ps.iter().map(|x| hex(x.as_bytes())).collect::<Vec<_>>().join(" ")))
        }
        "serform" => {
            // serform json|bincode <src>: the serialized form of the compiled program (hex of the bytes)
            let fmt = t.next()?;
            let src = unhex_str(t.next()?)?;
            let prog = match rscel::Program::from_source(&src) {
                Ok(p) => p,
                Err(e) => return Ok(format!("CERR {}", print_err(&e))),
            };
            Ok(match fmt {
                "json" => match serde_json::to_string(&prog) {
                    Ok(x) => format!("OK {}", hex(x.as_bytes())),
                    Err(e) => format!("SERFAIL {}", e),
                },
                "bincode" => match bincode::serialize(&prog) {
                    Ok(x) => format!("OK {}", hex(&x)),
                    Err(e) => format!("SERFAIL {}", e),
                },
                _ => return Err("fmt".to_string()),
            })
        }
        "tosql" => {
            // tosql <src>: CEL -> SQL text through the to_sql extension
            use rscel_to_sql::IntoSqlBuilder;
            let src = unhex_str(t.next()?)?;
            let prog = match rscel::Program::from_source(&src) {
                Ok(p) => p,
                Err(e) => return Ok(format!("CERR {}", print_err(&e))),
            };
            let ast = match prog.ast() {
                Some(a) => a,
                None => return Ok("NOAST".to_string()),
            };
            let b = match ast.into_sql_builder() {
                Ok(b) => b,
                Err(_) => return Ok("NOSQL".to_string()),
            };
            Ok(match b.to_sql() {
                Ok(s) => format!("SQL {}", hex(s.as_bytes())),
                Err(_) => "NOSQL".to_string(),
            })
        }
        "jsonbind" => {
            // jsonbind <src> B( bound through a JSON object ) B( bound directly )
            let src = unhex_str(t.next()?)?;
            let jb = parse_binds(&mut t)?;
            let db = parse_binds(&mut t)?;
            fn to_json(v: &CelValue) -> Result<serde_json::Value, String> {
                Ok(match v {
                    CelValue::Int(i) => serde_json::Value::Number((*i).into()),
                    CelValue::UInt(u) => serde_json::Value::Number((*u).into()),
                    CelValue::Float(f) => serde_json::Value::Number(
                        serde_json::Number::from_f64(*f).ok_or("BADCASE non-finite float in JSON")?,
                    ),
                    CelValue::Bool(b) => serde_json::Value::Bool(*b),
                    CelValue::String(s) => serde_json::Value::String(s.clone()),
                    CelValue::Null => serde_json::Value::Null,
                    CelValue::List(l) => {
                        serde_json::Value::Array(l.iter().map(to_json).collect::<Result<Vec<_>, _>>()?)
                    }
                    CelValue::Map(m) => {
                        let mut o = serde_json::Map::new();
                        for (k, x) in m.iter() {
                            o.insert(k.clone(), to_json(x)?);
                        }
                        serde_json::Value::Object(o)
                    }
                    _ => return Err("BADCASE value has no JSON form".to_string()),
                })
            }
            let mut obj = serde_json::Map::new();
            for (k, v) in jb.iter() {
                obj.insert(k.clone(), to_json(v)?);
            }
            let mut ctx = rscel::CelContext::new();
            if let Err(e) = ctx.add_program_str("main", &src) {
                return Ok(format!("CERR {}", print_err(&e)));
            }
            let mut b = rscel::BindContext::new();
            for (k, v) in db.into_iter() {
                b.bind_param(&k, v);
            }
            if let Err(e) = b.bind_params_from_json_obj(serde_json::Value::Object(obj)) {
                return Ok(format!("BINDERR {}", print_err(&e)));
            }
            Ok(match ctx.exec("main", &b) {
                Ok(v) => format!("OK {}", value_string(&v)),
                Err(e) => format!("ERR {}", print_err(&e)),
            })
        }
        "history" => {
            // a sequence of operations over numbered contexts and binding sets
            use std::collections::HashMap;
            let mut ctxs: HashMap<i64, rscel::CelContext> = HashMap::new();
            let mut binds: HashMap<i64, rscel::BindContext> = HashMap::new();
            let mut outs: Vec<String> = Vec::new();
            while !t.done() {
                let op = t.next()?;
                match op {
                    "addp" => {
                        let c: i64 = t.next()?.parse().map_err(|_| "num")?;
                        let name = unhex_str(t.next()?)?;
                        let src = unhex_str(t.next()?)?;
                        let ctx = ctxs.entry(c).or_insert_with(rscel::CelContext::new);
                        outs.push(match ctx.add_program_str(&name, &src) {
                            Ok(()) => "-".to_string(),
                            Err(e) => format!("CERR {}", print_err(&e)),
                        });
                    }
                    "bind" => {
                        let b: i64 = t.next()?.parse().map_err(|_| "num")?;
                        let name = unhex_str(t.next()?)?;
                        let v = parse_value(&mut t)?;
                        binds.entry(b).or_insert_with(rscel::BindContext::new).bind_param(&name, v);
                        outs.push("-".to_string());
                    }
                    "clonec" => {
                        let f: i64 = t.next()?.parse().map_err(|_| "num")?;
                        let to: i64 = t.next()?.parse().map_err(|_| "num")?;
                        let c = ctxs.entry(f).or_insert_with(rscel::CelContext::new).clone();
                        ctxs.insert(to, c);
                        outs.push("-".to_string());
                    }
                    "cloneb" => {
                        let f: i64 = t.next()?.parse().map_err(|_| "num")?;
                        let to: i64 = t.next()?.parse().map_err(|_| "num")?;
                        let c = binds.entry(f).or_insert_with(rscel::BindContext::new).clone();
                        binds.insert(to, c);
                        outs.push("-".to_string());
                    }
                    "exec" => {
                        let c: i64 = t.next()?.parse().map_err(|_| "num")?;
                        let b: i64 = t.next()?.parse().map_err(|_| "num")?;
                        let name = unhex_str(t.next()?)?;
                        binds.entry(b).or_insert_with(rscel::BindContext::new);
                        let ctx = ctxs.entry(c).or_insert_with(rscel::CelContext::new);
                        let r = ctx.exec(&name, &binds[&b]);
                        outs.push(match r {
                            Ok(v) => format!("OK {}", value_string(&v)),
                            Err(e) => format!("ERR {}", print_err(&e)),
                        });
                    }
                    "params" => {
                        let c: i64 = t.next()?.parse().map_err(|_| "num")?;
                        let name = unhex_str(t.next()?)?;
                        let ctx = ctxs.entry(c).or_insert_with(rscel::CelContext::new);
                        outs.push(match ctx.program_details(&name) {
                            Some(d) => {
                                let mut ps: Vec<String> = d.params().iter().map(|x| x.to_string()).collect();
                                ps.sort();
                                format!("PARAMS( {} )", ps.iter().map(|x| hex(x.as_bytes())).collect::<Vec<_>>().join(" "))
                            }
                            None => "NOPROG".to_string(),
                        });
                    }
                    ";" => {}
                    o => return Err(format!("history op {}", o)),
                }
            }
            Ok(outs.join(" ; "))
        }
        "concurrent" => {
            // concurrent <threads> <repeats> <src> B( ... ): the same program on several threads, several times
            let nth: usize = t.next()?.parse().map_err(|_| "num")?;
            let reps: usize = t.next()?.parse().map_err(|_| "num")?;
            let src = unhex_str(t.next()?)?;
            let binds = parse_binds(&mut t)?;
            let mut handles = Vec::new();
            for _ in 0..nth {
                let src = src.clone();
                let bl: Vec<(String, String)> = binds.iter().map(|(k, v)| (k.clone(), value_string(v))).collect();
                handles.push(std::thread::spawn(move || {
                    let mut outs = Vec::new();
                    let mut ctx = rscel::CelContext::new();
                    if let Err(e) = ctx.add_program_str("main", &src) {
                        return vec![format!("CERR {}", print_err(&e))];
                    }
                    let ctx2 = ctx.clone();
                    let mut b = rscel::BindContext::new();
                    for (k, v) in bl.iter() {
                        let mut tk = Toks::new(v);
                        b.bind_param(k, parse_value(&mut tk).unwrap());
                    }
                    let b2 = b.clone();
                    for i in 0..reps {
                        let r = if i % 2 == 0 { ctx.exec("main", &b) } else { ctx2.clone().exec("main", &b2) };
                        outs.push(match r {
                            Ok(v) => format!("OK {}", value_string(&v)),
                            Err(e) => format!("ERR {}", print_err(&e)),
                        });
                    }
                    outs
                }));
            }
            let mut all: Vec<String> = Vec::new();
            for h in handles {
                match h.join() {
                    Ok(v) => all.extend(v),
                    Err(_) => all.push("PANIC".to_string()),
                }
            }
            let first = all[0].clone();
            let same = all.iter().all(|x| *x == first);
            Ok(format!("same={} n={} first={}", same, all.len(), first))
        }
        "compile" => {
            // compile <src> -> resolved bytecode and reported params
            let src = match parse_value(&mut t)? {
                CelValue::String(s) => s,
                _ => return Err("compile: source".to_string()),
            };
            Ok(match rscel::Program::from_source(&src) {
                Ok(p) => {
                    let mut out = String::from("OK C(");
                    for i in p.bytecode().iter() {
                        out.push(' ');
                        print_instr(&mut out, i);
                    }
                    out.push_str(" ) PARAMS(");
                    let mut ps: Vec<&str> = p.params();
                    ps.sort();
                    for x in ps {
                        out.push(' ');
                        out.push_str(&hex(x.as_bytes()));
                    }
                    out.push_str(" )");
                    out
                }
                Err(e) => format!("ERR {}", print_err(&e)),
            })
        }
        "eval" => {
            // eval <src> <bindings map>: compile as "main", bind, exec
            let src = match parse_value(&mut t)? {
                CelValue::String(s) => s,
                _ => return Err("eval: source".to_string()),
            };
            let binds = match parse_value(&mut t)? {
                CelValue::Map(m) => m,
                _ => return Err("eval: bindings".to_string()),
            };
            let mut ctx = rscel::CelContext::new();
            let mut bctx = rscel::BindContext::new();
            if let Err(e) = ctx.add_program_str("main", &src) {
                return Ok(format!("ERR {}", print_err(&e)));
            }
            for (k, v) in binds.into_iter() {
                bctx.bind_param(&k, v);
            }
            Ok(match ctx.exec("main", &bctx) {
                Ok(v) => format!("OK {}", value_string(&v)),
                Err(e) => format!("ERR {}", print_err(&e)),
            })
        }
        k => Ok(format!("UNSUPPORTED {}", k)),
    }
}

fn main() {
    let args: Vec<String> = std::env::args().collect();
    if args.len() < 3 {
        eprintln!("usage: harness <cases> <out> [start]");
        std::process::exit(2);
    }
    let start: usize = if args.len() > 3 { args[3].parse().unwrap() } else { 0 };
    std::panic::set_hook(Box::new(|_| {}));
    let f = std::fs::File::open(&args[1]).expect("open cases");
    let out = std::fs::OpenOptions::new()
        .create(true)
        .append(start > 0)
        .write(true)
        .truncate(start == 0)
        .open(&args[2])
        .expect("open out");
    let mut out = BufWriter::new(out);
    let flush_each = std::env::var("HARNESS_FLUSH").is_ok();
    for (i, line) in std::io::BufReader::new(f).lines().enumerate() {
        if i < start {
            continue;
        }
        let line = line.expect("read");
        let r = catch_unwind(AssertUnwindSafe(|| run_case(&line)));
        let s = match r {
            Ok(Ok(s)) => s,
            Ok(Err(m)) => format!("BADCASE {}", m),
            Err(_) => "PANIC".to_string(),
        };
        out.write_all(s.as_bytes()).unwrap();
        out.write_all(b"\n").unwrap();
        if flush_each {
            out.flush().unwrap();
        }
    }
    out.flush().unwrap();
}
