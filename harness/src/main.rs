//! Runs the implementation (current /repo working tree) on a case file:
//! one case per line "<kind> <payload tokens>", one result line per case.
//! Usage: harness <cases> <out> [start]
//! Results are flushed per case so that an abort (stack overflow) identifies
//! the case that died: the caller restarts at the following case.
mod codec;
use codec::*;
use rscel::{CelValue, CelValueDyn};
use std::io::{BufRead, BufWriter, Write};
use std::panic::{catch_unwind, AssertUnwindSafe};

fn binop(name: &str, a: CelValue, b: CelValue) -> Result<CelValue, String> {
    Ok(match name {
        "add" => a + b,
        "sub" => a - b,
        "mul" => a * b,
        "div" => a / b,
        "mod" => a % b,
        "lt" => a.lt(b),
        "le" => a.le(b),
        "eq" => CelValueDyn::eq(&a, &b),
        "ne" => a.neq(b),
        "ge" => a.ge(b),
        "gt" => a.gt(b),
        "in" => a.in_(b),
        "or" => a.or(&b),
        "and" => a.and(b),
        "index" => a.index(b),
        _ => return Err(format!("bad binop {}", name)),
    })
}

fn run_case(line: &str) -> Result<String, String> {
    let mut t = Toks::new(line);
    let kind = t.next()?;
    match kind {
        "binop" => {
            let name = t.next()?;
            let a = parse_value(&mut t)?;
            let b = parse_value(&mut t)?;
            Ok(value_string(&binop(name, a, b)?))
        }
        "unop" => {
            let name = t.next()?;
            let a = parse_value(&mut t)?;
            Ok(value_string(&match name {
                "not" => !a,
                "neg" => -a,
                _ => return Err("bad unop".to_string()),
            }))
        }
        "ord" => {
            let a = parse_value(&mut t)?;
            let b = parse_value(&mut t)?;
            Ok(match a.ord(b) {
                Ok(Some(std::cmp::Ordering::Less)) => "lt".to_string(),
                Ok(Some(std::cmp::Ordering::Equal)) => "eq".to_string(),
                Ok(Some(std::cmp::Ordering::Greater)) => "gt".to_string(),
                Ok(None) => "none".to_string(),
                Err(e) => format!("ERR {}", print_err(&e)),
            })
        }
        "peq" => {
            let a = parse_value(&mut t)?;
            let b = parse_value(&mut t)?;
            Ok(if a == b { "b1" } else { "b0" }.to_string())
        }
        "truthy" => {
            let a = parse_value(&mut t)?;
            Ok(if a.is_truthy() { "b1" } else { "b0" }.to_string())
        }
        "echo" => Ok(value_string(&parse_value(&mut t)?)),
        "eval" => {
            // eval <src> <bindings map>: compile as "main", bind, exec
            let src = match parse_value(&mut t)? {
                CelValue::String(s) => s,
                _ => return Err("eval: source".to_string()),
            };
            let binds = match parse_value(&mut t)? {
                CelValue::Map(m) => m,
                _ => return Err("eval: bindings".to_string()),
            };
            let mut ctx = rscel::CelContext::new();
            let mut bctx = rscel::BindContext::new();
            if let Err(e) = ctx.add_program_str("main", &src) {
                return Ok(format!("ERR {}", print_err(&e)));
            }
            for (k, v) in binds.into_iter() {
                bctx.bind_param(&k, v);
            }
            Ok(match ctx.exec("main", &bctx) {
                Ok(v) => format!("OK {}", value_string(&v)),
                Err(e) => format!("ERR {}", print_err(&e)),
            })
        }
        k => Ok(format!("UNSUPPORTED {}", k)),
    }
}

fn main() {
    let args: Vec<String> = std::env::args().collect();
    if args.len() < 3 {
        eprintln!("usage: harness <cases> <out> [start]");
        std::process::exit(2);
    }
    let start: usize = if args.len() > 3 { args[3].parse().unwrap() } else { 0 };
    std::panic::set_hook(Box::new(|_| {}));
    let f = std::fs::File::open(&args[1]).expect("open cases");
    let out = std::fs::OpenOptions::new()
        .create(true)
        .append(start > 0)
        .write(true)
        .truncate(start == 0)
        .open(&args[2])
        .expect("open out");
    let mut out = BufWriter::new(out);
    let flush_each = std::env::var("HARNESS_FLUSH").is_ok();
    for (i, line) in std::io::BufReader::new(f).lines().enumerate() {
        if i < start {
            continue;
        }
        let line = line.expect("read");
        let r = catch_unwind(AssertUnwindSafe(|| run_case(&line)));
        let s = match r {
            Ok(Ok(s)) => s,
            Ok(Err(m)) => format!("BADCASE {}", m),
            Err(_) => "PANIC".to_string(),
        };
        out.write_all(s.as_bytes()).unwrap();
        out.write_all(b"\n").unwrap();
        if flush_each {
            out.flush().unwrap();
        }
    }
    out.flush().unwrap();
}
