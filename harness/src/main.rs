//! Runs the implementation (current /repo working tree) on a case file:
//! one case per line "<kind> <payload tokens>", one result line per case.
//! Usage: harness <cases> <out> [start]
//! Results are flushed per case so that an abort (stack overflow) identifies
//! the case that died: the caller restarts at the following case.
mod astprint;
mod codec;
use codec::*;
use rscel::{CelValue, CelValueDyn};
use std::io::{BufRead, BufWriter, Write};
use std::panic::{catch_unwind, AssertUnwindSafe};

fn binop(name: &str, a: CelValue, b: CelValue) -> Result<CelValue, String> {
    Ok(match name {
        "add" => a + b,
        "sub" => a - b,
        "mul" => a * b,
        "div" => a / b,
        "mod" => a % b,
        "lt" => a.lt(b),
        "le" => a.le(b),
        "eq" => CelValueDyn::eq(&a, &b),
        "ne" => a.neq(b),
        "ge" => a.ge(b),
        "gt" => a.gt(b),
        "in" => a.in_(b),
        "or" => a.or(&b),
        "and" => a.and(b),
        "index" => a.index(b),
        _ => return Err(format!("bad binop {}", name)),
    })
}

fn program_from_code(code: Vec<rscel::ByteCode>) -> Result<rscel::Program, String> {
    // CelByteCode is not nameable from outside the crate, but it is
    // From<Vec<ByteCode>> and inference finds it.
    Ok(rscel::Program::new(rscel::ProgramDetails::new(), code.into()))
}

fn expect(t: &mut Toks, s: &str) -> Result<(), String> {
    let x = t.next()?;
    if x != s {
        return Err(format!("expected {} got {}", s, x));
    }
    Ok(())
}

#[derive(Clone)]
enum UFun {
    Const(CelValue),
    Arg0,
    This,
    Args,
}

thread_local! {
    static CALL_LOG: std::cell::RefCell<Vec<(String, CelValue, Vec<CelValue>)>> = std::cell::RefCell::new(Vec::new());
}

fn run_ctx(
    entry: &str,
    progs: Vec<(String, rscel::Program)>,
    binds: Vec<(String, CelValue)>,
    ufuncs: Vec<(String, UFun)>,
) -> String {
    let mut ctx = rscel::CelContext::new();
    for (n, p) in progs.into_iter() {
        ctx.add_program(&n, p);
    }
    CALL_LOG.with(|l| l.borrow_mut().clear());
    let closures: Vec<(String, Box<rscel::RsCelFunction>)> = ufuncs
        .into_iter()
        .map(|(n, u)| {
            let name = n.clone();
            let f: Box<rscel::RsCelFunction> = Box::new(move |this: CelValue, args: Vec<CelValue>| {
                CALL_LOG.with(|l| l.borrow_mut().push((name.clone(), this.clone(), args.clone())));
                match &u {
                    UFun::Const(v) => v.clone(),
                    UFun::Arg0 => args.get(0).cloned().unwrap_or(CelValue::Null),
                    UFun::This => this,
                    UFun::Args => CelValue::List(args),
                }
            });
            (n, f)
        })
        .collect();
    let mut bctx = rscel::BindContext::new();
    for (k, v) in binds.into_iter() {
        bctx.bind_param(&k, v);
    }
    for (n, f) in closures.iter() {
        bctx.bind_func(n, f.as_ref());
    }
    let r = ctx.exec(entry, &bctx);
    let mut out = match r {
        Ok(v) => format!("OK {}", value_string(&v)),
        Err(e) => format!("ERR {}", print_err(&e)),
    };
    out.push_str(" LOG(");
    CALL_LOG.with(|l| {
        for (n, this, args) in l.borrow().iter() {
            out.push(' ');
            out.push_str(&hex(n.as_bytes()));
            out.push(' ');
            print_value(&mut out, this);
            out.push(' ');
            print_value(&mut out, &CelValue::List(args.clone()));
        }
    });
    out.push_str(" )");
    out
}

fn parse_binds(t: &mut Toks) -> Result<Vec<(String, CelValue)>, String> {
    expect(t, "B(")?;
    let mut v = Vec::new();
    loop {
        if t.peek() == Some(")") {
            t.next()?;
            break;
        }
        let n = unhex_str(t.next()?)?;
        v.push((n, parse_value(t)?));
    }
    Ok(v)
}

fn parse_ufuncs(t: &mut Toks) -> Result<Vec<(String, UFun)>, String> {
    expect(t, "F(")?;
    let mut v = Vec::new();
    loop {
        if t.peek() == Some(")") {
            t.next()?;
            break;
        }
        let n = unhex_str(t.next()?)?;
        let u = match t.next()? {
            "const" => UFun::Const(parse_value(t)?),
            "arg0" => UFun::Arg0,
            "this" => UFun::This,
            "args" => UFun::Args,
            s => return Err(format!("ufun {}", s)),
        };
        v.push((n, u));
    }
    Ok(v)
}

fn print_token(out: &mut String, t: &rscel::verif_hooks::Token) {
    use rscel::verif_hooks::{FStringSegment, Token};
    match t {
        Token::BoolLit(b) => out.push_str(if *b { "Bool:1" } else { "Bool:0" }),
        Token::IntLit(v) => out.push_str(&format!("Int:{}", v)),
        Token::UIntLit(v) => out.push_str(&format!("UInt:{}", v)),
        Token::FloatLit(f) => out.push_str(&format!("Float:{:016x}", f64_bits_canon(*f))),
        Token::StringLit(s) => out.push_str(&format!("Str:{}", hex(s.as_bytes()))),
        Token::FStringLit(segs) => {
            out.push_str("FStr:");
            for (i, sg) in segs.iter().enumerate() {
                if i > 0 {
                    out.push(',');
                }
                match sg {
                    FStringSegment::Lit(s) => out.push_str(&format!("L{}", hex(s.as_bytes()))),
                    FStringSegment::Expr(s) => out.push_str(&format!("E{}", hex(s.as_bytes()))),
                }
            }
        }
        Token::ByteStringLit(b) => out.push_str(&format!("Bytes:{}", hex(b.as_slice()))),
        Token::Ident(s) => out.push_str(&format!("Ident:{}", hex(s.as_bytes()))),
        other => out.push_str(&format!("{:?}", other)),
    }
}

fn lex_case(src: &str) -> String {
    use rscel::Tokenizer;
    let mut tz = rscel::StringTokenizer::with_input(src);
    let mut out = String::new();
    loop {
        match tz.next() {
            Ok(Some(t)) => {
                print_token(&mut out, &t.token);
                out.push_str(&format!(
                    "@{}:{}-{}:{} ",
                    t.loc.start().line(),
                    t.loc.start().col(),
                    t.loc.end().line(),
                    t.loc.end().col()
                ));
            }
            Ok(None) => {
                let l = tz.location();
                out.push_str(&format!("END@{}:{}", l.line(), l.col()));
                break;
            }
            Err(e) => {
                out.push_str(&format!("ERR@{}:{}", e.loc().line(), e.loc().col()));
                break;
            }
        }
    }
    out
}

fn run_case(line: &str) -> Result<String, String> {
    let mut t = Toks::new(line);
    let kind = t.next()?;
    match kind {
        "binop" => {
            let name = t.next()?;
            let a = parse_value(&mut t)?;
            let b = parse_value(&mut t)?;
            Ok(value_string(&binop(name, a, b)?))
        }
        "unop" => {
            let name = t.next()?;
            let a = parse_value(&mut t)?;
            Ok(value_string(&match name {
                "not" => !a,
                "neg" => -a,
                _ => return Err("bad unop".to_string()),
            }))
        }
        "ord" => {
            let a = parse_value(&mut t)?;
            let b = parse_value(&mut t)?;
            Ok(match a.ord(b) {
                Ok(Some(std::cmp::Ordering::Less)) => "lt".to_string(),
                Ok(Some(std::cmp::Ordering::Equal)) => "eq".to_string(),
                Ok(Some(std::cmp::Ordering::Greater)) => "gt".to_string(),
                Ok(None) => "none".to_string(),
                Err(e) => format!("ERR {}", print_err(&e)),
            })
        }
        "peq" => {
            let a = parse_value(&mut t)?;
            let b = parse_value(&mut t)?;
            Ok(if a == b { "b1" } else { "b0" }.to_string())
        }
        "truthy" => {
            let a = parse_value(&mut t)?;
            Ok(if a.is_truthy() { "b1" } else { "b0" }.to_string())
        }
        "echo" => Ok(value_string(&parse_value(&mut t)?)),
        "run" => {
            // run <entry> P( name C( .. ) ... ) B( name value ... ) F( name kind ... )
            let entry = unhex_str(t.next()?)?;
            expect(&mut t, "P(")?;
            let mut progs = Vec::new();
            loop {
                if t.peek() == Some(")") {
                    t.next()?;
                    break;
                }
                let n = unhex_str(t.next()?)?;
                expect(&mut t, "C(")?;
                let code = parse_code_body(&mut t)?;
                progs.push((n, program_from_code(code)?));
            }
            let binds = parse_binds(&mut t)?;
            let ufuncs = parse_ufuncs(&mut t)?;
            Ok(run_ctx(&entry, progs, binds, ufuncs))
        }
        "evalsrc" => {
            // evalsrc <entry> S( name src ... ) B( ... ) F( ... ): programs from source text
            let entry = unhex_str(t.next()?)?;
            expect(&mut t, "S(")?;
            let mut progs = Vec::new();
            let mut err: Option<String> = None;
            loop {
                if t.peek() == Some(")") {
                    t.next()?;
                    break;
                }
                let n = unhex_str(t.next()?)?;
                let src = unhex_str(t.next()?)?;
                if err.is_none() {
                    match rscel::Program::from_source(&src) {
                        Ok(p) => progs.push((n, p)),
                        Err(e) => err = Some(format!("CERR {} {}", hex(n.as_bytes()), print_err(&e))),
                    }
                }
            }
            let binds = parse_binds(&mut t)?;
            let ufuncs = parse_ufuncs(&mut t)?;
            Ok(match err {
                Some(e) => e,
                None => run_ctx(&entry, progs, binds, ufuncs),
            })
        }
        "serde" => {
            // serde <fmt> <src> B( ... ): compile, round-trip through json|bincode, compare
            // bytecode/source/params and the result of execution under the bindings
            let fmt = t.next()?;
            let src = unhex_str(t.next()?)?;
            let binds = parse_binds(&mut t)?;
            let prog = match rscel::Program::from_source(&src) {
                Ok(p) => p,
                Err(e) => return Ok(format!("CERR {}", print_err(&e))),
            };
            let back: rscel::Program = match fmt {
                "json" => {
                    let txt = match serde_json::to_string(&prog) {
                        Ok(x) => x,
                        Err(e) => return Ok(format!("SERFAIL {}", e)),
                    };
                    match serde_json::from_str(&txt) {
                        Ok(p) => p,
                        Err(e) => return Ok(format!("DEFAIL {}", e)),
                    }
                }
                "bincode" => {
                    let bytes = match bincode::serialize(&prog) {
                        Ok(x) => x,
                        Err(e) => return Ok(format!("SERFAIL {}", e)),
                    };
                    match bincode::deserialize(&bytes) {
                        Ok(p) => p,
                        Err(e) => return Ok(format!("DEFAIL {}", e)),
                    }
                }
                _ => return Err("fmt".to_string()),
            };
            let code_of = |p: &rscel::Program| {
                let mut out = String::from("C(");
                for i in p.bytecode().iter() {
                    out.push(' ');
                    print_instr(&mut out, i);
                }
                out.push_str(" )");
                out
            };
            let mut pa: Vec<String> = prog.params().iter().map(|x| x.to_string()).collect();
            let mut pb: Vec<String> = back.params().iter().map(|x| x.to_string()).collect();
            pa.sort();
            pb.sort();
            let same_code = code_of(&prog) == code_of(&back);
            let same_meta = prog.source() == back.source() && pa == pb;
            let r1 = run_ctx("main", vec![("main".to_string(), prog)], binds.clone(), vec![]);
            let r2 = run_ctx("main", vec![("main".to_string(), back)], binds, vec![]);
            Ok(format!(
                "code={} meta={} exec={} | {} | {}",
                same_code,
                same_meta,
                r1 == r2,
                r1,
                r2
            ))
        }
        "func" => {
            let name = unhex_str(t.next()?)?;
            let this = parse_value(&mut t)?;
            let args = match parse_value(&mut t)? {
                CelValue::List(l) => l,
                _ => return Err("args".to_string()),
            };
            let b = rscel::BindContext::new();
            Ok(match b.get_func(&name) {
                Some(f) => value_string(&f(this, args)),
                None => "NOFUNC".to_string(),
            })
        }
        "ctor" => {
            // type constructor through the VM: args are pushed as plain values
            let name = unhex_str(t.next()?)?;
            let args = match parse_value(&mut t)? {
                CelValue::List(l) => l,
                _ => return Err("args".to_string()),
            };
            let n = args.len();
            let mut code: Vec<rscel::ByteCode> = args.into_iter().rev().map(rscel::ByteCode::Push).collect();
            code.push(rscel::ByteCode::Push(CelValue::Type(name)));
            code.push(rscel::ByteCode::Call(n as u32));
            let prog = program_from_code(code)?;
            let r = run_ctx("main", vec![("main".to_string(), prog)], vec![], vec![]);
            let r = r.trim_end_matches(" LOG( )").to_string();
            Ok(match r.strip_prefix("OK ") {
                Some(rest) => rest.to_string(),
                None => r.strip_prefix("ERR ").unwrap_or(&r).to_string(),
            })
        }
        "lex" => {
            let src = match parse_value(&mut t)? {
                CelValue::String(s) => s,
                _ => return Err("lex: source".to_string()),
            };
            Ok(lex_case(&src))
        }
        "parse" => {
            let src = match parse_value(&mut t)? {
                CelValue::String(s) => s,
                _ => return Err("parse: source".to_string()),
            };
            Ok(match rscel::Program::from_source(&src) {
                Ok(p) => {
                    let mut out = String::from("OK ");
                    astprint::expr(&mut out, p.ast().ok_or("no ast")?);
                    out
                }
                Err(e) => format!("ERR {}", print_err(&e)),
            })
        }
        "filterparams" => {
            // filterparams <src> B( ... ): params left after ProgramDetails::filter_from_bindings
            let src = unhex_str(t.next()?)?;
            let binds = parse_binds(&mut t)?;
            let prog = match rscel::Program::from_source(&src) {
                Ok(p) => p,
                Err(e) => return Ok(format!("CERR {}", print_err(&e))),
            };
            let mut b = rscel::BindContext::new();
            for (k, v) in binds.into_iter() {
                b.bind_param(&k, v);
            }
            let mut d = prog.into_details();
            d.filter_from_bindings(&b);
            let mut ps: Vec<String> = d.params().iter().map(|x| x.to_string()).collect();
            ps.sort();
            Ok(format!("PARAMS( {} )", ps.iter().map(|x| hex(x.as_bytes())).collect::<Vec<_>>().join(" ")))
        }
        "compile" => {
            // compile <src> -> resolved bytecode and reported params
            let src = match parse_value(&mut t)? {
                CelValue::String(s) => s,
                _ => return Err("compile: source".to_string()),
            };
            Ok(match rscel::Program::from_source(&src) {
                Ok(p) => {
                    let mut out = String::from("OK C(");
                    for i in p.bytecode().iter() {
                        out.push(' ');
                        print_instr(&mut out, i);
                    }
                    out.push_str(" ) PARAMS(");
                    let mut ps: Vec<&str> = p.params();
                    ps.sort();
                    for x in ps {
                        out.push(' ');
                        out.push_str(&hex(x.as_bytes()));
                    }
                    out.push_str(" )");
                    out
                }
                Err(e) => format!("ERR {}", print_err(&e)),
            })
        }
        "eval" => {
            // eval <src> <bindings map>: compile as "main", bind, exec
            let src = match parse_value(&mut t)? {
                CelValue::String(s) => s,
                _ => return Err("eval: source".to_string()),
            };
            let binds = match parse_value(&mut t)? {
                CelValue::Map(m) => m,
                _ => return Err("eval: bindings".to_string()),
            };
            let mut ctx = rscel::CelContext::new();
            let mut bctx = rscel::BindContext::new();
            if let Err(e) = ctx.add_program_str("main", &src) {
                return Ok(format!("ERR {}", print_err(&e)));
            }
            for (k, v) in binds.into_iter() {
                bctx.bind_param(&k, v);
            }
            Ok(match ctx.exec("main", &bctx) {
                Ok(v) => format!("OK {}", value_string(&v)),
                Err(e) => format!("ERR {}", print_err(&e)),
            })
        }
        k => Ok(format!("UNSUPPORTED {}", k)),
    }
}

fn main() {
    let args: Vec<String> = std::env::args().collect();
    if args.len() < 3 {
        eprintln!("usage: harness <cases> <out> [start]");
        std::process::exit(2);
    }
    let start: usize = if args.len() > 3 { args[3].parse().unwrap() } else { 0 };
    std::panic::set_hook(Box::new(|_| {}));
    let f = std::fs::File::open(&args[1]).expect("open cases");
    let out = std::fs::OpenOptions::new()
        .create(true)
        .append(start > 0)
        .write(true)
        .truncate(start == 0)
        .open(&args[2])
        .expect("open out");
    let mut out = BufWriter::new(out);
    let flush_each = std::env::var("HARNESS_FLUSH").is_ok();
    for (i, line) in std::io::BufReader::new(f).lines().enumerate() {
        if i < start {
            continue;
        }
        let line = line.expect("read");
        let r = catch_unwind(AssertUnwindSafe(|| run_case(&line)));
        let s = match r {
            Ok(Ok(s)) => s,
            Ok(Err(m)) => format!("BADCASE {}", m),
            Err(_) => "PANIC".to_string(),
        };
        out.write_all(s.as_bytes()).unwrap();
        out.write_all(b"\n").unwrap();
        if flush_each {
            out.flush().unwrap();
        }
    }
    out.flush().unwrap();
}
