//! Text codec shared with the OCaml model driver (see ocaml/codec.ml).
use rscel::{ByteCode, CelError, CelValue};
use std::collections::HashMap;

pub struct Toks<'a> {
    arr: Vec<&'a str>,
    pos: usize,
}

impl<'a> Toks<'a> {
    pub fn new(s: &'a str) -> Self {
        Toks {
            arr: s.split(' ').filter(|x| !x.is_empty()).collect(),
            pos: 0,
        }
    }
    pub fn peek(&self) -> Option<&'a str> {
        self.arr.get(self.pos).copied()
    }
    pub fn next(&mut self) -> Result<&'a str, String> {
        let r = self.arr.get(self.pos).copied().ok_or("eof".to_string())?;
        self.pos += 1;
        Ok(r)
    }
    pub fn done(&self) -> bool {
        self.pos >= self.arr.len()
    }
}

pub fn unhex(s: &str) -> Result<Vec<u8>, String> {
    if s.len() % 2 != 0 {
        return Err(format!("odd hex {}", s));
    }
    let b = s.as_bytes();
    let hv = |c: u8| -> Result<u8, String> {
        match c {
            b'0'..=b'9' => Ok(c - 48),
            b'a'..=b'f' => Ok(c - 87),
            b'A'..=b'F' => Ok(c - 55),
            _ => Err("bad hex".to_string()),
        }
    };
    let mut out = Vec::with_capacity(b.len() / 2);
    for i in 0..b.len() / 2 {
        out.push(hv(b[2 * i])? * 16 + hv(b[2 * i + 1])?);
    }
    Ok(out)
}

pub fn hex(b: &[u8]) -> String {
    let mut s = String::with_capacity(b.len() * 2);
    for x in b {
        s.push_str(&format!("{:02x}", x));
    }
    s
}

pub fn unhex_str(s: &str) -> Result<String, String> {
    String::from_utf8(unhex(s)?).map_err(|_| "not utf8".to_string())
}

const NS: i128 = 1_000_000_000;

pub fn ts_from_ns(ns: i128) -> Result<chrono::DateTime<chrono::Utc>, String> {
    let secs = ns.div_euclid(NS);
    let nanos = ns.rem_euclid(NS);
    chrono::DateTime::from_timestamp(secs as i64, nanos as u32).ok_or("ts range".to_string())
}

pub fn dur_from_ns(ns: i128) -> Result<chrono::Duration, String> {
    let secs = ns.div_euclid(NS);
    let nanos = ns.rem_euclid(NS);
    chrono::Duration::new(secs as i64, nanos as u32).ok_or("dur range".to_string())
}

pub fn ts_to_ns(t: &chrono::DateTime<chrono::Utc>) -> i128 {
    (t.timestamp() as i128) * NS + (t.timestamp_subsec_nanos() as i128)
}

pub fn dur_to_ns(d: &chrono::Duration) -> i128 {
    (d.num_seconds() as i128) * NS + (d.subsec_nanos() as i128)
}

pub fn parse_err(tok: &str) -> Result<CelError, String> {
    let p: Vec<&str> = tok.split(':').collect();
    Ok(match p.as_slice() {
        ["Emisc"] => CelError::Misc(String::new()),
        ["Eval"] => CelError::Value(String::new()),
        ["Earg"] => CelError::Argument(String::new()),
        ["Eop"] => CelError::InvalidOp(String::new()),
        ["Erun"] => CelError::Runtime(String::new()),
        ["Ebind", h] => CelError::Binding {
            symbol: unhex_str(h)?,
        },
        ["Eattr", h] => CelError::Attribute {
            parent: "obj".to_string(),
            field: unhex_str(h)?,
        },
        ["Ediv"] => CelError::DivideByZero,
        ["Eint"] => CelError::Internal(String::new()),
        _ => return Err(format!("bad error {}", tok)),
    })
}

pub fn print_err(e: &CelError) -> String {
    match e {
        CelError::Misc(_) => "Emisc".to_string(),
        CelError::Syntax(se) => format!("Esyn:{}:{}", se.loc().line(), se.loc().col()),
        CelError::Value(_) => "Eval".to_string(),
        CelError::Argument(_) => "Earg".to_string(),
        CelError::InvalidOp(_) => "Eop".to_string(),
        CelError::Runtime(_) => "Erun".to_string(),
        CelError::Binding { symbol } => format!("Ebind:{}", hex(symbol.as_bytes())),
        CelError::Attribute { parent: _, field } => format!("Eattr:{}", hex(field.as_bytes())),
        CelError::DivideByZero => "Ediv".to_string(),
        CelError::Internal(_) => "Eint".to_string(),
    }
}

pub fn parse_value(t: &mut Toks) -> Result<CelValue, String> {
    let tok = t.next()?;
    match tok {
        "n" => return Ok(CelValue::Null),
        "b0" => return Ok(CelValue::Bool(false)),
        "b1" => return Ok(CelValue::Bool(true)),
        "L(" => {
            let mut v = Vec::new();
            loop {
                if t.peek() == Some(")") {
                    t.next()?;
                    break;
                }
                v.push(parse_value(t)?);
            }
            return Ok(CelValue::List(v));
        }
        "M(" => {
            let mut m = HashMap::new();
            loop {
                if t.peek() == Some(")") {
                    t.next()?;
                    break;
                }
                let k = t.next()?;
                if !k.starts_with('s') {
                    return Err("map key".to_string());
                }
                let key = unhex_str(&k[1..])?;
                let v = parse_value(t)?;
                m.insert(key, v);
            }
            return Ok(CelValue::Map(m));
        }
        "C(" => {
            let code = parse_code_body(t)?;
            return Ok(CelValue::from(code));
        }
        _ => {}
    }
    if tok.is_empty() {
        return Err("empty".to_string());
    }
    let r = &tok[1..];
    Ok(match tok.as_bytes()[0] {
        b'i' => CelValue::Int(r.parse::<i64>().map_err(|e| e.to_string())?),
        b'u' => CelValue::UInt(r.parse::<u64>().map_err(|e| e.to_string())?),
        b'f' => CelValue::Float(f64::from_bits(
            u64::from_str_radix(r, 16).map_err(|e| e.to_string())?,
        )),
        b's' => CelValue::String(unhex_str(r)?),
        b'y' => CelValue::from_bytes(unhex(r)?),
        b'I' => CelValue::Ident(unhex_str(r)?),
        b'T' => CelValue::Type(unhex_str(r)?),
        b't' => CelValue::TimeStamp(ts_from_ns(r.parse::<i128>().map_err(|e| e.to_string())?)?),
        b'd' => CelValue::Duration(dur_from_ns(r.parse::<i128>().map_err(|e| e.to_string())?)?),
        b'E' => CelValue::Err(parse_err(tok)?),
        _ => return Err(format!("bad value token {}", tok)),
    })
}

pub fn parse_code_body(t: &mut Toks) -> Result<Vec<ByteCode>, String> {
    let mut v = Vec::new();
    loop {
        if t.peek() == Some(")") {
            t.next()?;
            break;
        }
        v.push(parse_instr(t)?);
    }
    Ok(v)
}

fn jmpcond(when: bool, dist: i32) -> Result<ByteCode, String> {
    // JmpWhen is not nameable from outside the crate; go through serde.
    let s = format!(
        "{{\"JmpCond\":{{\"when\":\"{}\",\"dist\":{}}}}}",
        if when { "True" } else { "False" },
        dist
    );
    serde_json::from_str::<ByteCode>(&s).map_err(|e| e.to_string())
}

pub fn parse_instr(t: &mut Toks) -> Result<ByteCode, String> {
    let tok = t.next()?;
    let p: Vec<&str> = tok.split(':').collect();
    let num = |s: &str| -> Result<i64, String> { s.parse::<i64>().map_err(|e| e.to_string()) };
    Ok(match p.as_slice() {
        ["P"] => ByteCode::Push(parse_value(t)?),
        ["pop"] => ByteCode::Pop,
        ["test"] => ByteCode::Test,
        ["dup"] => ByteCode::Dup,
        ["or"] => ByteCode::Or,
        ["and"] => ByteCode::And,
        ["not"] => ByteCode::Not,
        ["neg"] => ByteCode::Neg,
        ["add"] => ByteCode::Add,
        ["sub"] => ByteCode::Sub,
        ["mul"] => ByteCode::Mul,
        ["div"] => ByteCode::Div,
        ["mod"] => ByteCode::Mod,
        ["lt"] => ByteCode::Lt,
        ["le"] => ByteCode::Le,
        ["eq"] => ByteCode::Eq,
        ["ne"] => ByteCode::Ne,
        ["ge"] => ByteCode::Ge,
        ["gt"] => ByteCode::Gt,
        ["in"] => ByteCode::In,
        ["jmp", d] => ByteCode::Jmp(num(d)? as i32),
        ["jt", d] => jmpcond(true, num(d)? as i32)?,
        ["jf", d] => jmpcond(false, num(d)? as i32)?,
        ["mklist", n] => ByteCode::MkList(num(n)? as u32),
        ["mkdict", n] => ByteCode::MkDict(num(n)? as u32),
        ["index"] => ByteCode::Index,
        ["access"] => ByteCode::Access,
        ["call", n] => ByteCode::Call(num(n)? as u32),
        ["fmt", n] => ByteCode::FmtString(num(n)? as u32),
        _ => return Err(format!("bad instr {}", tok)),
    })
}

pub fn f64_bits_canon(f: f64) -> u64 {
    if f.is_nan() {
        0x7ff8000000000000
    } else {
        f.to_bits()
    }
}

pub fn print_value(out: &mut String, v: &CelValue) {
    match v {
        CelValue::Int(i) => out.push_str(&format!("i{}", i)),
        CelValue::UInt(u) => out.push_str(&format!("u{}", u)),
        CelValue::Float(f) => out.push_str(&format!("f{:016x}", f64_bits_canon(*f))),
        CelValue::Bool(true) => out.push_str("b1"),
        CelValue::Bool(false) => out.push_str("b0"),
        CelValue::String(s) => {
            out.push('s');
            out.push_str(&hex(s.as_bytes()));
        }
        CelValue::Bytes(b) => {
            out.push('y');
            out.push_str(&hex(b.as_slice()));
        }
        CelValue::List(l) => {
            out.push_str("L(");
            for x in l {
                out.push(' ');
                print_value(out, x);
            }
            out.push_str(" )");
        }
        CelValue::Map(m) => {
            out.push_str("M(");
            let mut keys: Vec<&String> = m.keys().collect();
            keys.sort_by(|a, b| a.as_bytes().cmp(b.as_bytes()));
            for k in keys {
                out.push_str(" s");
                out.push_str(&hex(k.as_bytes()));
                out.push(' ');
                print_value(out, &m[k]);
            }
            out.push_str(" )");
        }
        CelValue::Null => out.push('n'),
        CelValue::Ident(s) => {
            out.push('I');
            out.push_str(&hex(s.as_bytes()));
        }
        CelValue::Type(s) => {
            out.push('T');
            out.push_str(&hex(s.as_bytes()));
        }
        CelValue::TimeStamp(t) => out.push_str(&format!("t{}", ts_to_ns(t))),
        CelValue::Duration(d) => out.push_str(&format!("d{}", dur_to_ns(d))),
        CelValue::ByteCode(bc) => {
            out.push_str("C(");
            for i in bc.iter() {
                out.push(' ');
                print_instr(out, i);
            }
            out.push_str(" )");
        }
        CelValue::Err(e) => out.push_str(&print_err(e)),
        _ => out.push_str("UNMODELLED"),
    }
}

pub fn print_instr(out: &mut String, i: &ByteCode) {
    match i {
        ByteCode::Push(v) => {
            out.push_str("P ");
            print_value(out, v);
        }
        ByteCode::Pop => out.push_str("pop"),
        ByteCode::Test => out.push_str("test"),
        ByteCode::Dup => out.push_str("dup"),
        ByteCode::Or => out.push_str("or"),
        ByteCode::And => out.push_str("and"),
        ByteCode::Not => out.push_str("not"),
        ByteCode::Neg => out.push_str("neg"),
        ByteCode::Add => out.push_str("add"),
        ByteCode::Sub => out.push_str("sub"),
        ByteCode::Mul => out.push_str("mul"),
        ByteCode::Div => out.push_str("div"),
        ByteCode::Mod => out.push_str("mod"),
        ByteCode::Lt => out.push_str("lt"),
        ByteCode::Le => out.push_str("le"),
        ByteCode::Eq => out.push_str("eq"),
        ByteCode::Ne => out.push_str("ne"),
        ByteCode::Ge => out.push_str("ge"),
        ByteCode::Gt => out.push_str("gt"),
        ByteCode::In => out.push_str("in"),
        ByteCode::Jmp(d) => out.push_str(&format!("jmp:{}", d)),
        ByteCode::JmpCond { when, dist } => {
            out.push_str(&format!("{}:{}", if when.as_bool() { "jt" } else { "jf" }, dist))
        }
        ByteCode::MkList(n) => out.push_str(&format!("mklist:{}", n)),
        ByteCode::MkDict(n) => out.push_str(&format!("mkdict:{}", n)),
        ByteCode::Index => out.push_str("index"),
        ByteCode::Access => out.push_str("access"),
        ByteCode::Call(n) => out.push_str(&format!("call:{}", n)),
        ByteCode::FmtString(n) => out.push_str(&format!("fmt:{}", n)),
    }
}

pub fn value_string(v: &CelValue) -> String {
    let mut s = String::new();
    print_value(&mut s, v);
    s
}
