#!/bin/sh
cd /verif
for id in $(python3 -c "import json;print(' '.join(p['property_id'] for p in json.load(open('MANIFEST.json'))['checks']))"); do
  s=$(date +%s)
  out=$(VERIF_SEED=${1:-7} ./check $id --tier thorough 2>&1 | grep -E "VIOLATION|tier=" | tail -3 | tr '\n' ' ')
  echo "$id $(( $(date +%s) - s ))s $out"
done
