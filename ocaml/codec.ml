(* codec.ml — text codec between the case/result lines and the extracted
   model's datatypes.  Zarith is used only for decimal/hex <-> Coq Z. *)
module M = Model

exception Parse_error of string

(* ---- Coq Z <-> zarith ---- *)
let rec pos_of_zt (n : Z.t) : M.positive =
  if Z.equal n Z.one then M.XH
  else
    let h = pos_of_zt (Z.shift_right n 1) in
    if Z.testbit n 0 then M.XI h else M.XO h

let cz_of_zt (n : Z.t) : M.z =
  let s = Z.sign n in
  if s = 0 then M.Z0 else if s > 0 then M.Zpos (pos_of_zt n) else M.Zneg (pos_of_zt (Z.neg n))

let rec zt_of_pos (p : M.positive) : Z.t =
  match p with
  | M.XH -> Z.one
  | M.XO q -> Z.shift_left (zt_of_pos q) 1
  | M.XI q -> Z.succ (Z.shift_left (zt_of_pos q) 1)

let zt_of_cz (z : M.z) : Z.t =
  match z with M.Z0 -> Z.zero | M.Zpos p -> zt_of_pos p | M.Zneg p -> Z.neg (zt_of_pos p)

let cz_of_int (i : int) : M.z = cz_of_zt (Z.of_int i)
let int_of_cz (z : M.z) : int = Z.to_int (zt_of_cz z)
let cz_of_dec (s : string) : M.z =
  try cz_of_zt (Z.of_string s) with _ -> raise (Parse_error ("bad int " ^ s))
let dec_of_cz (z : M.z) : string = Z.to_string (zt_of_cz z)

(* ---- bytes <-> hex ---- *)
let hexval c =
  match c with
  | '0' .. '9' -> Char.code c - 48
  | 'a' .. 'f' -> Char.code c - 87
  | 'A' .. 'F' -> Char.code c - 55
  | _ -> raise (Parse_error "bad hex")

let bytes_of_hex (s : string) : M.z list =
  let n = String.length s in
  if n mod 2 <> 0 then raise (Parse_error ("odd hex " ^ s));
  List.init (n / 2) (fun i -> cz_of_int ((hexval s.[2 * i] * 16) + hexval s.[(2 * i) + 1]))

let hex_of_bytes (b : M.z list) : string =
  let buf = Buffer.create 16 in
  List.iter (fun z -> Buffer.add_string buf (Printf.sprintf "%02x" (int_of_cz z land 255))) b;
  Buffer.contents buf

let bytes_of_ascii (s : string) : M.z list =
  List.init (String.length s) (fun i -> cz_of_int (Char.code s.[i]))

let f64_of_hex (s : string) : M.spec_float =
  M.f64_of_bits (cz_of_zt (Z.of_string_base 16 s))

let hex_of_f64 (f : M.spec_float) : string =
  let z = zt_of_cz (M.f64_to_bits f) in
  let h = Z.format "%x" z in
  String.make (16 - String.length h) '0' ^ h

(* ---- token stream ---- *)
type toks = { arr : string array; mutable pos : int }

let mk_toks (s : string) : toks =
  let l = String.split_on_char ' ' s |> List.filter (fun x -> x <> "") in
  { arr = Array.of_list l; pos = 0 }

let peek t = if t.pos < Array.length t.arr then Some t.arr.(t.pos) else None
let next t =
  if t.pos < Array.length t.arr then (
    let x = t.arr.(t.pos) in
    t.pos <- t.pos + 1;
    x)
  else raise (Parse_error "eof")

let rest s = String.sub s 1 (String.length s - 1)

let split_colon s = String.split_on_char ':' s

let err_of_tok (tok : string) : M.cel_error =
  match split_colon tok with
  | [ "Emisc" ] -> M.EMisc
  | [ "Esyn"; l; c ] -> M.ESyntax (cz_of_dec l, cz_of_dec c)
  | [ "Eval" ] -> M.EValue
  | [ "Earg" ] -> M.EArgument
  | [ "Eop" ] -> M.EInvalidOp
  | [ "Erun" ] -> M.ERuntime
  | [ "Ebind"; h ] -> M.EBinding (bytes_of_hex h)
  | [ "Eattr"; h ] -> M.EAttribute (bytes_of_hex h)
  | [ "Ediv" ] -> M.EDivZero
  | [ "Eint" ] -> M.EInternal
  | _ -> raise (Parse_error ("bad error " ^ tok))

let tok_of_err (e : M.cel_error) : string =
  match e with
  | M.EMisc -> "Emisc"
  | M.ESyntax (l, c) -> Printf.sprintf "Esyn:%s:%s" (dec_of_cz l) (dec_of_cz c)
  | M.EValue -> "Eval"
  | M.EArgument -> "Earg"
  | M.EInvalidOp -> "Eop"
  | M.ERuntime -> "Erun"
  | M.EBinding s -> "Ebind:" ^ hex_of_bytes s
  | M.EAttribute s -> "Eattr:" ^ hex_of_bytes s
  | M.EDivZero -> "Ediv"
  | M.EInternal -> "Eint"

let rec parse_value (t : toks) : M.value =
  let tok = next t in
  match tok with
  | "n" -> M.VNull
  | "b0" -> M.VBool false
  | "b1" -> M.VBool true
  | "L(" ->
      let rec go acc =
        match peek t with
        | Some ")" -> ignore (next t); List.rev acc
        | _ -> let v = parse_value t in go (v :: acc)
      in
      M.VList (go [])
  | "M(" ->
      let rec go m =
        match peek t with
        | Some ")" -> ignore (next t); m
        | _ ->
            let k = next t in
            if String.length k < 1 || k.[0] <> 's' then raise (Parse_error "map key");
            let v = parse_value t in
            go (M.map_insert m (bytes_of_hex (rest k)) v)
      in
      M.VMap (go [])
  | "C(" -> M.VCode (parse_code_body t)
  | _ -> (
      if String.length tok = 0 then raise (Parse_error "empty token");
      match tok.[0] with
      | 'i' -> M.VInt (cz_of_dec (rest tok))
      | 'u' -> M.VUInt (cz_of_dec (rest tok))
      | 'f' -> M.VFloat (f64_of_hex (rest tok))
      | 's' -> M.VString (bytes_of_hex (rest tok))
      | 'y' -> M.VBytes (bytes_of_hex (rest tok))
      | 'I' -> M.VIdent (bytes_of_hex (rest tok))
      | 'T' -> M.VType (bytes_of_hex (rest tok))
      | 't' -> M.VTime (cz_of_dec (rest tok))
      | 'd' -> M.VDur (cz_of_dec (rest tok))
      | 'E' -> M.VErr (err_of_tok tok)
      | _ -> raise (Parse_error ("bad value token " ^ tok)))

and parse_code_body (t : toks) : M.instr list =
  let rec go acc =
    match peek t with
    | Some ")" -> ignore (next t); List.rev acc
    | _ -> let i = parse_instr t in go (i :: acc)
  in
  go []

and parse_instr (t : toks) : M.instr =
  let tok = next t in
  match split_colon tok with
  | [ "P" ] -> M.IPush (parse_value t)
  | [ "pop" ] -> M.IPop
  | [ "test" ] -> M.ITest
  | [ "dup" ] -> M.IDup
  | [ "or" ] -> M.IOr
  | [ "and" ] -> M.IAnd
  | [ "not" ] -> M.INot
  | [ "neg" ] -> M.INeg
  | [ "add" ] -> M.IAdd
  | [ "sub" ] -> M.ISub
  | [ "mul" ] -> M.IMul
  | [ "div" ] -> M.IDiv
  | [ "mod" ] -> M.IMod
  | [ "lt" ] -> M.ILt
  | [ "le" ] -> M.ILe
  | [ "eq" ] -> M.IEq
  | [ "ne" ] -> M.INe
  | [ "ge" ] -> M.IGe
  | [ "gt" ] -> M.IGt
  | [ "in" ] -> M.IIn
  | [ "jmp"; d ] -> M.IJmp (cz_of_dec d)
  | [ "jt"; d ] -> M.IJmpCond (true, cz_of_dec d)
  | [ "jf"; d ] -> M.IJmpCond (false, cz_of_dec d)
  | [ "mklist"; n ] -> M.IMkList (cz_of_dec n)
  | [ "mkdict"; n ] -> M.IMkDict (cz_of_dec n)
  | [ "index" ] -> M.IIndex
  | [ "access" ] -> M.IAccess
  | [ "call"; n ] -> M.ICall (cz_of_dec n)
  | [ "fmt"; n ] -> M.IFmt (cz_of_dec n)
  | _ -> raise (Parse_error ("bad instr " ^ tok))

let rec print_value (b : Buffer.t) (v : M.value) : unit =
  let add = Buffer.add_string b in
  match v with
  | M.VInt z -> add "i"; add (dec_of_cz z)
  | M.VUInt z -> add "u"; add (dec_of_cz z)
  | M.VFloat f -> add "f"; add (hex_of_f64 f)
  | M.VBool true -> add "b1"
  | M.VBool false -> add "b0"
  | M.VString s -> add "s"; add (hex_of_bytes s)
  | M.VBytes s -> add "y"; add (hex_of_bytes s)
  | M.VList l ->
      add "L(";
      List.iter (fun x -> add " "; print_value b x) l;
      add " )"
  | M.VMap m ->
      add "M(";
      List.iter (fun (k, x) -> add " s"; add (hex_of_bytes k); add " "; print_value b x) m;
      add " )"
  | M.VNull -> add "n"
  | M.VIdent s -> add "I"; add (hex_of_bytes s)
  | M.VType s -> add "T"; add (hex_of_bytes s)
  | M.VTime z -> add "t"; add (dec_of_cz z)
  | M.VDur z -> add "d"; add (dec_of_cz z)
  | M.VCode c -> print_code b c
  | M.VErr e -> add (tok_of_err e)

and print_code b c =
  Buffer.add_string b "C(";
  List.iter (fun i -> Buffer.add_string b " "; print_instr b i) c;
  Buffer.add_string b " )"

and print_instr b (i : M.instr) : unit =
  let add = Buffer.add_string b in
  match i with
  | M.IPush v -> add "P "; print_value b v
  | M.IPop -> add "pop"
  | M.ITest -> add "test"
  | M.IDup -> add "dup"
  | M.IOr -> add "or"
  | M.IAnd -> add "and"
  | M.INot -> add "not"
  | M.INeg -> add "neg"
  | M.IAdd -> add "add"
  | M.ISub -> add "sub"
  | M.IMul -> add "mul"
  | M.IDiv -> add "div"
  | M.IMod -> add "mod"
  | M.ILt -> add "lt"
  | M.ILe -> add "le"
  | M.IEq -> add "eq"
  | M.INe -> add "ne"
  | M.IGe -> add "ge"
  | M.IGt -> add "gt"
  | M.IIn -> add "in"
  | M.IJmp d -> add "jmp:"; add (dec_of_cz d)
  | M.IJmpCond (true, d) -> add "jt:"; add (dec_of_cz d)
  | M.IJmpCond (false, d) -> add "jf:"; add (dec_of_cz d)
  | M.IMkList n -> add "mklist:"; add (dec_of_cz n)
  | M.IMkDict n -> add "mkdict:"; add (dec_of_cz n)
  | M.IIndex -> add "index"
  | M.IAccess -> add "access"
  | M.ICall n -> add "call:"; add (dec_of_cz n)
  | M.IFmt n -> add "fmt:"; add (dec_of_cz n)

let string_of_value v =
  let b = Buffer.create 64 in
  print_value b v;
  Buffer.contents b
