(* astprint.ml — canonical text of the model's syntax tree (same format as harness/src/astprint.rs) *)
module M = Model
open Codec

let loc_str (l : M.loc) = dec_of_cz l.M.l_line ^ ":" ^ dec_of_cz l.M.l_col
let rg (r : M.range) = "@" ^ loc_str r.M.r_start ^ "-" ^ loc_str r.M.r_end
let u8 (s : M.z list) = hex_of_bytes (M.utf8_encode s)

let relop = function M.RLe -> "Le" | M.RLt -> "Lt" | M.RGe -> "Ge" | M.RGt -> "Gt" | M.REq -> "Eq" | M.RNe -> "Ne" | M.RIn -> "In"
let cmpop = function M.CEq -> "Eq" | M.CNeq -> "Neq" | M.CGt -> "Gt" | M.CGe -> "Ge" | M.CLt -> "Lt" | M.CLe -> "Le"
let mtype = function
  | M.MTInt -> "Int" | M.MTUint -> "Uint" | M.MTFloat -> "Float" | M.MTString -> "String" | M.MTBool -> "Bool"
  | M.MTBytes -> "Bytes" | M.MTList -> "List" | M.MTObject -> "Object" | M.MTNull -> "Null"
  | M.MTTimestamp -> "Timestamp" | M.MTDuration -> "Duration" | M.MTType -> "Type" | M.MTDyn -> "Dyn"

let rec expr b (e : M.expr) =
  let add = Buffer.add_string b in
  match e with
  | M.ETernary (r, c, t, f) -> add ("(Tern" ^ rg r ^ " "); cor b c; add " "; cor b t; add " "; expr b f; add ")"
  | M.EMatch (r, c, cases) ->
      add ("(Match" ^ rg r ^ " "); expr b c;
      List.iter (fun (M.MCase (cr, p, e)) -> add (" (Case" ^ rg cr ^ " "); pattern b p; add " "; expr b e; add ")") cases;
      add ")"
  | M.EUnary (r, c) -> add ("(EU" ^ rg r ^ " "); cor b c; add ")"
and pattern b p =
  let add = Buffer.add_string b in
  match p with
  | M.MPatCmp (r, opr, op, o) -> add ("(PCmp" ^ rg r ^ " " ^ rg opr ^ " " ^ cmpop op ^ " "); cor b o; add ")"
  | M.MPatType (r, tr, ty, _) -> add ("(PType" ^ rg r ^ " " ^ rg tr ^ " " ^ mtype ty ^ ")")
  | M.MPatAny (r, ar) -> add ("(PAny" ^ rg r ^ " " ^ rg ar ^ ")")
and cor b e =
  let add = Buffer.add_string b in
  match e with
  | M.OrBin (r, l, rhs) -> add ("(Or" ^ rg r ^ " "); cor b l; add " "; cand b rhs; add ")"
  | M.OrUn (r, a) -> add ("(OrU" ^ rg r ^ " "); cand b a; add ")"
and cand b e =
  let add = Buffer.add_string b in
  match e with
  | M.AndBin (r, l, rhs) -> add ("(And" ^ rg r ^ " "); cand b l; add " "; rel b rhs; add ")"
  | M.AndUn (r, a) -> add ("(AndU" ^ rg r ^ " "); rel b a; add ")"
and rel b e =
  let add = Buffer.add_string b in
  match e with
  | M.RelBin (r, l, op, rhs) -> add ("(Rel" ^ rg r ^ " " ^ relop op ^ " "); rel b l; add " "; addn b rhs; add ")"
  | M.RelUn (r, a) -> add ("(RelU" ^ rg r ^ " "); addn b a; add ")"
and addn b e =
  let add = Buffer.add_string b in
  match e with
  | M.AddBin (r, l, op, rhs) ->
      add ("(AddB" ^ rg r ^ " " ^ (match op with M.AOAdd -> "Add" | M.AOSub -> "Sub") ^ " "); addn b l; add " "; mult b rhs; add ")"
  | M.AddUn (r, a) -> add ("(AddU" ^ rg r ^ " "); mult b a; add ")"
and mult b e =
  let add = Buffer.add_string b in
  match e with
  | M.MulBin (r, l, op, rhs) ->
      add ("(MulB" ^ rg r ^ " " ^ (match op with M.MOMul -> "Mult" | M.MODiv -> "Div" | M.MOMod -> "Mod") ^ " ");
      mult b l; add " "; unary b rhs; add ")"
  | M.MulUn (r, a) -> add ("(MulU" ^ rg r ^ " "); unary b a; add ")"
and oplist b o =
  let add = Buffer.add_string b in
  match o with
  | M.OLCons (r, t) -> add ("(OL" ^ rg r ^ " "); oplist b t; add ")"
  | M.OLEmpty r -> add ("(OE" ^ rg r ^ ")")
and unary b e =
  let add = Buffer.add_string b in
  match e with
  | M.UnMember (r, m) -> add ("(UM" ^ rg r ^ " "); member b m; add ")"
  | M.UnNot (r, n, m) -> add ("(UNot" ^ rg r ^ " "); oplist b n; add " "; member b m; add ")"
  | M.UnNeg (r, n, m) -> add ("(UNeg" ^ rg r ^ " "); oplist b n; add " "; member b m; add ")"
and member b (M.Member (r, p, ms)) =
  let add = Buffer.add_string b in
  add ("(Mem" ^ rg r ^ " "); primary b p;
  List.iter (fun m ->
    add " ";
    match m with
    | M.MPAccess (r, ir, name) -> add ("(Acc" ^ rg r ^ " " ^ rg ir ^ " " ^ u8 name ^ ")")
    | M.MPCall (r, args) -> add ("(Call" ^ rg r ^ rg r); List.iter (fun a -> add " "; expr b a) args; add ")"
    | M.MPIndex (r, e) -> add ("(Idx" ^ rg r ^ " "); expr b e; add ")") ms;
  add ")"
and primary b p =
  let add = Buffer.add_string b in
  match p with
  | M.PrIdent (r, n) -> add ("(Id" ^ rg r ^ " " ^ u8 n ^ ")")
  | M.PrParens (r, e) -> add ("(Par" ^ rg r ^ " "); expr b e; add ")"
  | M.PrList (r, es) -> add ("(List" ^ rg r ^ rg r); List.iter (fun a -> add " "; expr b a) es; add ")"
  | M.PrObj (r, inits) ->
      add ("(Obj" ^ rg r ^ rg r);
      List.iter (fun (M.ObjInit (ir, k, v)) -> add (" (Init" ^ rg ir ^ " "); expr b k; add " "; expr b v; add ")") inits;
      add ")"
  | M.PrLit (r, l) ->
      add ("(Lit" ^ rg r ^ " ");
      (match l with
       | M.LNull -> add "Null"
       | M.LInt v -> add ("Int:" ^ dec_of_cz v)
       | M.LUInt v -> add ("UInt:" ^ dec_of_cz v)
       | M.LFloat f -> add ("Float:" ^ hex_of_f64 f)
       | M.LFStr segs ->
           add ("FStr:" ^ String.concat "," (List.map (function
             | M.FLit s -> "L" ^ u8 s | M.FExpr s -> "E" ^ u8 s) segs))
       | M.LStr s -> add ("Str:" ^ u8 s)
       | M.LBytes s -> add ("Bytes:" ^ hex_of_bytes s)
       | M.LBool bb -> add (if bb then "Bool:1" else "Bool:0"));
      add ")"

let expr_string e = let b = Buffer.create 256 in expr b e; Buffer.contents b
