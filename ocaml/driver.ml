(* driver.ml — runs the extracted model on a case file: one case per line
   "<kind> <payload tokens>", one result line per case. *)
module M = Model
open Codec

let binop_of = function
  | "add" -> M.OAdd | "sub" -> M.OSub | "mul" -> M.OMul | "div" -> M.ODiv | "mod" -> M.OMod
  | "lt" -> M.OLt | "le" -> M.OLe | "eq" -> M.OEq | "ne" -> M.ONe | "ge" -> M.OGe | "gt" -> M.OGt
  | "in" -> M.OIn | "or" -> M.OOr | "and" -> M.OAnd | "index" -> M.OIndex
  | s -> raise (Parse_error ("bad binop " ^ s))

let rec nat_of_int (n : int) : M.nat = if n <= 0 then M.O else M.S (nat_of_int (n - 1))
let big_fuel = lazy (nat_of_int 300000)

let expect t s = let x = next t in if x <> s then raise (Parse_error ("expected " ^ s ^ " got " ^ x))

(* P( name C( .. ) ... ) *)
let parse_progs t =
  expect t "P(";
  let rec go acc = match peek t with
    | Some ")" -> ignore (next t); List.rev acc
    | _ -> let n = bytes_of_hex (next t) in
           (match parse_value t with
            | M.VCode c -> go ((n, c) :: acc)
            | _ -> raise (Parse_error "prog code")) in
  go []

(* B( name value ... ) : later bindings replace earlier ones *)
let parse_binds t =
  expect t "B(";
  let rec go m = match peek t with
    | Some ")" -> ignore (next t); m
    | _ -> let n = bytes_of_hex (next t) in
           let v = parse_value t in go (M.map_insert m n v) in
  go []

(* F( name kind [value] ... ) *)
let parse_ufuncs t =
  expect t "F(";
  let rec go acc = match peek t with
    | Some ")" -> ignore (next t); List.rev acc
    | _ -> let n = bytes_of_hex (next t) in
           let u = (match next t with
             | "const" -> M.UFConst (parse_value t)
             | "arg0" -> M.UFArg0
             | "this" -> M.UFThis
             | "args" -> M.UFArgs
             | s -> raise (Parse_error ("ufun " ^ s))) in
           go ((n, u) :: acc) in
  go []

let print_log (lg : ((M.z list * M.value) * M.value list) list) : string =
  let b = Buffer.create 64 in
  Buffer.add_string b " LOG(";
  List.iter (fun ((n, this), args) ->
    Buffer.add_string b " "; Buffer.add_string b (hex_of_bytes n);
    Buffer.add_string b " "; print_value b this;
    Buffer.add_string b " "; print_value b (M.VList args)) (List.rev lg);
  Buffer.add_string b " )";
  Buffer.contents b

let print_res ((r, lg) : M.value M.res * 'a) (plog : 'a -> string) : string =
  match r with
  | M.ROk v -> "OK " ^ string_of_value v ^ plog lg
  | M.RErr e -> "ERR " ^ tok_of_err e ^ plog lg
  | M.RPanic -> "PANIC"
  | M.RFuel -> "MODEL_FUEL"
  | M.RUnmod -> "UNMOD"

let tok_name (t : M.token) : string =
  match t with
  | M.TQuestion -> "Question" | M.TColon -> "Colon" | M.TAdd -> "Add" | M.TMinus -> "Minus"
  | M.TMultiply -> "Multiply" | M.TDivide -> "Divide" | M.TMod -> "Mod" | M.TNot -> "Not" | M.TDot -> "Dot"
  | M.TComma -> "Comma" | M.TLBracket -> "LBracket" | M.TRBracket -> "RBracket" | M.TLBrace -> "LBrace"
  | M.TRBrace -> "RBrace" | M.TLParen -> "LParen" | M.TRParen -> "RParen" | M.TLessThan -> "LessThan"
  | M.TGreaterThan -> "GreaterThan" | M.TOrOr -> "OrOr" | M.TAndAnd -> "AndAnd" | M.TLessEqual -> "LessEqual"
  | M.TGreaterEqual -> "GreaterEqual" | M.TEqualEqual -> "EqualEqual" | M.TNotEqual -> "NotEqual"
  | M.TIn -> "In" | M.TNull -> "Null" | M.TMatch -> "Match" | M.TCase -> "Case"
  | M.TBoolLit b -> if b then "Bool:1" else "Bool:0"
  | M.TIntLit v -> "Int:" ^ dec_of_cz v
  | M.TUIntLit v -> "UInt:" ^ dec_of_cz v
  | M.TFloatLit f -> "Float:" ^ hex_of_f64 f
  | M.TStringLit s -> "Str:" ^ hex_of_bytes (M.utf8_encode s)
  | M.TFStringLit segs ->
      "FStr:" ^ String.concat "," (List.map (function
        | M.FLit s -> "L" ^ hex_of_bytes (M.utf8_encode s)
        | M.FExpr s -> "E" ^ hex_of_bytes (M.utf8_encode s)) segs)
  | M.TByteStringLit b -> "Bytes:" ^ hex_of_bytes b
  | M.TIdent s -> "Ident:" ^ hex_of_bytes (M.utf8_encode s)

let loc_str (l : M.loc) = dec_of_cz l.M.l_line ^ ":" ^ dec_of_cz l.M.l_col

let decode_src (h : string) : M.z list =
  match M.utf8_decode (bytes_of_hex h) with
  | Some cs -> cs
  | None -> raise (Parse_error "source not utf8")

let lex_case (src : M.z list) : string =
  let b = Buffer.create 64 in
  let rec go (tz : M.tokenizer) =
    match M.tz_next tz with
    | M.TOk (Some t, tz') ->
        Buffer.add_string b (tok_name t.M.t_tok);
        Buffer.add_string b ("@" ^ loc_str t.M.t_loc.M.r_start ^ "-" ^ loc_str t.M.t_loc.M.r_end ^ " ");
        go tz'
    | M.TOk (None, tz') -> Buffer.add_string b ("END@" ^ loc_str (M.tz_loc tz'))
    | M.TErr l -> Buffer.add_string b ("ERR@" ^ loc_str l)
    | M.TFuel -> Buffer.add_string b "MODEL_FUEL" in
  go (M.tz_init src);
  Buffer.contents b

let run_case (line : string) : string =
  let t = mk_toks line in
  match next t with
  | "binop" ->
      let o = binop_of (next t) in
      let a = parse_value t in
      let b = parse_value t in
      string_of_value (M.binop_eval o a b)
  | "unop" ->
      let o = match next t with "not" -> M.UNot | "neg" -> M.UNeg | s -> raise (Parse_error s) in
      let a = parse_value t in
      string_of_value (M.unop_eval o a)
  | "ord" ->
      let a = parse_value t in
      let b = parse_value t in
      (match M.ord a b with
       | M.Inl (Some M.Lt) -> "lt"
       | M.Inl (Some M.Eq) -> "eq"
       | M.Inl (Some M.Gt) -> "gt"
       | M.Inl None -> "none"
       | M.Inr e -> "ERR " ^ tok_of_err e)
  | "peq" ->
      let a = parse_value t in
      let b = parse_value t in
      if M.peq a b then "b1" else "b0"
  | "truthy" ->
      let a = parse_value t in
      if M.is_truthy a then "b1" else "b0"
  | "echo" -> string_of_value (parse_value t)
  | "wfcode" ->
      (* the proved checker of Spec/WfCode.v on a code block *)
      (match parse_value t with
       | M.VCode c -> if M.wf_code (M.code_depth c) c then "b1" else "b0"
       | _ -> raise (Parse_error "wfcode: code"))
  | "lex" -> let tk = next t in lex_case (decode_src (rest tk))
  | "compile" ->
      let src = decode_src (rest (next t)) in
      (match M.compile_checked (nat_of_int (List.length src + 20000)) src with
       | M.COk (p, _) ->
           let b = Buffer.create 128 in
           Buffer.add_string b "OK "; print_code b p.M.pr_code;
           Buffer.add_string b " PARAMS(";
           List.iter (fun x -> Buffer.add_string b " "; Buffer.add_string b (hex_of_bytes x)) p.M.pr_params;
           Buffer.add_string b " )";
           Buffer.contents b
       | M.CSyntax l -> "ERR Esyn:" ^ loc_str l
       | M.CPanic -> "PANIC"
       | M.CFuel -> "MODEL_FUEL"
       | M.CUnmod -> "UNMOD")
  | "parse" ->
      let src = decode_src (rest (next t)) in
      (match M.parse_program (nat_of_int (List.length src + 2)) src with
       | M.POk (e, _) -> "OK " ^ Astprint.expr_string e
       | M.PErr l -> "ERR Esyn:" ^ loc_str l
       | M.PFuel -> "MODEL_FUEL")
  | "run" ->
      (* run <entry> P( progs ) B( bindings ) F( ufuncs ) *)
      let entry = bytes_of_hex (next t) in
      let progs = parse_progs t in
      let binds = parse_binds t in
      let ufs = parse_ufuncs t in
      let env = { M.e_bound = true; e_params = binds; e_progs = progs; e_ufuncs = ufs;
                  e_runtime = true; e_now = Some M.Z0 } in
      print_res (M.exec (Lazy.force big_fuel) env entry) print_log
  | "evalsrc" ->
      let entry = bytes_of_hex (next t) in
      expect t "S(";
      let rec go acc err = match peek t with
        | Some ")" -> ignore (next t); (List.rev acc, err)
        | _ ->
            let n = bytes_of_hex (next t) in
            let src = decode_src (next t) in
            if err <> None then go acc err else
            (match M.compile_checked (nat_of_int (List.length src + 20000)) src with
             | M.COk (p, _) -> go ((n, p.M.pr_code) :: acc) None
             | M.CSyntax l -> go acc (Some ("CERR " ^ hex_of_bytes n ^ " Esyn:" ^ loc_str l))
             | M.CPanic -> go acc (Some "PANIC")
             | M.CFuel -> go acc (Some "MODEL_FUEL")
             | M.CUnmod -> go acc (Some "UNMOD")) in
      let (progs, err) = go [] None in
      let binds = parse_binds t in
      let ufs = parse_ufuncs t in
      (match err with
       | Some e -> e
       | None ->
           let env = { M.e_bound = true; e_params = binds; e_progs = progs; e_ufuncs = ufs;
                       e_runtime = true; e_now = Some M.Z0 } in
           print_res (M.exec (Lazy.force big_fuel) env entry) print_log)
  | "serform" ->
      (* the serde data-model tree of the compiled program, canonical text *)
      let _fmt = next t in
      let src = decode_src (next t) in
      let rec sd (x : M.sd) : string = match x with
        | M.SDI z -> "i" ^ dec_of_cz z
        | M.SDU z -> "u" ^ dec_of_cz z
        | M.SDF f -> "f" ^ Printf.sprintf "%s" (string_of_value (M.VFloat f))
        | M.SDB b -> if b then "b1" else "b0"
        | M.SDS s -> "s" ^ hex_of_bytes s
        | M.SDSeq l -> "[ " ^ String.concat " " (List.map sd l) ^ " ]"
        | M.SDMap m -> "{ " ^ String.concat " " (List.map (fun (k, v) -> hex_of_bytes k ^ ": " ^ sd v) m) ^ " }"
        | M.SDNone -> "none"
        | M.SDSome y -> "some " ^ sd y
        | M.SDStruct fs -> "S( " ^ String.concat " " (List.map (fun (k, v) -> hex_of_bytes k ^ "= " ^ sd v) fs) ^ " )"
        | M.SDVar (i, n, p) ->
            "V" ^ dec_of_cz i ^ ":" ^ hex_of_bytes n ^
            (match p with
             | M.PUnit -> ""
             | M.PNew y -> " N( " ^ sd y ^ " )"
             | M.PStruct fs -> " P( " ^ String.concat " " (List.map (fun (k, v) -> hex_of_bytes k ^ "= " ^ sd v) fs) ^ " )") in
      (match M.compile_checked (nat_of_int (List.length src + 20000)) src with
       | M.COk (p, _) -> "OK " ^ sd (M.ser_program (M.utf8_encode src) p.M.pr_params p.M.pr_code)
       | M.CSyntax l -> "CERR Esyn:" ^ loc_str l
       | M.CPanic -> "PANIC" | M.CFuel -> "MODEL_FUEL" | M.CUnmod -> "UNMOD")
  | "tosql" ->
      let src = decode_src (next t) in
      (match M.parse_program (nat_of_int (List.length src + 20000)) src with
       | M.POk (e, _) ->
           (match M.sql_expr e with
            | M.SqlOk txt -> "SQL " ^ hex_of_bytes (M.utf8_encode txt)
            | M.SqlUnsupported -> "NOSQL"
            | M.SqlUnmod -> "UNMOD")
       | M.PErr l -> "CERR Esyn:" ^ loc_str l
       | M.PFuel -> "MODEL_FUEL")
  | "jsonbind" ->
      let src = decode_src (next t) in
      let jb = parse_binds t in
      let db = parse_binds t in
      let bad = ref false in
      let binds = List.fold_left (fun m (k, v) ->
        match M.json_of_value v with
        | Some j -> M.map_insert m k (M.value_of_json j)
        | None -> bad := true; m) db jb in
      if !bad then "BADCASE value has no JSON form" else
      (match M.compile_checked (nat_of_int (List.length src + 20000)) src with
       | M.COk (p, _) ->
           let env = { M.e_bound = true; e_params = binds; e_progs = [(bytes_of_ascii "main", p.M.pr_code)]; e_ufuncs = [];
                       e_runtime = true; e_now = Some M.Z0 } in
           print_res (M.exec (Lazy.force big_fuel) env (bytes_of_ascii "main")) (fun _ -> "")
       | M.CSyntax l -> "CERR Esyn:" ^ loc_str l
       | M.CPanic -> "PANIC" | M.CFuel -> "MODEL_FUEL" | M.CUnmod -> "UNMOD")
  | "history" ->
      let ops = ref [] in
      let num () = cz_of_dec (next t) in
      while peek t <> None do
        (match next t with
         | "addp" -> let c = num () in let n = bytes_of_hex (next t) in let src = decode_src (next t) in
                     ops := M.OAddProgram (c, n, src) :: !ops
         | "bind" -> let b = num () in let n = bytes_of_hex (next t) in let v = parse_value t in
                     ops := M.OBind (b, n, v) :: !ops
         | "clonec" -> let f = num () in let to_ = num () in ops := M.OCloneCtx (f, to_) :: !ops
         | "cloneb" -> let f = num () in let to_ = num () in ops := M.OCloneBind (f, to_) :: !ops
         | "exec" -> let c = num () in let b = num () in let n = bytes_of_hex (next t) in
                     ops := M.OExec (c, b, n) :: !ops
         | "params" -> let c = num () in let n = bytes_of_hex (next t) in ops := M.OParams (c, n) :: !ops
         | ";" -> ()
         | o -> raise (Parse_error ("history op " ^ o)))
      done;
      let (_, outs) = M.run_ops (nat_of_int 30000) M.empty_world (List.rev !ops) in
      let unmod = ref false in
      let strs = List.map (function
        | M.OutNone -> "-"
        | M.OutCompileError l -> "CERR Esyn:" ^ loc_str l
        | M.OutResult (M.ROk v) -> "OK " ^ string_of_value v
        | M.OutResult (M.RErr e) -> "ERR " ^ tok_of_err e
        | M.OutResult M.RUnmod -> unmod := true; "UNMOD"
        | M.OutResult M.RPanic -> "PANIC"
        | M.OutResult M.RFuel -> "MODEL_FUEL"
        | M.OutParams (Some ps) -> "PARAMS( " ^ String.concat " " (List.map hex_of_bytes ps) ^ " )"
        | M.OutParams None -> "NOPROG"
        | M.OutUnmodelled -> unmod := true; "UNMOD") outs in
      if !unmod then "UNMOD" else String.concat " ; " strs
  | "func" ->
      (* func <name> <this> L( args ) *)
      let name = bytes_of_hex (next t) in
      let this = parse_value t in
      let args = (match parse_value t with M.VList l -> l | _ -> raise (Parse_error "args")) in
      (match M.call_default (Some M.Z0) name this args with
       | None -> "NOFUNC"
       | Some (M.ROk v) -> string_of_value v
       | Some M.RUnmod -> "UNMOD"
       | Some M.RPanic -> "PANIC"
       | Some (M.RErr e) -> "ERR " ^ tok_of_err e
       | Some M.RFuel -> "MODEL_FUEL")
  | "ctor" ->
      let name = bytes_of_hex (next t) in
      let args = (match parse_value t with M.VList l -> l | _ -> raise (Parse_error "args")) in
      (match M.construct_type (Some M.Z0) name args with
       | M.ROk v -> string_of_value v
       | M.RUnmod -> "UNMOD"
       | M.RPanic -> "PANIC"
       | M.RErr e -> "ERR " ^ tok_of_err e
       | M.RFuel -> "MODEL_FUEL")
  | "spec_arith" ->
      (* what C03 requires of <op> a b on numeric operands: a value, MUSTERR, or NA *)
      let o = (match next t with
        | "add" -> M.AAdd | "sub" -> M.ASub | "mul" -> M.AMul | "div" -> M.ADiv | "mod" -> M.ARem
        | s -> raise (Parse_error s)) in
      let a = parse_value t in
      let b = parse_value t in
      (match M.num_of a, M.num_of b with
       | Some na, Some nb ->
           (match M.arith_spec o (M.widen na nb) with
            | Some v -> string_of_value v
            | None -> "MUSTERR")
       | _ -> "NA")
  | "wf" -> if M.wf (parse_value t) then "b1" else "b0"
  | k -> "UNSUPPORTED " ^ k

let () =
  let ic = if Array.length Sys.argv > 1 then open_in Sys.argv.(1) else stdin in
  let oc = if Array.length Sys.argv > 2 then open_out Sys.argv.(2) else stdout in
  (try
     while true do
       let line = input_line ic in
       let r = try run_case line with
         | Parse_error m -> "BADCASE " ^ m
         | Stack_overflow -> "MODEL_STACK_OVERFLOW"
       in
       output_string oc r;
       output_char oc '\n'
     done
   with End_of_file -> ());
  close_out oc
