(* driver.ml — runs the extracted model on a case file: one case per line
   "<kind> <payload tokens>", one result line per case. *)
module M = Model
open Codec

let binop_of = function
  | "add" -> M.OAdd | "sub" -> M.OSub | "mul" -> M.OMul | "div" -> M.ODiv | "mod" -> M.OMod
  | "lt" -> M.OLt | "le" -> M.OLe | "eq" -> M.OEq | "ne" -> M.ONe | "ge" -> M.OGe | "gt" -> M.OGt
  | "in" -> M.OIn | "or" -> M.OOr | "and" -> M.OAnd | "index" -> M.OIndex
  | s -> raise (Parse_error ("bad binop " ^ s))

let run_case (line : string) : string =
  let t = mk_toks line in
  match next t with
  | "binop" ->
      let o = binop_of (next t) in
      let a = parse_value t in
      let b = parse_value t in
      string_of_value (M.binop_eval o a b)
  | "unop" ->
      let o = match next t with "not" -> M.UNot | "neg" -> M.UNeg | s -> raise (Parse_error s) in
      let a = parse_value t in
      string_of_value (M.unop_eval o a)
  | "ord" ->
      let a = parse_value t in
      let b = parse_value t in
      (match M.ord a b with
       | M.Inl (Some M.Lt) -> "lt"
       | M.Inl (Some M.Eq) -> "eq"
       | M.Inl (Some M.Gt) -> "gt"
       | M.Inl None -> "none"
       | M.Inr e -> "ERR " ^ tok_of_err e)
  | "peq" ->
      let a = parse_value t in
      let b = parse_value t in
      if M.peq a b then "b1" else "b0"
  | "truthy" ->
      let a = parse_value t in
      if M.is_truthy a then "b1" else "b0"
  | "echo" -> string_of_value (parse_value t)
  | "spec_arith" ->
      (* what C03 requires of <op> a b on numeric operands: a value, MUSTERR, or NA *)
      let o = (match next t with
        | "add" -> M.AAdd | "sub" -> M.ASub | "mul" -> M.AMul | "div" -> M.ADiv | "mod" -> M.ARem
        | s -> raise (Parse_error s)) in
      let a = parse_value t in
      let b = parse_value t in
      (match M.num_of a, M.num_of b with
       | Some na, Some nb ->
           (match M.arith_spec o (M.widen na nb) with
            | Some v -> string_of_value v
            | None -> "MUSTERR")
       | _ -> "NA")
  | "wf" -> if M.wf (parse_value t) then "b1" else "b0"
  | k -> "UNSUPPORTED " ^ k

let () =
  let ic = if Array.length Sys.argv > 1 then open_in Sys.argv.(1) else stdin in
  let oc = if Array.length Sys.argv > 2 then open_out Sys.argv.(2) else stdout in
  (try
     while true do
       let line = input_line ic in
       let r = try run_case line with
         | Parse_error m -> "BADCASE " ^ m
         | Stack_overflow -> "MODEL_STACK_OVERFLOW"
       in
       output_string oc r;
       output_char oc '\n'
     done
   with End_of_file -> ());
  close_out oc
