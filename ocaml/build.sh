#!/bin/sh
# builds the model driver from the extracted model (run after the Coq build)
set -e
cd "$(dirname "$0")"
mkdir -p _build
cp extracted/model.ml extracted/model.mli codec.ml astprint.ml driver.ml _build/
cd _build
ocamlfind ocamlopt -O2 -package zarith -linkpkg -w -a model.mli model.ml codec.ml astprint.ml driver.ml -o ../model_driver 2>&1 || \
ocamlfind ocamlopt -package zarith -linkpkg -w -a model.mli model.ml codec.ml astprint.ml driver.ml -o ../model_driver
