"""C04 — equality and ordering obey their algebraic laws; sort/min/max agree with them."""
import random
from streams import *

OPS6 = ["eq", "ne", "lt", "le", "gt", "ge"]


def pyval(tag, tok):
    """an exact Python key for the value, or None"""
    if tag in ("int", "uint"):
        return int(tok[1:])
    if tag == "double":
        x = bits_f(int(tok[1:], 16))
        return None if x != x else x
    if tag == "bool":
        return tok == "b1"
    if tag in ("string", "bytes"):
        return bytes.fromhex(tok[1:])
    if tag in ("timestamp", "duration"):
        return int(tok[1:])
    return None


CLASS = {"int": "num", "uint": "num", "double": "num", "bool": "num", "string": "string", "bytes": "bytes",
         "timestamp": "timestamp", "duration": "duration"}


def num_key(tag, v):
    if tag == "bool":
        return int(v)
    return v


def expected_cmp(ta, a, tb, b):
    """-1/0/1 by the property's order for same-class non-NaN operands; 'nan' / None otherwise"""
    if CLASS.get(ta) != CLASS.get(tb) or CLASS.get(ta) is None:
        return None
    va, vb = pyval(ta, a), pyval(tb, b)
    if va is None or vb is None:
        return "nan"
    if CLASS[ta] == "num":
        ka, kb = num_key(ta, va), num_key(tb, vb)
        # an integer meets a double as its nearest double; int/uint/bool compare as integers
        if isinstance(ka, float) or isinstance(kb, float):
            ka, kb = float(ka), float(kb)
        return (ka > kb) - (ka < kb)
    return (va > vb) - (va < vb)


def run(chk):
    rng = random.Random(chk.seed)
    if not builds_or_die(chk):
        return
    pool = []
    pool += [("int", vi(z)) for z in INTS]
    pool += [("uint", vu(z)) for z in UINTS]
    pool += [("double", vf_bits(b)) for b in FLOAT_BITS]
    pool += [("bool", vb(b)) for b in BOOLS]
    pool += [("string", vs(s)) for s in STRINGS]
    pool += [("bytes", vy(b)) for b in BYTESS]
    pool += [("timestamp", vtime(t)) for t in TIMES]
    pool += [("duration", vdur(d)) for d in DURS]
    pool += [("null", VNULL), ("list", vlist([vi(1)])), ("list", vlist([])), ("map", vmap([("a", vi(1))])),
             ("type", vtype("int")), ("err", "Ediv"), ("list", vlist([vf(1.0), vi(2)])), ("list", vlist([vi(1), vu(2)]))]
    if chk.tier == "thorough":
        for _ in range(60):
            pool.append(("int", vi(rng.randrange(I64_MIN, I64_MAX + 1))))
            pool.append(("uint", vu(rng.randrange(0, U64_MAX + 1))))
            pool.append(("double", vf_bits(rng.getrandbits(64))))
    n = len(pool)
    cases = []
    for (ta, a) in pool:
        for (tb, b) in pool:
            for op in OPS6:
                cases.append("binop %s %s %s" % (op, a, b))
    impl, model = tie(chk, "comparison operators over all ordered pairs", cases, isolate=False)
    R = {}
    k = 0
    for i in range(n):
        for j in range(n):
            R[(i, j)] = dict(zip(OPS6, impl[k:k + 6]))
            k += 6
    nontrivial = 0
    for i, (ta, a) in enumerate(pool):
        for j, (tb, b) in enumerate(pool):
            r = R[(i, j)]
            rep = dict(a=a, b=b, results=r, replay_case="binop eq %s %s" % (a, b))
            if ta == "err" or tb == "err":
                continue
            nontrivial += 1
            # complement
            if r["eq"] in ("b0", "b1"):
                if r["ne"] != ("b0" if r["eq"] == "b1" else "b1"):
                    chk.violation("!= is not the complement of ==", rep)
            elif r["ne"] != r["eq"]:
                chk.violation("!= does not carry the failure of ==", rep)
            # symmetry
            if r["eq"] != R[(j, i)]["eq"] and ta not in ("list", "map") and tb not in ("list", "map"):
                chk.violation("== is not symmetric", rep)
            e = expected_cmp(ta, a, tb, b)
            if e is None:
                if CLASS.get(ta) is not None and CLASS.get(tb) is not None or True:
                    for op in ("lt", "le", "gt", "ge"):
                        if not r[op].startswith("E"):
                            chk.violation("ordering values of unrelated types must be an error", rep)
                            break
                continue
            if e == "nan":
                if i == j and r["eq"] != "b0":
                    chk.violation("NaN == NaN must be false", rep)
                continue
            want = dict(eq=e == 0, ne=e != 0, lt=e < 0, le=e <= 0, gt=e > 0, ge=e >= 0)
            for op in OPS6:
                if r[op] != ("b1" if want[op] else "b0"):
                    chk.violation("comparison disagrees with the order of the denoted values "
                                  "(trichotomy / int-uint same number / integer meets double as nearest double)",
                                  dict(rep, op=op, expected=want[op]))
                    break
            if i == j and r["eq"] != "b1":
                chk.violation("== is not reflexive on a value without NaN", rep)
    # transitivity over all triples of every class, from the table of pair results
    triples = 0
    byclass = {}
    for i, (t, v) in enumerate(pool):
        c = CLASS.get(t)
        if c and pyval(t, v) is not None:
            byclass.setdefault("intuint" if t in ("int", "uint") else ("double" if t == "double" else c), []).append(i)
    for c, idx in byclass.items():
        for i in idx:
            for j in idx:
                if R[(i, j)]["le"] != "b1":
                    continue
                for kx in idx:
                    triples += 1
                    if R[(j, kx)]["le"] == "b1" and R[(i, kx)]["le"] != "b1":
                        chk.violation("<= is not transitive", dict(a=pool[i][1], b=pool[j][1], c=pool[kx][1], cls=c))
    chk.stream("== != < <= > >= over all ordered pairs of the boundary pool (%d values)" % n, len(cases), nontrivial * 6,
               exhaustive=True)
    chk.stream("transitivity over all triples within each comparable class (from the pair table)", triples, triples,
               exhaustive=True)
    chk.sample(dict(case=cases[7], impl=impl[7], model=model[7]))
    chk.sample(dict(case=cases[len(cases) // 2], impl=impl[len(cases) // 2], model=model[len(cases) // 2]))

    # sort / min / max
    fcases, expect = [], []
    m = 1500 if chk.tier == "quick" else 20000

    def gen_list():
        k = rng.random()
        ln = rng.choice([0, 1, 2, 3, 5, 8, 13, 25, 40])
        if k < 0.35:
            items = [rng.choice([("int", vi(rng.choice(INTS))), ("uint", vu(rng.choice(UINTS))),
                                 ("int", vi(rng.randrange(-5, 6)))]) for _ in range(ln)]
        elif k < 0.55:
            items = [("double", vf_bits(rng.choice([b for b in FLOAT_BITS if b != 0x7ff8000000000000]))) for _ in range(ln)]
        elif k < 0.75:
            items = [("string", vs(rng.choice(STRINGS))) for _ in range(ln)]
        elif k < 0.85:
            items = [("bytes", vy(rng.choice(BYTESS))) for _ in range(ln)]
        elif k < 0.92:
            items = [("timestamp", vtime(rng.choice(TIMES))) for _ in range(ln)]
        else:
            items = [rng.choice(pool[:200]) for _ in range(ln)]      # mixed: mostly not mutually comparable
        return items

    for _ in range(m):
        items = gen_list()
        toks = [v for _, v in items]
        comparable = len(items) > 0 and all(expected_cmp(items[0][0], items[0][1], t, v) not in (None, "nan")
                                            for t, v in items)
        import functools
        if comparable or not items:
            def cmpf(x, y):
                return expected_cmp(x[0], x[1], y[0], y[1])
            srt = sorted(items, key=functools.cmp_to_key(cmpf))           # Python's sort is stable
            mn = mx = None
            for it in items:
                if mn is None or cmpf(it, mn) < 0:
                    mn = it
                if mx is None or cmpf(it, mx) > 0:
                    mx = it
        else:
            srt = mn = mx = None
        fcases.append("func %s %s L( )" % (hx("sort"), vlist(toks)))
        expect.append(("sort", vlist([v for _, v in srt]) if srt is not None else None, items))
        if items:
            fcases.append("func %s n %s" % (hx("min"), vlist(toks)))
            expect.append(("min", mn[1] if mn else None, items))
            fcases.append("func %s n %s" % (hx("max"), vlist(toks)))
            expect.append(("max", mx[1] if mx else None, items))
    fi, fm = tie(chk, "sort/min/max", fcases)
    for c, r, (kind, want, items) in zip(fcases, fi, expect):
        if want is not None:
            mixed_num = len({t for t, _ in items} & {"double"}) > 0 and len({t for t, _ in items} & {"int", "uint"}) > 0
            if r != want and not mixed_num:
                chk.violation("%s does not return the %s under the comparison order" % (
                    kind, "stable ordered permutation" if kind == "sort" else "first least/greatest argument"),
                    dict(case=c, impl=r, expected=want))
        elif kind == "sort" and not r.startswith("E"):
            chk.violation("sort of elements that are not mutually comparable must be an error", dict(case=c, impl=r))
    chk.stream("sort / min / max on lists of comparable elements (with duplicates) and mixed lists", len(fcases),
               len(set(fcases)))
    chk.sample(dict(case=fcases[3], impl=fi[3], model=fm[3]))
    chk.cov["rule"] = ("all ordered pairs (x 6 operators) and all triples within each comparable class over the boundary pool; "
                       "a pair is non-trivial when neither operand is an error value; lists for sort/min/max are drawn from "
                       "the same pools with lengths 0..40; expected results are computed independently from the denoted "
                       "numbers / UTF-8 byte strings")


def replay(chk, rep):
    if not builds_or_die(chk):
        return
    c = rep.get("replay_case") or rep.get("case")
    r = run_impl([c], isolate=True)[0]
    m = run_model([c])[0]
    print("case:", c, "\nimpl:", r, "\nmodel:", m)
    if "expected" in rep and isinstance(rep["expected"], str) and r != rep["expected"]:
        chk.violation(rep.get("what", "replayed"), rep)
    elif r != m:
        chk.violation(rep.get("what", "replayed"), rep)
