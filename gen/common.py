"""Shared machinery of the rscel checks: builds (Coq cone, extracted model
driver, Rust harness from /repo's working tree), running case files through
implementation and model, diffing, evidence and violation reporting."""
import fcntl
import hashlib
import json
import os
import re
import subprocess
import sys
import time

ROOT = os.path.dirname(os.path.dirname(os.path.abspath(__file__)))
COQ = os.path.join(ROOT, "coq")
OCAML = os.path.join(ROOT, "ocaml")
HARNESS = os.path.join(ROOT, "harness")
WORK = os.path.join(ROOT, "work")
EVIDENCE = os.path.join(ROOT, "evidence")
REPO = "/repo"
NPROC = min(16, os.cpu_count() or 4)

ALLOWED_AXIOMS = {
    # all four are declared by Coq's standard library (Reals / Classical /
    # FunctionalExtensionality) and reached only through Flocq's theorems.
    "ClassicalDedekindReals.sig_not_dec",
    "ClassicalDedekindReals.sig_forall_dec",
    "FunctionalExtensionality.functional_extensionality_dep",
    "Classical_Prop.classic",
}

TRUSTED_BASE = [
    "Coq 8.16.1 kernel (coqc; vm_compute used, native_compute not used)",
    "Axioms (stdlib-declared, via Flocq/Reals only): ClassicalDedekindReals.sig_not_dec, "
    "ClassicalDedekindReals.sig_forall_dec, FunctionalExtensionality.functional_extensionality_dep, "
    "Classical_Prop.classic",
    "Flocq 4.1.0 (IEEE754.BinarySingleNaN) and Coq's Floats.SpecFloat",
    "OCaml extraction with ExtrOcamlBasic only (Extract Inductive bool/option/unit/list/prod/sumbool/sumor, "
    "Extract Inlined Constant andb/orb); Z, positive, comparison, spec_float stay Coq datatypes",
    "ocaml/codec.ml + ocaml/driver.ml (text codec, case dispatch; zarith only for decimal<->Z)",
    "harness/ (Rust: public rscel API calls + canonical printer), gen/*.py (generators, differ)",
    "the hand-written model coq/Model/*.v is tied to /repo only by the correspondence check",
]


def log(*a):
    print(*a, file=sys.stderr, flush=True)


class Lock:
    def __init__(self, name):
        os.makedirs(WORK, exist_ok=True)
        self.path = os.path.join(WORK, name + ".lock")

    def __enter__(self):
        self.f = open(self.path, "w")
        fcntl.flock(self.f, fcntl.LOCK_EX)
        return self

    def __exit__(self, *a):
        fcntl.flock(self.f, fcntl.LOCK_UN)
        self.f.close()


def run(cmd, cwd=None, timeout=1800, env=None, check=False):
    e = dict(os.environ)
    if env:
        e.update(env)
    p = subprocess.run(cmd, cwd=cwd, stdout=subprocess.PIPE, stderr=subprocess.STDOUT,
                       timeout=timeout, env=e, text=True, errors="replace")
    if check and p.returncode != 0:
        raise RuntimeError("command failed: %s\n%s" % (cmd, p.stdout[-4000:]))
    return p.returncode, p.stdout


# --------------------------------------------------------------------------
# Coq

FORBIDDEN = re.compile(
    r"\b(Admitted|admit|Axiom|Axioms|Parameter|Parameters|Conjecture|Admit Obligations|"
    r"Unset Guard Checking|Unset Positivity Checking|Unset Universe Checking|bypass_check|"
    r"type-in-type|impredicative-set)\b")
SECTION_ONLY = re.compile(r"^\s*(Variable|Variables|Hypothesis|Hypotheses|Context)\b")


def strip_comments(src):
    out = []
    depth = 0
    i = 0
    n = len(src)
    while i < n:
        if src.startswith("(*", i):
            depth += 1
            i += 2
        elif src.startswith("*)", i) and depth > 0:
            depth -= 1
            i += 2
        else:
            if depth == 0:
                out.append(src[i])
            elif src[i] == "\n":
                out.append("\n")
            i += 1
    return "".join(out)


def scan_forbidden():
    """Returns a list of 'file:line: text' for forbidden vernacular anywhere in coq/."""
    bad = []
    for d, _, fs in os.walk(COQ):
        for f in fs:
            if not f.endswith(".v"):
                continue
            p = os.path.join(d, f)
            src = strip_comments(open(p, errors="replace").read())
            depth = 0
            for ln, line in enumerate(src.split("\n"), 1):
                if re.match(r"^\s*Section\b", line):
                    depth += 1
                if re.match(r"^\s*End\b", line) and depth > 0:
                    depth -= 1
                if FORBIDDEN.search(line):
                    bad.append("%s:%d: %s" % (os.path.relpath(p, ROOT), ln, line.strip()))
                if depth == 0 and SECTION_ONLY.match(line):
                    bad.append("%s:%d: (outside section) %s" % (os.path.relpath(p, ROOT), ln, line.strip()))
    proj = open(os.path.join(COQ, "_CoqProject")).read()
    for w in ("-type-in-type", "-impredicative-set", "-vos", "-vok", "-noinit"):
        if w in proj:
            bad.append("_CoqProject: " + w)
    return bad


def coq_makefile():
    mk = os.path.join(COQ, "Makefile")
    proj = os.path.join(COQ, "_CoqProject")
    if not os.path.exists(mk) or os.path.getmtime(mk) < os.path.getmtime(proj):
        run(["coq_makefile", "-f", "_CoqProject", "-o", "Makefile"], cwd=COQ, check=True)


def build_coq(targets, timeout=2400):
    """make the given .vo targets (full .vo builds).  Returns (ok, output)."""
    with Lock("coq"):
        coq_makefile()
        rc, out = run(["make", "-j%d" % NPROC] + targets, cwd=COQ, timeout=timeout)
        return rc == 0, out


def check_props(pid, clean=False):
    """(Re)compiles Props/<pid>.v on top of its (cached) cone and parses the
    Print Assumptions output.  Returns dict(ok, theorems, closed, axioms, log)."""
    with Lock("coq"):
        coq_makefile()
        if clean:
            run(["make", "clean"], cwd=COQ)
            coq_makefile()
        vo = os.path.join(COQ, "Props", pid + ".vo")
        if os.path.exists(vo):
            os.remove(vo)
        rc, out = run(["make", "-j%d" % NPROC, "Props/%s.vo" % pid], cwd=COQ, timeout=3000)
    src = strip_comments(open(os.path.join(COQ, "Props", pid + ".v")).read())
    theorems = re.findall(r"^\s*(?:Theorem|Lemma|Corollary)\s+(\w+)", src, re.M)
    printed = re.findall(r"^\s*Print Assumptions\s+(\w+)", src, re.M)
    closed = out.count("Closed under the global context")
    axioms = set(m.group(1) for m in re.finditer(r"^([A-Za-z_]\w*(?:\.\w+)+)\s*(?::|$)", out, re.M))
    axiom_blocks = out.count("Axioms:")
    bad_axioms = sorted(a for a in axioms if a not in ALLOWED_AXIOMS)
    ok = (rc == 0 and not bad_axioms and set(theorems) <= set(printed)
          and closed + axiom_blocks == len(printed))
    return dict(ok=ok, rc=rc, theorems=theorems, printed=printed, closed=closed,
                axiom_blocks=axiom_blocks, axioms=sorted(axioms), bad_axioms=bad_axioms, log=out)


# --------------------------------------------------------------------------
# extracted model driver

def build_driver():
    with Lock("ocaml"):
        ok, out = build_coq(["Extract/Extract.vo"])
        if not ok:
            return False, out
        drv = os.path.join(OCAML, "model_driver")
        srcs = [os.path.join(OCAML, "extracted", "model.ml"), os.path.join(OCAML, "codec.ml"), os.path.join(OCAML, "astprint.ml"),
                os.path.join(OCAML, "driver.ml")]
        if (not os.path.exists(drv)) or any(os.path.getmtime(s) > os.path.getmtime(drv) for s in srcs):
            rc, out2 = run(["sh", os.path.join(OCAML, "build.sh")], cwd=OCAML, timeout=900)
            return rc == 0, out + out2
        return True, out


# --------------------------------------------------------------------------
# Rust harness (always rebuilt from /repo's current working tree)

def build_harness(profile="debug"):
    with Lock("cargo"):
        lock = os.path.join(HARNESS, "Cargo.lock")
        if not os.path.exists(lock):
            import shutil
            shutil.copy(os.path.join(REPO, "Cargo.lock"), lock)
        cmd = ["cargo", "build", "--offline"]
        if profile == "release":
            cmd.append("--release")
        env = {"CARGO_NET_OFFLINE": "true",
               "RUSTFLAGS": "--cfg rscel_verif --check-cfg cfg(rscel_verif) -Awarnings"}
        rc, out = run(cmd, cwd=HARNESS, timeout=3000, env=env)
        return rc == 0, out


def harness_bin(profile="debug"):
    return os.path.join(HARNESS, "target", profile, "rscel-verif-harness")


def _write_cases(path, cases):
    with open(path, "w") as f:
        for c in cases:
            f.write(c)
            f.write("\n")


def _read_lines(path):
    if not os.path.exists(path):
        return []
    with open(path, errors="replace") as f:
        return f.read().split("\n")[:-1] if os.path.getsize(path) else []


def _run_sharded(cases, tag, mk_cmd, isolate=False, timeout=1200, env=None):
    """Runs `mk_cmd(cases_file, out_file, start)` over shards in parallel.
    A process that dies (abort, stack overflow, timeout) marks the first
    unanswered case ABORT/TIMEOUT and is restarted after it."""
    os.makedirs(WORK, exist_ok=True)
    n = len(cases)
    if n == 0:
        return []
    nshard = max(1, min(NPROC, (n + 199) // 200))
    shards = [cases[i::nshard] for i in range(nshard)]
    procs = []
    uid = "%s_%d" % (tag, os.getpid())
    e = dict(os.environ)
    if env:
        e.update(env)
    if isolate:
        e["HARNESS_FLUSH"] = "1"
    state = []
    for k, sh in enumerate(shards):
        cf = os.path.join(WORK, "%s_%d.cases" % (uid, k))
        of = os.path.join(WORK, "%s_%d.out" % (uid, k))
        _write_cases(cf, sh)
        if os.path.exists(of):
            os.remove(of)
        state.append(dict(cf=cf, of=of, n=len(sh), start=0, extra={}))
    pending = list(range(nshard))
    deadline = time.time() + timeout
    while pending:
        running = []
        for k in pending:
            st = state[k]
            p = subprocess.Popen(mk_cmd(st["cf"], st["of"], st["start"]), env=e,
                                 stdout=subprocess.DEVNULL, stderr=subprocess.DEVNULL)
            running.append((k, p))
        pending = []
        for k, p in running:
            st = state[k]
            try:
                rc = p.wait(timeout=max(1, deadline - time.time()))
                why = "ABORT(%d)" % rc
            except subprocess.TimeoutExpired:
                p.kill()
                p.wait()
                rc = -1
                why = "TIMEOUT"
            lines = _read_lines(st["of"])
            if rc != 0 or len(lines) < st["n"]:
                done = len(lines)
                if done >= st["n"]:
                    continue
                # case number `done` killed the process
                with open(st["of"], "w") as f:
                    for l in lines[:done]:
                        f.write(l + "\n")
                    f.write(why + "\n")
                st["start"] = done + 1
                if st["start"] < st["n"] and time.time() < deadline:
                    pending.append(k)
                else:
                    with open(st["of"], "a") as f:
                        for _ in range(st["n"] - st["start"]):
                            f.write("NOTRUN\n")
    res = [None] * n
    for k in range(nshard):
        lines = _read_lines(state[k]["of"])
        lines += ["NOTRUN"] * (state[k]["n"] - len(lines))
        for j, l in enumerate(lines[:state[k]["n"]]):
            res[k + j * nshard] = l
        for f in (state[k]["cf"], state[k]["of"]):
            try:
                os.remove(f)
            except OSError:
                pass
    return res


def run_impl(cases, profile="debug", isolate=False, timeout=1200):
    b = harness_bin(profile)
    return _run_sharded(cases, "impl_" + profile, lambda c, o, s: [b, c, o, str(s)],
                        isolate=isolate, timeout=timeout)


def run_model(cases, timeout=1200):
    b = os.path.join(OCAML, "model_driver")
    # the driver has no resume argument: a dying model process is a model bug
    def mk(c, o, s):
        return [b, c, o]
    return _run_sharded(cases, "model", mk, timeout=timeout, env={"OCAMLRUNPARAM": "l=4G"})


# --------------------------------------------------------------------------
# known findings, evidence, reporting

def load_known(pid):
    p = os.path.join(ROOT, "known_findings.jsonl")
    out = []
    if os.path.exists(p):
        for line in open(p):
            line = line.strip()
            if not line or line.startswith("#") or line.startswith("fixed:"):
                continue
            try:
                d = json.loads(line)
            except ValueError:
                continue
            if d.get("property") == pid and d.get("status", "open") == "open":
                out.append(d)
    return out


def hexs(s):
    return s.encode("utf-8").hex()


def unhexs(h):
    return bytes.fromhex(h).decode("utf-8", "replace")


class Check:
    """One run of one property's check."""

    def __init__(self, pid, tier, seed):
        self.pid = pid
        self.tier = tier
        self.seed = seed
        self.t0 = time.time()
        self.violations = []      # (what, replay dict)
        self.nofail = []          # broken obligations / correspondence with no failing input
        self.known_hits = []
        self.cov = dict(evaluations=0, distinct_nontrivial=0, samples=[], streams={},
                        obligations=0, discharged=0)
        self.assumptions = []
        self.known = load_known(pid)
        os.makedirs(WORK, exist_ok=True)
        os.makedirs(os.path.join(WORK, "replay"), exist_ok=True)

    # -- proof obligations -------------------------------------------------
    def proofs(self, clean=False):
        bad = scan_forbidden()
        r = check_props(self.pid, clean=clean)
        self.cov["obligations"] = len(r["theorems"]) + 1
        discharged = 0
        if r["rc"] == 0:
            discharged = len(r["theorems"]) if r["ok"] else min(len(r["theorems"]), r["closed"] + r["axiom_blocks"])
        if not bad:
            discharged += 1
        self.cov["discharged"] = discharged
        self.cov["theorems"] = r["theorems"]
        self.cov["axioms_used"] = r["axioms"]
        self.cov["checker_cmd"] = ("cd coq && coq_makefile -f _CoqProject -o Makefile && make Props/%s.vo "
                                   "(full .vo build; Print Assumptions parsed; forbidden-vernacular scan)" % self.pid)
        if bad:
            self.nofail.append(dict(kind="forbidden-vernacular", detail=bad[:20]))
        if not r["ok"]:
            tail = r["log"][-3000:]
            self.nofail.append(dict(kind="proof-obligation", theorem_file="coq/Props/%s.v" % self.pid,
                                    rc=r["rc"], bad_axioms=r["bad_axioms"], log_tail=tail))
        return r["ok"] and not bad

    # -- streams -----------------------------------------------------------
    def stream(self, name, n, distinct, exhaustive=False, note=None):
        self.cov["streams"][name] = dict(cases=n, distinct_nontrivial=distinct, exhaustive=exhaustive)
        if note:
            self.cov["streams"][name]["note"] = note
        self.cov["evaluations"] += n
        self.cov["distinct_nontrivial"] += distinct

    def sample(self, s):
        if len(self.cov["samples"]) < 12:
            self.cov["samples"].append(s)

    def is_known(self, key):
        for k in self.known:
            if k.get("key") == key:
                return k
        return None

    def violation(self, what, replay, key=None):
        if key is not None:
            k = self.is_known(key)
            if k is not None:
                if key not in [h[0] for h in self.known_hits]:
                    self.known_hits.append((key, k.get("what", what)))
                return
        if len(self.violations) < 50:
            self.violations.append((what, replay))

    def tie_broken(self, stream, detail):
        if len(self.nofail) < 50:
            self.nofail.append(dict(kind="correspondence", stream=stream, detail=detail))

    # -- finish --------------------------------------------------------------
    def finish(self, level_note=""):
        wall = time.time() - self.t0
        cov = self.cov
        cov["rule"] = cov.get("rule", "")
        cov["trusted_base"] = TRUSTED_BASE
        cov["exhaustive"] = all(s.get("exhaustive") for s in cov["streams"].values()) if cov["streams"] else False
        if not cov["samples"]:
            cov["samples"] = ["(no cases generated)"]
        lines = []
        rc = 0
        for key, what in self.known_hits:
            lines.append("KNOWN-FINDING: property=%s %s" % (self.pid, what))
        nviol = 0
        for i, (what, rep) in enumerate(self.violations):
            path = os.path.join(WORK, "replay", "%s_%d_%d.json" % (self.pid, os.getpid(), i))
            rep = dict(rep)
            rep.update(property=self.pid, what=what, seed=self.seed, tier=self.tier)
            json.dump(rep, open(path, "w"), indent=1)
            if i < 5:
                lines.append("VIOLATION property=%s replay=%s" % (self.pid, path))
            nviol += 1
            rc = 1
        if not self.violations and self.nofail:
            path = os.path.join(WORK, "replay", "%s_%d_nofail.json" % (self.pid, os.getpid()))
            json.dump(dict(property=self.pid, seed=self.seed, tier=self.tier,
                           broken=self.nofail,
                           what="a proof obligation or the model/implementation correspondence no longer "
                                "checks; no input on which the property itself fails was found"),
                      open(path, "w"), indent=1)
            lines.append("VIOLATION property=%s replay=%s no-failing-input-found" % (self.pid, path))
            nviol += 1
            rc = 1
        ev = dict(property_id=self.pid, tier=self.tier, seed=self.seed, level="proof",
                  coverage=cov, assumptions=self.assumptions, wall_s=round(wall, 2), violations=nviol)
        if level_note:
            ev["level_note"] = level_note
        os.makedirs(EVIDENCE, exist_ok=True)
        json.dump(ev, open(os.path.join(EVIDENCE, self.pid + ".json"), "w"), indent=1)
        for l in lines:
            print(l, flush=True)
        log("%s tier=%s wall=%.1fs evaluations=%d obligations=%d/%d violations=%d" % (
            self.pid, self.tier, wall, cov["evaluations"], cov["discharged"], cov["obligations"], nviol))
        return rc


def builds_or_die(chk, profiles=("debug",)):
    """Builds driver and harness; a failing build of the implementation is a
    broken tie (reported as no-failing-input-found), never a silent pass."""
    ok, out = build_driver()
    if not ok:
        chk.nofail.append(dict(kind="model-build", log_tail=out[-3000:]))
        return False
    for pr in profiles:
        ok, out = build_harness(pr)
        if not ok:
            chk.nofail.append(dict(kind="harness-build", profile=pr, log_tail=out[-3000:]))
            return False
    return True
