"""C11 — evaluation is a pure, deterministic function of program text and bindings.

Histories over numbered contexts and binding sets (add/replace program, bind/rebind,
clone either, exec, inspect).  Every history ends with a probe block: each
(context, bindings, program) triple is executed twice.  Three comparisons:
  * with the model (Context.run_ops, the object of the C11 theorems),
  * the two probe rounds with one another (an exec changed something),
  * each probe with a *fresh* context built from the surviving sources and
    bindings, tracked here independently of both model and implementation.
Plus repeated and concurrent executions on 16 threads.
"""
import itertools
import random
from streams import *

LEVEL_NOTE = ("theorems over Context.run_ops (exec/inspect change nothing, frame, clone independence, repetition, "
              "equality with a fresh context); the Rust CelContext/BindContext are tied to that model by histories")

NAMES = ["p", "q"]


def op_tok(o):
    k = o[0]
    if k == "addp":
        return "addp %d %s %s" % (o[1], hx(o[2]), hx(o[3]))
    if k == "bind":
        return "bind %d %s %s" % (o[1], hx(o[2]), o[3])
    if k in ("clonec", "cloneb"):
        return "%s %d %d" % (k, o[1], o[2])
    if k == "exec":
        return "exec %d %d %s" % (o[1], o[2], hx(o[3]))
    if k == "params":
        return "params %d %s" % (o[1], hx(o[2]))
    raise ValueError(o)


class Sim:
    """what the caller believes the stores hold (sources and values)"""

    def __init__(self, invalid):
        self.ctx, self.bnd, self.invalid = {}, {}, invalid

    def apply(self, o):
        k = o[0]
        if k == "addp":
            if o[3] not in self.invalid:
                self.ctx.setdefault(o[1], {})[o[2]] = o[3]
        elif k == "bind":
            self.bnd.setdefault(o[1], {})[o[2]] = o[3]
        elif k == "clonec":
            self.ctx[o[2]] = dict(self.ctx.get(o[1], {}))
        elif k == "cloneb":
            self.bnd[o[2]] = dict(self.bnd.get(o[1], {}))

    def fresh_case(self, c, b, name):
        ops = [("addp", 0, n, s) for n, s in sorted(self.ctx.get(c, {}).items())]
        ops += [("bind", 0, n, v) for n, v in sorted(self.bnd.get(b, {}).items())]
        ops.append(("exec", 0, 0, name))
        return "history " + " ; ".join(op_tok(o) for o in ops)


def history_case(ops, probes):
    return "history " + " ; ".join(op_tok(o) for o in list(ops) + probes + probes)


def check_histories(chk, stream, hists, ctx_ids, bind_ids, names, invalid, exhaustive):
    probes = [("exec", c, b, n) for c in ctx_ids for b in bind_ids for n in names]
    cases = [history_case(h, probes) for h in hists]
    impl, model = tie(chk, stream, cases, labels=None)
    fresh, fresh_idx = {}, []
    for h in hists:
        sim = Sim(invalid)
        for o in h:
            sim.apply(o)
        idx = []
        for (_, c, b, n) in probes:
            fc = sim.fresh_case(c, b, n)
            fresh.setdefault(fc, None)
            idx.append(fc)
        fresh_idx.append(idx)
    fcases = list(fresh.keys())
    fres = run_impl(fcases, isolate=True)
    for fc, r in zip(fcases, fres):
        fresh[fc] = r.split(" ; ")[-1] if not is_dead(r) else r
    np = len(probes)
    for h, c, r, idx in zip(hists, cases, impl, fresh_idx):
        if is_dead(r):
            continue
        outs = r.split(" ; ")
        first, second = outs[len(h):len(h) + np], outs[len(h) + np:]
        if first != second:
            chk.violation("the same exec gives different results the second time (an execution changed a store, a clone "
                          "or carried state)", dict(case=c, impl=r, first=first, second=second))
            continue
        for p, got, fc in zip(probes, first, idx):
            if got != fresh[fc]:
                chk.violation("exec after a history differs from the exec of a fresh context holding the same sources and "
                              "bindings", dict(case=c, probe=op_tok(p), impl=got, fresh_case=fc, fresh=fresh[fc]))
                break
    chk.stream(stream, len(cases), len(set(cases)), exhaustive=exhaustive,
               note="%d probe execs per history, each run twice and compared with %d fresh-context cases" % (np, len(fcases)))
    return cases, impl


def run(chk):
    rng = random.Random(chk.seed)
    if not builds_or_die(chk):
        return
    # ---- exhaustive short histories over a small alphabet -----------------------
    alpha = [("addp", 0, "p", "x + 1"), ("addp", 0, "p", "[x, 2].map(x, x * 10)[0]"), ("addp", 0, "q", "p + x"),
             ("addp", 1, "p", "x - 1"), ("addp", 1, "q", "{'b': 1, 'a': x}.map(k, k)"),
             ("addp", 0, "p", "7"), ("addp", 0, "p", "'a' + 'b'"),          # programs without parameters (constants)
             ("bind", 0, "x", vi(2)), ("bind", 0, "x", vi(5)), ("bind", 1, "x", vi(7)),
             ("clonec", 0, 1), ("clonec", 1, 0), ("cloneb", 0, 1), ("cloneb", 1, 0),
             ("exec", 0, 0, "p"), ("exec", 1, 1, "q"), ("exec", 0, 1, "q"), ("params", 0, "q")]
    maxlen = 3 if chk.tier == "quick" else 4
    hists = []
    for n in range(0, maxlen + 1):
        hists.extend(itertools.product(alpha, repeat=n))
    if chk.tier == "thorough" and len(hists) > 40000:
        keep = [h for h in hists if len(h) < 4]
        rest = [h for h in hists if len(h) == 4]
        rng.shuffle(rest)
        hists = keep + rest[:36000]
    cases, impl = check_histories(chk, "all histories up to length %d over an 18-operation alphabet" % maxlen, hists,
                                  [0, 1], [0, 1], ["p", "q"], set(), exhaustive=(maxlen == 3 or len(hists) < 40000))
    chk.sample(dict(case=cases[777], impl=impl[777]))
    # ---- random longer histories over richer programs ---------------------------------
    srcs = ["x + y", "[x, y].map(x, x + 1)", "l.filter(y, y > x).size()", "m.map(k, k)", "m.filter(k, m[k] > x)",
            "has(z) ? z : x", "coalesce(z, y, 3)", "l.all(x, x > 0) && l.exists(y, y == 2)", "p + 1", "q", "r * 2",
            "l.map(x, l.map(y, x * y))", "f'{x}-{y}'", "l.reduce(x, y, x + y, 0)", "x / (y - y)", "string(x) + s",
            "[p, q]", "{'k': x, 'j': y}", "x +", "1 ?", "m.x", "l[x]", "type(x)", "size(l) + size(m)",
            "l.map(v, v).map(x, x + size(l))", "has(m.x) || has(m.zz)"]
    invalid = {"x +", "1 ?"}
    vals = [vi(1), vi(2), vi(-7), vs("s"), vlist([vi(1), vi(2), vi(3)]), vmap([("x", vi(9)), ("b", vi(0)), ("a", vi(4))]),
            vf(1.5), VNULL, vb(True), vu(3)]
    pnames, vnames = ["p", "q", "r"], ["x", "y", "z", "l", "m", "s"]
    nh = 300 if chk.tier == "quick" else 4000
    hists = []
    for _ in range(nh):
        h = [("bind", 0, "l", vals[4]), ("bind", 0, "m", vals[5]), ("bind", 0, "x", vi(1)), ("bind", 0, "y", vi(2)),
             ("bind", 0, "s", vs("t"))]
        for _ in range(rng.randrange(4, 40)):
            k = rng.random()
            if k < 0.3:
                h.append(("addp", rng.randrange(3), rng.choice(pnames), rng.choice(srcs)))
            elif k < 0.5:
                h.append(("bind", rng.randrange(3), rng.choice(vnames), rng.choice(vals)))
            elif k < 0.6:
                h.append(("clonec", rng.randrange(3), rng.randrange(3)))
            elif k < 0.7:
                h.append(("cloneb", rng.randrange(3), rng.randrange(3)))
            elif k < 0.95:
                h.append(("exec", rng.randrange(3), rng.randrange(3), rng.choice(pnames)))
            else:
                h.append(("params", rng.randrange(3), rng.choice(pnames)))
        hists.append(tuple(h))
    cases, impl = check_histories(chk, "random histories of 9..45 operations over 3 contexts, 3 binding sets, 26 sources",
                                  hists, [0, 1, 2], [0, 1, 2], pnames, invalid, exhaustive=False)
    chk.sample(dict(case=cases[0][:600], impl=impl[0][:600]))
    kinds = {}
    for h in hists:
        for o in h:
            kinds[o[0]] = kinds.get(o[0], 0) + 1
    chk.cov["operation_distribution_random_histories"] = kinds
    # ---- repeated and concurrent execution ------------------------------------------
    progs = ["m.map(k, k)", "m.filter(k, true)", "m.map(k, m[k])", "l.map(x, x * 2)", "m", "[m, m]", "string(m)" if False else "size(m)",
             "m.all(k, size(k) > 0)", "l.map(x, m.map(k, k))", "m.map(k, k).size() + l.reduce(a, b, a + b, 0)",
             "{'z': 1, 'y': 2, 'x': 3, 'w': 4, 'v': 5, 'u': 6}.map(k, k)", "m.exists_one(k, k == 'a')", "x / 0", "zz",
             "has(m.a) ? m.a : 0", "f'{l}'", "m.filter(k, seen[k] > 0)", "m.map(k, seen[k])", "m.all(k, seen[k] > 0)",
             "m.exists(k, seen[k] > 0)", "m.exists_one(k, seen[k] > 0)", "m.filter(k, nosuch(k))", "m.map(k, 1 / (m[k] - m[k]))",
             "m.map(k, zz)", "m.reduce(a, k, a + seen[k], 0)", "{'q': 1, 'r': 2, 's': 3, 't': 4}.filter(k, seen[k])",
             "m.filter(k, k.size() > int(k))", "l.map(x, x).filter(y, y > 1)", "coalesce(zz, m.b)", "[1, 2, 3].map(i, i + x)",
             # maps built at run time and compared: several entries that differ in different ways (a failing comparison, unequal
             # values, a missing key), so that any dependence on the visiting order shows in the result
             "{'a': 1 / (x - x), 'b': 1, 'c': 2, 'd': 3} == {'a': 1, 'b': 2, 'c': 2, 'd': 4}",
             "{'a': [1 / (x - x)], 'b': x, 'c': 5} != {'a': [1], 'b': 4, 'c': 5}", "{'k1': zz, 'k2': 1, 'k3': 2} == {'k1': 1, 'k2': 2, 'k3': 3}",
             "{'p': 1 / (x - x), 'q': 1, 'r': x} == {'p': 1, 'q': 1, 's': x}", "[{'p': zz, 'q': 1} == {'p': 1, 'q': 2}, {'p': zz, 'q': 1} != {'p': 1, 'q': 2}]",
             "{'a': 1 / (x - x), 'b': 2} in [{'a': 1, 'b': 3}, {'a': 1, 'b': 2}]", "{'a': {'i': zz, 'j': 1}, 'b': 1} == {'a': {'i': 1, 'j': 2}, 'b': 2}",
             "m.map(k, {'u': seen[k], 'v': k} == {'u': 1, 'v': 'a'})", "{'a': x, 'b': zz, 'c': nosuch(1)} == {'a': 0, 'b': 1, 'c': 2}"]
    bigmap = vmap([("k%02d" % i, vi(i)) for i in range(24)] + [("a", vi(1)), ("b", vi(2))])
    binds = [("m", bigmap), ("l", vlist([vi(i) for i in range(8)])), ("x", vi(3)), ("seen", vmap([("other", vi(1))]))]
    ccases = ["concurrent 16 6 %s %s" % (hx(p), binds_tokens(binds)) for p in progs]
    single = [evalsrc_case(p, binds=binds, ufuncs=[], std=False) for p in progs]
    cres = run_impl(ccases, isolate=True)
    sres, smod = tie(chk, "single execution of the programs run concurrently", single)
    for p, cc, cr, sr in zip(progs, ccases, cres, sres):
        k, payload, _ = split_result(sr)
        want = "same=true n=96 first=%s %s" % (k, payload)
        if is_dead(cr):
            chk.violation("concurrent execution panics/aborts", dict(case=cc, impl=cr))
        elif cr != want:
            chk.violation("16 threads x 6 repetitions (contexts and bindings cloned on odd rounds) do not all give the "
                          "result of a single execution", dict(case=cc, impl=cr, expected=want, source=p))
    chk.stream("programs executed 6 times on each of 16 threads (odd rounds on clones) vs. one execution",
               len(ccases), len(ccases), exhaustive=False)
    chk.sample(dict(case=ccases[0][:200], impl=cres[0]))
    # ---- the compiled program does not depend on what the thread compiled or executed before --------------------
    # (thread-local state of the compiler - guards, counters, caches - must start afresh for every program)
    dirty = ["size(x) > 0", "x.contains('a')", "[x].map(v, v + 1)", "now()", "[1].map(v, now())", "f'{x}{1 + 2}'", "nosuch(1)",
             "x.f(1)", "1 +", "match x { case int: 1 }", "x" + " + 1" * 600, "(" * 40 + "1" + ")" * 40, "[timestamp()].size()",
             "has(x.y)", "coalesce(x, 1)", "{'a': x}.a", "int('z')", "1 / 0", "-" * 300 + "1"]
    probes = ["max(1, 2) + y", "size([1, 2]) + 1", "[1, 2].map(v, v * 2)", "int('7') + y", "{'a': 1}.a", "1 + 2 * 3", "true ? 1 : y",
              "'ab'.contains('a') || y", "min(3, 2) == 2 ? 'p' : 'q'", "f'{1 + 2}'", "timestamp(0) == timestamp(0)", "[3, 1].sort()[0] + y",
              "1" + " + 1" * 500, "y" + " + 1" * 500, "match 1 { case int: 2 }", "dyn([1, 2]).size()"]
    fresh = [run_impl(["compile " + vs(p_)], isolate=True)[0] for p_ in probes]
    seqs = []
    for _ in range(6 if chk.tier == "quick" else 40):
        d_ = [rng.choice(dirty) for _ in range(rng.randrange(1, 6))]
        seqs.append(d_)
    seqs += [[d_] for d_ in dirty]
    nseq = 0
    for d_ in seqs:
        batch = ["compile " + vs(x_) for x_ in d_] + ["compile " + vs(p_) for p_ in probes]
        assert len(batch) < 200
        out = run_impl(batch, isolate=True)[len(d_):]
        nseq += len(batch)
        for p_, a_, b_ in zip(probes, fresh, out):
            if a_ != b_ and not is_dead(b_):
                chk.violation("the program a source compiles to depends on what was compiled before on the same thread",
                              dict(source=p_, compiled_before=d_, fresh=a_, after=b_, case="compile " + vs(p_)))
    chk.stream("16 probe sources compiled after random sequences of 19 sources that leave compiler state behind (unbound names, clock "
               "reads, syntax errors, long chains, deep nesting) vs. compiled by a fresh process", nseq + len(probes), len(seqs), exhaustive=False)
    # ---- an evaluation does not depend on what the process evaluated before ------------------------------------------
    # One process runs a batch of unrelated programs in order, in reverse order and with every program twice in a row; each
    # result must be the one a fresh process gives.  This is where state kept between calls would show: caches of zones,
    # patterns or compiled programs, counters, thread-locals of the compiler and the VM.
    zpat = ["UTC", "Europe/Paris", "Nowhere/City", "America/New_York", "Bogus/Zone", "Asia/Tokyo", "utc "]
    rpat = ["a(b)?c", "(", "[a-z]+", "\\d+", "(x)*", "a|b"]
    isrc = ["t1.getHours('%s')" % z for z in zpat] + ["t1.getDate('%s') + t1.getDayOfYear('%s')" % (z, z2) for z, z2 in zip(zpat, zpat[1:])] + \
           ["s1.matches('%s')" % r for r in rpat] + ["'abc'.matchCaptures('%s')" % r for r in rpat] + ["s2.matchReplace('%s', 'z')" % r for r in rpat] + \
           ["max(1, 2) + i1", "size(ub) > 0", "[ub].map(v, v)", "now() == now() || true", "f'{i1}{ub}'", "nosuch(1)", "1 +", "int('z')", "i1 / i0",
            "l1.map(v, v * 2)", "m1.map(k, k)", "l3.sort()", "[1, 2].reduce(a, v, a + v, 0)", "has(m1.b.c)", "coalesce(ub, nl, 4)", "p_int + 1", "p_err", "p_ub",
            "i1" + " + 1" * 300, "(" * 31 + "1" + ")" * 31, "(" * 40 + "1" + ")" * 40, "-" * 250 + "1", "-" * 300 + "1", "imax + 1", "umax + 1u",
            "duration('90s')", "timestamp('2024-01-02T03:04:05Z').getHours('Europe/Paris')", "timestamp(0).getHours('Bogus/Zone')",
            "uomConvert(1.0, 'm', 'ft')", "uomConvert(1.0, 'm', 'nosuch')", "uomConvert(2.0, 'kg', 'lb')", "string(d1) + string(t1)",
            "match i1 { case int: 1, case _: 2 }", "match ub { case int: 1, case _: 2 }", "[1, 2].map(v, match v { case 1: 'a', case _: ub })",
            "{'a': i1, 'a': 2}", "l1[5]", "m1.zz", "s2.toUpper()", "s2.split('l')", "l2.map(v, v.contains('a'))", "type(t1) == timestamp",
            "fa(1) + fa(2)", "fargs(1, ub)", "fe() || true"]
    icases = [evalsrc_case(x_) for x_ in isrc]
    ifresh = [run_impl([c_], isolate=True)[0] for c_ in icases]
    orders = [("in order", list(range(len(icases)))), ("in reverse order", list(range(len(icases)))[::-1]),
              ("each twice in a row", [i for i in range(len(icases)) for _ in (0, 1)][:198])]
    for _ in range(2 if chk.tier == "quick" else 12):
        o_ = list(range(len(icases))); rng.shuffle(o_)
        orders.append(("shuffled", o_))
    ntot = 0
    for nm_, o_ in orders:
        o_ = o_[:198]
        out = run_impl([icases[i] for i in o_], isolate=True)
        ntot += len(o_)
        for pos, (i, r_) in enumerate(zip(o_, out)):
            a_, b_ = split_result(ifresh[i])[:2], split_result(r_)[:2]
            if isrc[i].startswith("now()"):
                continue
            if a_ != b_ and not is_dead(r_) and not is_dead(ifresh[i]):
                chk.violation("the result of an evaluation depends on what the process evaluated before it",
                              dict(source=isrc[i], case=icases[i], fresh=ifresh[i], after=r_, order=nm_,
                                   evaluated_before=[isrc[j] for j in o_[max(0, pos - 4):pos]]))
    chk.stream("%d unrelated programs (zones known and unknown, patterns valid and invalid, unit conversions, failing and non-compiling "
               "sources, nesting and operator limits) run by one process in several orders and twice in a row vs. one fresh process each"
               % len(isrc), ntot + len(icases), len(orders), exhaustive=False)
    chk.cov["rule"] = ("histories: every sequence up to length 3 (quick) / 4 (thorough, sampled at length 4) over the 16-operation "
                       "alphabet, then random ones; probes cover every (context, bindings, program) triple; the expected "
                       "stores are tracked by the generator, the fresh-context comparison runs on the implementation only")


def replay(chk, rep):
    if not builds_or_die(chk):
        return
    c = rep["case"]
    r = run_impl([c], isolate=True)[0]
    print("impl:", r)
    if "fresh_case" in rep:
        f = run_impl([rep["fresh_case"]], isolate=True)[0]
        print("fresh:", f)
        outs = r.split(" ; ")
        # position of the probe inside the history
        toks = c[len("history "):].split(" ; ")
        i = toks.index(rep["probe"], 0)
        idxs = [j for j, t in enumerate(toks) if t == rep["probe"]]
        i = idxs[-2] if len(idxs) >= 2 else idxs[-1]
        if outs[i] != f.split(" ; ")[-1]:
            chk.violation(rep.get("what", "replayed"), rep)
    elif "first" in rep:
        outs = r.split(" ; ")
        h = len(outs) - 2 * len(rep["first"])
        if outs[h:h + len(rep["first"])] != outs[h + len(rep["first"]):]:
            chk.violation(rep.get("what", "replayed"), rep)
    elif "expected" in rep:
        if r != rep["expected"]:
            chk.violation(rep.get("what", "replayed"), rep)
    else:
        m = run_model([c])[0]
        print("model:", m)
        outs = r.split(" ; ")
        n = len(outs)
        if r != m and m != "UNMOD":
            chk.violation(rep.get("what", "replayed"), rep)
