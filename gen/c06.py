"""C06 — collections: literals, indexing (incl. negative), membership, concat, size."""
import itertools
import random
from streams import *

# python-side values: ('int',z) ('uint',z) ('double',bits) ('bool',b) ('string',str) ('bytes',bytes) ('null',)
# ('list',[..]) ('map',{k: v}) ; tokens and CEL literals are derived from them


def tok(v):
    k = v[0]
    if k == 'int': return vi(v[1])
    if k == 'uint': return vu(v[1])
    if k == 'double': return vf_bits(v[1])
    if k == 'bool': return vb(v[1])
    if k == 'string': return vs(v[1])
    if k == 'bytes': return vy(v[1])
    if k == 'null': return VNULL
    if k == 'list': return vlist([tok(x) for x in v[1]])
    if k == 'map': return vmap([(kk, tok(x)) for kk, x in sorted(v[1].items(), key=lambda kv: kv[0].encode())])
    raise ValueError(k)


def lit(v):
    k = v[0]
    if k == 'int': return lit_int(v[1])
    if k == 'uint': return lit_uint(v[1])
    if k == 'double': return lit_float_bits(v[1])
    if k == 'bool': return "true" if v[1] else "false"
    if k == 'string': return lit_string(v[1])
    if k == 'bytes': return lit_bytes(v[1])
    if k == 'null': return "null"
    if k == 'list': return "[" + ", ".join(lit(x) for x in v[1]) + "]"
    raise ValueError(k)


def peq(a, b):
    """Rust PartialEq on CelValue (structural; different numeric types are different)"""
    if a[0] != b[0]:
        return False
    if a[0] == 'double':
        x, y = bits_f(a[1]), bits_f(b[1])
        return x == y
    if a[0] == 'list':
        return len(a[1]) == len(b[1]) and all(peq(x, y) for x, y in zip(a[1], b[1]))
    if a[0] == 'map':
        return a[1].keys() == b[1].keys() and all(peq(a[1][k], b[1][k]) for k in a[1])
    return a[1:] == b[1:]


ELEMS = [('int', 0), ('int', 7), ('int', -1), ('uint', 7), ('double', f_bits(1.5)), ('double', 0x7ff8000000000000),
         ('double', 0), ('double', 0x8000000000000000), ('bool', True), ('string', "a"), ('string', "é€"), ('string', ""),
         ('bytes', b"\xff"), ('null',), ('list', []), ('list', [('int', 1), ('string', "x")])]


def run(chk):
    rng = random.Random(chk.seed)
    if not builds_or_die(chk):
        return
    # ---- A: operator level: index -------------------------------------------------
    lists = [[]]
    for n in (1, 2, 3, 4):
        for _ in range(6 if chk.tier == "quick" else 30):
            lists.append([rng.choice(ELEMS) for _ in range(n)])
    lists.append([('int', i) for i in range(4)])
    cases, want = [], []
    for l in lists:
        n = len(l)
        L = ('list', l)
        idxs = [('int', i) for i in range(-n - 2, n + 3)] + [('int', I64_MIN), ('int', I64_MAX)] + \
               [('uint', i) for i in range(0, n + 3)] + [('uint', U64_MAX), ('uint', 2 ** 63)]
        for ix in idxs:
            i = ix[1]
            if ix[0] == 'int' and i < 0:
                j = n + i
            else:
                j = i
            w = tok(l[j]) if 0 <= j < n else "ERR"
            cases.append("binop index %s %s" % (tok(L), tok(ix))); want.append(w)
        for bad in [('double', f_bits(1.0)), ('string', "0"), ('bool', True), ('null',), ('list', [('int', 0)])]:
            cases.append("binop index %s %s" % (tok(L), tok(bad))); want.append("ERR")
    maps = [{}, {"a": ('int', 1)}, {"a": ('int', 1), "b": ('null',)}, {"é": ('string', "x"), "a": ('list', [])},
            {"size": ('int', 3), "a": ('map', {"b": ('int', 2)})}]
    for m in maps:
        M = ('map', m)
        for k in ["a", "b", "é", "zz", "", "size"]:
            cases.append("binop index %s %s" % (tok(M), vs(k))); want.append(tok(m[k]) if k in m else "Eattr:" + hx(k))
        for bad in [('int', 0), ('uint', 0), ('bool', True), ('null',), ('bytes', b"a")]:
            cases.append("binop index %s %s" % (tok(M), tok(bad))); want.append("ERR")
    for o in [('int', 1), ('string', "abc"), ('bytes', b"ab"), ('null',), ('bool', True), ('double', 0)]:
        for ix in [('int', 0), ('string', "a"), ('uint', 0)]:
            cases.append("binop index %s %s" % (tok(o), tok(ix))); want.append("ERR")
    n_index = len(cases)
    # ---- in ------------------------------------------------------------------------
    for l in lists[:40]:
        for x in ELEMS:
            cases.append("binop in %s %s" % (tok(x), tok(('list', l))))
            want.append(vb(any(peq(x, y) for y in l)))
    for m in maps:
        for k in ["a", "b", "zz", "", "é"]:
            cases.append("binop in %s %s" % (vs(k), tok(('map', m)))); want.append(vb(k in m))
        for bad in [('int', 1), ('null',), ('bytes', b"a"), ('list', [])]:
            cases.append("binop in %s %s" % (tok(bad), tok(('map', m)))); want.append("ERR")
    strs = ["", "a", "ab", "aab", "é€a", "hello world", "aaa"]
    for s in strs:
        for n_ in ["", "a", "aa", "b", "€", "lo w", "é€a", "aab"]:
            cases.append("binop in %s %s" % (vs(n_), vs(s))); want.append(vb(n_ in s))
        for bad in [('int', 1), ('bytes', b"a"), ('null',)]:
            cases.append("binop in %s %s" % (tok(bad), vs(s))); want.append("ERR")
    for rhs in [('int', 1), ('bool', True), ('null',), ('bytes', b"ab"), ('double', 0)]:
        for x in [('int', 1), ('string', "a")]:
            cases.append("binop in %s %s" % (tok(x), tok(rhs))); want.append("ERR")
    n_in = len(cases)
    # ---- concat, size ----------------------------------------------------------------
    for a, b in itertools.product(lists[:12], lists[:12]):
        cases.append("binop add %s %s" % (tok(('list', a)), tok(('list', b)))); want.append(tok(('list', a + b)))
    for a, b in itertools.product(strs, strs):
        cases.append("binop add %s %s" % (vs(a), vs(b))); want.append(vs(a + b))
    bs = [b"", b"a", b"\xff\x00", b"ab"]
    for a, b in itertools.product(bs, bs):
        cases.append("binop add %s %s" % (vy(a), vy(b))); want.append(vy(a + b))
    for a, b in [(('list', []), ('string', "")), (('string', "a"), ('bytes', b"a")), (('bytes', b"a"), ('list', []))]:
        cases.append("binop add %s %s" % (tok(a), tok(b))); want.append("ERR")
    for s in strs + ["\U0001f600", "\x00"]:
        cases.append("func %s n L( %s )" % (hx("size"), vs(s))); want.append(vu(len(s.encode())))
        cases.append("func %s %s L( )" % (hx("size"), vs(s))); want.append(vu(len(s.encode())))
    for b in bs:
        cases.append("func %s n L( %s )" % (hx("size"), vy(b))); want.append(vu(len(b)))
    for l in lists[:20]:
        cases.append("func %s n L( %s )" % (hx("size"), tok(('list', l)))); want.append(vu(len(l)))
        cases.append("func %s %s L( )" % (hx("size"), tok(('list', l)))); want.append(vu(len(l)))
    impl, model = tie(chk, "collection operators", cases)
    for c, r, w in zip(cases, impl, want):
        ok = r.startswith("E") if w == "ERR" else r == w
        if not ok:
            chk.violation("collection operator disagrees with its definition (index / in / + / size)",
                          dict(case=c, impl=r, expected=w))
    chk.stream("index over lists x indices in [-n-2,n+2] + extremes + non-integer, maps x keys", n_index, n_index,
               exhaustive=True)
    chk.stream("in (list membership, key presence, substring, invalid operands)", n_in - n_index, n_in - n_index,
               exhaustive=True)
    chk.stream("+ on lists/strings/bytes and size in function and method form", len(cases) - n_in, len(cases) - n_in,
               exhaustive=True)
    chk.sample(dict(case=cases[3], impl=impl[3], expected=want[3]))
    chk.sample(dict(case=cases[n_index + 5], impl=impl[n_index + 5], expected=want[n_index + 5]))

    # ---- B: literals through the compiler and the VM (folded vs. run-time) -----------
    ecases, ewant, elab = [], [], []
    def add(src, w, binds=()):
        ecases.append(evalsrc_case(src, binds=list(binds), std=False, ufuncs=[]))
        ewant.append(w)
        elab.append(src)
    litelems = [e for e in ELEMS if e[0] != 'double' or lit(e) is not None]
    for l in lists[:30]:
        if any(e[0] == 'double' and lit(e) is None for e in l):
            continue
        n = len(l)
        src_l = lit(('list', l))
        add(src_l, "OK " + tok(('list', l)))
        for i in range(-n - 1, n + 2):
            j = n + i if i < 0 else i
            w = ("OK " + tok(l[j])) if 0 <= j < n else "ERRANY"
            add("%s[%s]" % (src_l, lit_int(i)), w)
            add("l[i]", w, [("l", tok(('list', l))), ("i", vi(i))])
            add("%s[i]" % src_l, w, [("i", vi(i))])
        # an element that is only known at run time keeps the literal out of the constant folder
        if n:
            add("[%s][0]" % ", ".join(["x"] + [lit(e) for e in l[1:]]), "OK " + tok(l[0]), [("x", tok(l[0]))])
    keysets = [["a"], ["a", "a"], ["a", "b", "a"], ["b", "a", "b", "a"], ["a", "b", "c"], []]
    for ks in keysets:
        pairs = [(k, ('int', i + 1)) for i, k in enumerate(ks)]
        final = {}
        for k, v in pairs:
            final[k] = v
        src_m = "{" + ", ".join("%s: %s" % (lit_string(k), lit(v)) for k, v in pairs) + "}"
        src_v = "{" + ", ".join("%s: %s" % (lit_string(k), "x%d" % i) for i, (k, v) in enumerate(pairs)) + "}"
        bv = [("x%d" % i, tok(v)) for i, (k, v) in enumerate(pairs)]
        src_mix = "{" + ", ".join("%s: %s" % (lit_string(k), ("x%d" % i) if i == 0 else lit(v)) for i, (k, v) in enumerate(pairs)) + "}"
        for src, b in ((src_m, []), (src_v, bv), (src_mix, bv)):
            add(src, "OK " + tok(('map', final)), b)
            for k in ["a", "b", "zz"]:
                w = ("OK " + tok(final[k])) if k in final else "ERR Eattr:" + hx(k)
                add("%s[%s]" % (src, lit_string(k)), w, b)
                add("%s.%s" % (src, k), w, b)
                add("%s in %s" % (lit_string(k), src), "OK " + vb(k in final), b)
    # keys spelled like functions, macros and types: the stored value wins in m.k as in m[k] (literal, bound and mixed maps)
    for ks in [["size", "map", "type"], ["min", "max", "string", "filter"], ["has", "int", "contains", "coalesce", "all"],
               ["sort", "timestamp", "exists", "reduce", "double"]]:
        pairs = [(k, ('int', i + 1)) for i, k in enumerate(ks)]
        final = dict(pairs)
        src_m = "{" + ", ".join("%s: %s" % (lit_string(k), lit(v)) for k, v in pairs) + "}"
        src_mix = "{" + ", ".join("%s: %s" % (lit_string(k), ("x%d" % i) if i == 0 else lit(v)) for i, (k, v) in enumerate(pairs)) + "}"
        bv = [("x%d" % i, tok(v)) for i, (k, v) in enumerate(pairs)]
        bm = [("m", tok(('map', final)))]
        for src, b in ((src_m, []), (src_mix, bv), ("m", bm), ("{'in': m}['in']", bm), ("[m][0]", bm)):
            for k in ks:
                add("%s.%s" % (src, k), "OK " + tok(final[k]), b)
                add("%s[%s]" % (src, lit_string(k)), "OK " + tok(final[k]), b)
                add("%s.%s == %s[%s]" % (src, k, src, lit_string(k)), "OK " + vb(True), b)
    for s in ["", "aé", "hello"]:
        add("size(%s)" % lit_string(s), "OK " + vu(len(s.encode())))
        add("x.size()", "OK " + vu(len(s.encode())), [("x", vs(s))])
        add("size(x + %s)" % lit_string(s), "OK " + vu(2 * len(s.encode())), [("x", vs(s))])
    ei, em = tie(chk, "collection literals through compile+exec", ecases, labels=elab)
    for src, c, r, w in zip(elab, ecases, ei, ewant):
        k, payload, _ = split_result(r)
        if w == "ERRANY":
            ok = k == "ERR"
        elif w.startswith("ERR "):
            ok = (k == "ERR" and payload == w[4:])
        else:
            ok = (k == "OK" and payload == w[3:])
        if not ok:
            chk.violation("collection literal / index / membership / size through the compiler and the VM disagrees "
                          "with the definition (literal and bound forms must agree)", dict(source=src, case=c, impl=r, expected=w))
    chk.stream("list/map literals (folded, run-time and mixed), indexing, field access, membership, size through compile+exec",
               len(ecases), len(set(ecases)), exhaustive=True)
    chk.sample(dict(source=elab[10], impl=ei[10], expected=ewant[10]))
    chk.cov["rule"] = ("lists up to size 4 over 16 element values of every type (nested), all integer indices in "
                       "[-n-2, n+2] plus extreme ints/uints and non-integer indices; maps with duplicate and absent keys; "
                       "every expected result computed by an independent Python oracle; each case distinct by construction")


def replay(chk, rep):
    if not builds_or_die(chk):
        return
    r = run_impl([rep["case"]], isolate=True)[0]
    print("impl:", r, "expected:", rep.get("expected"))
    w = rep.get("expected")
    k, payload, _ = split_result(r)
    if w == "ERR":
        bad = not r.startswith("E")
    elif w == "ERRANY":
        bad = k != "ERR"
    elif w and w.startswith(("OK ", "ERR ")):
        bad = not (r.startswith(w))
    else:
        bad = r != w
    if bad:
        chk.violation(rep.get("what", "replayed"), rep)
