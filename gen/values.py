"""Value pools (boundary grids) and renderers: case-token form and CEL literal form."""
import struct

I64_MIN = -(2 ** 63)
I64_MAX = 2 ** 63 - 1
U64_MAX = 2 ** 64 - 1


def hx(b):
    if isinstance(b, str):
        b = b.encode("utf-8")
    return b.hex()


def f_bits(x):
    return struct.unpack(">Q", struct.pack(">d", x))[0]


def bits_f(b):
    return struct.unpack(">d", struct.pack(">Q", b))[0]


# ---- token constructors ----------------------------------------------------
def vi(z):
    return "i%d" % z


def vu(z):
    return "u%d" % z


def vf_bits(b):
    return "f%016x" % b


def vf(x):
    b = f_bits(x)
    if x != x:
        b = 0x7ff8000000000000
    return vf_bits(b)


def vb(b):
    return "b1" if b else "b0"


def vs(s):
    return "s" + hx(s)


def vy(b):
    return "y" + bytes(b).hex()


def vlist(items):
    return "L( " + " ".join(items) + (" )" if items else ")")


def vmap(pairs):
    return "M( " + " ".join("s%s %s" % (hx(k), v) for k, v in pairs) + (" )" if pairs else ")")


def vtime(ns):
    return "t%d" % ns


def vdur(ns):
    return "d%d" % ns


VNULL = "n"


def vtype(name):
    return "T" + hx(name)


# ---- boundary grids -------------------------------------------------------
INTS = sorted(set([0, 1, -1, 2, -2, 3, -3, 7, 10, -10, 2 ** 31, -(2 ** 31), 2 ** 31 - 1, 2 ** 31 + 1,
                   -(2 ** 31) - 1, 2 ** 32, -(2 ** 32), 2 ** 32 + 1, 3037000499, 3037000500, -3037000500,
                   2 ** 53, 2 ** 53 + 1, -(2 ** 53) - 1, 2 ** 62, -(2 ** 62), 2 ** 62 + 1,
                   I64_MAX, I64_MAX - 1, I64_MIN, I64_MIN + 1, I64_MAX // 2, I64_MIN // 2,
                   I64_MAX // 3, 4611686018427387904, -4611686018427387905]))
UINTS = sorted(set([0, 1, 2, 3, 7, 10, 2 ** 31, 2 ** 32, 2 ** 32 - 1, 2 ** 32 + 1, 4294967296, 2 ** 53, 2 ** 53 + 1,
                    2 ** 63 - 1, 2 ** 63, 2 ** 63 + 1, U64_MAX, U64_MAX - 1, U64_MAX // 2, U64_MAX // 3,
                    6074000999, 6074001000]))
FLOAT_BITS = sorted(set([
    0x0000000000000000, 0x8000000000000000,          # +-0
    0x3ff0000000000000, 0xbff0000000000000,          # +-1
    0x3fe0000000000000, 0xbfe0000000000000,          # +-0.5
    0x0000000000000001, 0x8000000000000001,          # min subnormal
    0x000fffffffffffff, 0x0010000000000000,          # max subnormal, min normal
    0x7fefffffffffffff, 0xffefffffffffffff,          # +-max
    0x7ff0000000000000, 0xfff0000000000000,          # +-inf
    0x7ff8000000000000,                              # NaN
    0x4340000000000000, 0x4340000000000001, 0x433fffffffffffff,   # 2^53 and neighbours
    0xc340000000000000, 0xc340000000000001,
    0x43e0000000000000, 0xc3e0000000000000,          # +-2^63
    0x43f0000000000000, 0x43efffffffffffff,          # 2^64, pred(2^64)
    0x3fb999999999999a, 0xc004000000000000, 0x4008000000000000,   # 0.1, -2.5, 3.0
    0x3ff8000000000000, 0xbff8000000000000, 0x4002000000000000,   # 1.5 -1.5 2.25
    0x7fe0000000000000, 0x3cb0000000000000, 0x4059000000000000,   # 2^1023, 2^-52, 100
    0x41dfffffffc00000, 0xc1e0000000000000,                      # i32 max, i32 min as doubles
]))
BOOLS = [False, True]

STRINGS = ["", "a", "ab", "abc", "b", "A", "é", "€", "\U0001f600", "aéb", "aa", "aaa", " a ", "0", "\x00"]
BYTESS = [b"", b"a", b"ab", b"\x00", b"\xff", b"\xff\xfe", b"abc"]
TIMES = [0, 1, -1, 10 ** 9, -(10 ** 9), 1700000000 * 10 ** 9 + 123456789,
         -8334601228800 * 10 ** 9, 8210266876799 * 10 ** 9 + 999999999, 8210266876799 * 10 ** 9,
         951782400 * 10 ** 9, 68169600 * 10 ** 9 + 500 * 10 ** 6]
DURS = [0, 1, -1, 10 ** 9, -(10 ** 9), 1500 * 10 ** 6, -1500 * 10 ** 6, 3600 * 10 ** 9, 86400 * 10 ** 9,
        I64_MAX * 10 ** 6, -I64_MAX * 10 ** 6, I64_MAX * 10 ** 6 - 1, 9223372036854775 * 10 ** 9]
ERRS = ["Ediv", "Eval", "Eop", "Earg", "Erun", "Eint", "Emisc", "Ebind:78", "Eattr:6b"]


def numeric_pool():
    out = []
    out += [("int", vi(z)) for z in INTS]
    out += [("uint", vu(z)) for z in UINTS]
    out += [("double", vf_bits(b)) for b in FLOAT_BITS]
    out += [("bool", vb(b)) for b in BOOLS]
    return out


def other_pool():
    out = []
    out += [("string", vs(s)) for s in STRINGS[:8]]
    out += [("bytes", vy(b)) for b in BYTESS[:5]]
    out += [("list", vlist([])), ("list", vlist([vi(1)])), ("list", vlist([vi(1), vs("a")])),
            ("list", vlist([vlist([vi(1)]), vf(1.0)]))]
    out += [("map", vmap([])), ("map", vmap([("a", vi(1))])), ("map", vmap([("a", vi(1)), ("b", vlist([]))]))]
    out += [("null", VNULL)]
    out += [("type", vtype("int")), ("type", vtype("string"))]
    out += [("timestamp", vtime(t)) for t in TIMES]
    out += [("duration", vdur(d)) for d in DURS]
    out += [("err", e) for e in ERRS[:4]]
    return out


# ---- CEL literal rendering --------------------------------------------------
def lit_int(z):
    if z == I64_MIN:
        return "(-9223372036854775807 - 1)"
    return "(%d)" % z if z < 0 else "%d" % z


def lit_uint(z):
    return "%du" % z


def lit_float_bits(b):
    """Exact decimal spelling of a finite double (None for NaN)."""
    x = bits_f(b)
    if x != x:
        return None
    if x in (float("inf"), float("-inf")):
        return "1e999" if x > 0 else "(-1e999)"
    neg = (b >> 63) == 1
    s = repr(abs(x))
    if "e" in s or "E" in s:
        m, e = s.lower().split("e")
        if "." not in m:
            m += ".0"
        s = m + "e" + e
    elif "." not in s:
        s += ".0"
    return "(-%s)" % s if neg else s


def lit_string(s):
    out = ["'"]
    for ch in s:
        o = ord(ch)
        if ch == "\\":
            out.append("\\\\")
        elif ch == "'":
            out.append("\\'")
        elif ch == "\n":
            out.append("\\n")
        elif o < 0x20 or o == 0x7f:
            out.append("\\x%02x" % o)
        else:
            out.append(ch)
    out.append("'")
    return "".join(out)


def lit_bytes(b):
    return "b'" + "".join("\\x%02x" % x for x in b) + "'"
