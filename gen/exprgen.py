"""Grammar-directed generator of CEL expressions (abstract syntax), renderer
(parenthesisation and white-space policies), free-identifier computation and
the standard binding environment used by the VM/compiler streams."""
import random
from values import *

# ---- abstract syntax -------------------------------------------------------
# ('lit', text)                        literal, already spelled
# ('id', name)
# ('bin', op, l, r)                    op in BINOPS
# ('un', op, count, e)                 op in '!' '-', count >= 1
# ('tern', c, a, b)
# ('match', scrut, [(pat, arm)])       pat: ('any',) | ('type', name) | ('cmp', op|None, e)
# ('list', [e]) ('map', [(k, v)])
# ('member', e, name) ('index', e, i) ('call', callee, [args])
# ('fstr', quote, [('s', text) | ('e', expr)])
# ('paren', e)

LEVEL = {'||': 1, '&&': 2, '<': 3, '<=': 3, '==': 3, '!=': 3, '>=': 3, '>': 3, 'in': 3,
         '+': 4, '-': 4, '*': 5, '/': 5, '%': 5}
BINOPS = list(LEVEL)


def level(e):
    k = e[0]
    if k == 'bin':
        return LEVEL[e[1]]
    if k in ('tern', 'match'):
        return 0
    if k == 'un':
        return 6
    if k in ('member', 'index', 'call'):
        return 7
    return 8


def toks(e, minlvl, pm, rng):
    """Token list of e in a position that requires at least precedence minlvl.
    pm: 'min' | 'full' | 'rand' parenthesisation."""
    t = _toks(e, pm, rng)
    need = level(e) < minlvl
    extra = (pm == 'full' and level(e) < 8) or (pm == 'rand' and rng.random() < 0.25)
    if need or extra:
        t = ['('] + t + [')']
        if pm == 'rand' and rng.random() < 0.1:
            t = ['('] + t + [')']
    return t


def _toks(e, pm, rng):
    k = e[0]
    if k == 'lit':
        return [e[1]]
    if k == 'id':
        return [e[1]]
    if k == 'paren':
        return ['('] + toks(e[1], 0, pm, rng) + [')']
    if k == 'bin':
        lv = LEVEL[e[1]]
        return toks(e[2], lv, pm, rng) + [e[1]] + toks(e[3], lv + 1, pm, rng)
    if k == 'un':
        return [e[1]] * e[2] + toks(e[3], 7, pm, rng)
    if k == 'tern':
        return toks(e[1], 1, pm, rng) + ['?'] + toks(e[2], 1, pm, rng) + [':'] + toks(e[3], 0, pm, rng)
    if k == 'match':
        out = ['match'] + toks(e[1], 0, pm, rng) + ['{']
        for i, (pat, arm) in enumerate(e[2]):
            if i:
                out.append(',')
            out.append('case')
            if pat[0] == 'any':
                out.append('_')
            elif pat[0] == 'type':
                out.append(pat[1])
            else:
                if pat[1]:
                    out.append(pat[1])
                out += toks(pat[2], 1, pm, rng)
            out.append(':')
            out += toks(arm, 0, pm, rng)
        return out + ['}']
    if k == 'list':
        out = ['[']
        for i, x in enumerate(e[1]):
            if i:
                out.append(',')
            out += toks(x, 0, pm, rng)
        return out + [']']
    if k == 'map':
        out = ['{']
        for i, (a, b) in enumerate(e[1]):
            if i:
                out.append(',')
            out += toks(a, 0, pm, rng) + [':'] + toks(b, 0, pm, rng)
        return out + ['}']
    if k == 'member':
        return _base(e[1], pm, rng) + ['.', e[2]]
    if k == 'index':
        return _base(e[1], pm, rng) + ['['] + toks(e[2], 0, pm, rng) + [']']
    if k == 'call':
        out = _base(e[1], pm, rng) + ['(']
        for i, x in enumerate(e[2]):
            if i:
                out.append(',')
            out += toks(x, 0, pm, rng)
        return out + [')']
    if k == 'fstr':
        q = e[1]
        s = 'f' + q
        for seg in e[2]:
            if seg[0] == 's':
                s += seg[1].replace('\\', '\\\\').replace(q, '\\' + q).replace('{', '{{').replace('}', '}}')
            else:
                inner = ''.join(join_tokens(toks(seg[1], 0, 'min', rng), 'min', rng))
                # '{{' and '}}' are escaped braces: keep a brace of the expression apart from the delimiters
                if inner.startswith('{'):
                    inner = ' ' + inner
                if inner.endswith('}'):
                    inner = inner + ' '
                s += '{' + inner + '}'
        return [s + q]
    raise ValueError(k)


def _base(e, pm, rng):
    t = toks(e, 7, pm, rng)
    # a numeric literal directly followed by '.' would lex as a float
    if e[0] == 'lit' and e[1][:1].isdigit() and len(t) == 1:
        t = ['('] + t + [')']
    return t


def _wordy(c):
    return c.isalnum() or c == '_' or c == '.'


WS = [' ', '\t', '\n', '  ', ' \n ', '\t ']


def join_tokens(ts, wm, rng):
    """wm: 'min' (separator only where tokens would merge) | 'one' | 'rand'"""
    out = []
    for i, t in enumerate(ts):
        if i:
            p = ts[i - 1]
            must = (_wordy(p[-1]) and _wordy(t[0])) or (p[-1] in '<>=!|&' and t[0] in '=|&') \
                or (p[-1] == t[0] == "'") or (p[-1] == t[0] == '"') or (p[-1] in 'bfr' and t[0] in '\'"')
            if wm == 'one':
                out.append(' ')
            elif wm == 'rand':
                if must or rng.random() < 0.6:
                    out.append(rng.choice(WS))
            elif must:
                out.append(' ')
        out.append(t)
    if wm == 'rand':
        if rng.random() < 0.3:
            out.insert(0, rng.choice(WS))
        if rng.random() < 0.3:
            out.append(rng.choice(WS))
    return out


def render(e, pm='min', wm='one', rng=None):
    rng = rng or random.Random(0)
    return ''.join(join_tokens(toks(e, 0, pm, rng), wm, rng))


def free_idents(e, acc=None):
    """Every identifier the expression mentions in a position where it is
    read as a variable or callee (what Program::params() reports), computed
    independently of the compiler: member names after '.' are not identifiers,
    type patterns are not, everything else is."""
    acc = set() if acc is None else acc
    k = e[0]
    if k == 'id':
        acc.add(e[1])
    elif k == 'bin':
        free_idents(e[2], acc); free_idents(e[3], acc)
    elif k == 'un':
        free_idents(e[3], acc)
    elif k == 'paren':
        free_idents(e[1], acc)
    elif k == 'tern':
        for x in e[1:]:
            free_idents(x, acc)
    elif k == 'match':
        free_idents(e[1], acc)
        for pat, arm in e[2]:
            if pat[0] == 'cmp':
                free_idents(pat[2], acc)
            free_idents(arm, acc)
    elif k == 'list':
        for x in e[1]:
            free_idents(x, acc)
    elif k == 'map':
        for a, b in e[1]:
            free_idents(a, acc); free_idents(b, acc)
    elif k == 'member':
        free_idents(e[1], acc)
    elif k == 'index':
        free_idents(e[1], acc); free_idents(e[2], acc)
    elif k == 'call':
        free_idents(e[1], acc)
        for x in e[2]:
            free_idents(x, acc)
    elif k == 'fstr':
        for seg in e[2]:
            if seg[0] == 'e':
                free_idents(seg[1], acc)
    return acc


def size(e):
    k = e[0]
    if k in ('lit', 'id'):
        return 1
    n = 1
    for x in e[1:]:
        if isinstance(x, tuple):
            n += size(x)
        elif isinstance(x, list):
            for y in x:
                if isinstance(y, tuple) and y and isinstance(y[0], str) and y[0] in (
                        'lit', 'id', 'bin', 'un', 'tern', 'match', 'list', 'map', 'member', 'index', 'call', 'fstr', 'paren'):
                    n += size(y)
                elif isinstance(y, tuple):
                    for z in y:
                        if isinstance(z, tuple) and z and z[0] in ('lit', 'id', 'bin', 'un', 'tern', 'match', 'list',
                                                                  'map', 'member', 'index', 'call', 'fstr', 'paren',
                                                                  'any', 'type', 'cmp'):
                            if z[0] == 'cmp':
                                n += size(z[2])
                            elif z[0] not in ('any', 'type'):
                                n += size(z)
    return n


# ---- standard environment ---------------------------------------------------
T1 = 1700000000 * 10 ** 9 + 123000000
STD_BINDS = [
    ("i1", vi(5)), ("i2", vi(-3)), ("i0", vi(0)), ("imax", vi(I64_MAX)), ("imin", vi(I64_MIN)),
    ("u1", vu(7)), ("u0", vu(0)), ("umax", vu(U64_MAX)),
    ("d1", vf(2.5)), ("d0", vf(0.0)), ("dn", vf(float("nan"))), ("dinf", vf(float("inf"))),
    ("b1", vb(True)), ("b0", vb(False)),
    ("s1", vs("hello")), ("s0", vs("")), ("s2", vs("héllo€")), ("sa", vs("a")),
    ("y1", vy(b"ab")), ("y0", vy(b"")),
    ("l1", vlist([vi(1), vi(2), vi(3)])), ("l0", vlist([])), ("l2", vlist([vs("a"), vs("b")])),
    ("l3", vlist([vi(3), vi(1), vi(2), vi(1)])),
    ("m1", vmap([("a", vi(1)), ("b", vmap([("c", vi(2)), ("d", VNULL)]))])), ("m0", vmap([])),
    ("nl", VNULL), ("t1", vtime(T1)), ("du1", vdur(90 * 10 ** 9 + 500 * 10 ** 6)),
]
STD_TYPES = {"i1": "int", "i2": "int", "i0": "int", "imax": "int", "imin": "int", "u1": "uint", "u0": "uint",
             "umax": "uint", "d1": "double", "d0": "double", "dn": "double", "dinf": "double", "b1": "bool",
             "b0": "bool", "s1": "string", "s0": "string", "s2": "string", "sa": "string", "y1": "bytes",
             "y0": "bytes", "l1": "list", "l0": "list", "l2": "list", "l3": "list", "m1": "map", "m0": "map",
             "nl": "null", "t1": "timestamp", "du1": "duration"}
UNBOUND = ["ub", "ub2"]
STD_PROGS = [("p_int", "i1 + 1"), ("p_err", "1 / 0"), ("p_true", "true"), ("p_ub", "ub")]
STD_UFUNCS = [("fa", "arg0"), ("ft", "const b1"), ("ff", "const b0"), ("fe", "const Ediv"), ("fargs", "args")]


def binds_tokens(binds):
    return "B( " + " ".join("%s %s" % (hx(k), v) for k, v in binds) + " )"


def ufuncs_tokens(ufs):
    return "F( " + " ".join("%s %s" % (hx(k), v) for k, v in ufs) + " )"


# ---- literals ----------------------------------------------------------------
def g_int_lit(rng):
    z = rng.choice([0, 1, 2, 3, 5, 7, 10, 100, 2 ** 31, I64_MAX, 42, 9])
    return ('lit', str(z))


def g_uint_lit(rng):
    return ('lit', "%du" % rng.choice([0, 1, 2, 3, 7, 2 ** 32, U64_MAX]))


def g_double_lit(rng):
    return ('lit', rng.choice(["0.0", "1.5", "2.5", "0.1", "1e3", "3.0", "1e-7", ".5", "100.25"]))


def g_string_lit(rng):
    return ('lit', lit_string(rng.choice(["", "a", "ab", "hello", "b", "hé", "x y", "a'b", "€"])))


def g_bytes_lit(rng):
    return ('lit', lit_bytes(rng.choice([b"", b"a", b"ab", b"\xff"])))


def g_bool_lit(rng):
    return ('lit', rng.choice(["true", "false"]))


ATOMS_BY_TYPE = {
    "int": (g_int_lit, ["i1", "i2", "i0", "imax", "imin"]),
    "uint": (g_uint_lit, ["u1", "u0", "umax"]),
    "double": (g_double_lit, ["d1", "d0", "dn", "dinf"]),
    "bool": (g_bool_lit, ["b1", "b0"]),
    "string": (g_string_lit, ["s1", "s0", "s2", "sa"]),
    "bytes": (g_bytes_lit, ["y1", "y0"]),
    "list": (None, ["l1", "l0", "l2", "l3"]),
    "map": (None, ["m1", "m0"]),
    "null": (lambda rng: ('lit', 'null'), ["nl"]),
    "timestamp": (None, ["t1"]),
    "duration": (None, ["du1"]),
}
TYPES = list(ATOMS_BY_TYPE)
NUMERIC = ["int", "uint", "double"]


class Gen:
    """Typed generator: gen(ty, depth) yields a mostly well-typed expression of
    type ty; with probability `wild` a sub-expression of a random type."""

    def __init__(self, rng, wild=0.08, use_unbound=0.05, use_progs=0.04, use_ufuncs=0.08,
                 macros=True, calls=True, fstrings=True, matches=True, loopvars=None):
        self.rng = rng
        self.wild = wild
        self.use_unbound = use_unbound
        self.use_progs = use_progs
        self.use_ufuncs = use_ufuncs
        self.macros = macros
        self.calls = calls
        self.fstrings = fstrings
        self.matches = matches
        self.loopvars = loopvars or []      # [(name, type)]
        self.counter = 0

    def atom(self, ty):
        rng = self.rng
        lits, ids = ATOMS_BY_TYPE[ty]
        lv = [n for n, t in self.loopvars if t == ty or t == "any"]
        if lv and rng.random() < 0.5:
            return ('id', rng.choice(lv))
        r = rng.random()
        if r < self.use_unbound:
            return ('id', rng.choice(UNBOUND))
        if r < self.use_unbound + self.use_progs:
            return ('id', rng.choice({"int": ["p_int", "p_err"], "bool": ["p_true", "p_err"]}.get(ty, ["p_ub"])))
        if lits is not None and rng.random() < 0.5:
            return lits(rng)
        if ty == "list" and rng.random() < 0.5:
            et = rng.choice(["int", "string", "double", "bool"])
            return ('list', [self.atom(et) for _ in range(rng.randrange(0, 4))])
        if ty == "map" and rng.random() < 0.5:
            return ('map', [(('lit', lit_string(rng.choice(["a", "b", "c"]))), self.atom(rng.choice(["int", "string"])))
                            for _ in range(rng.randrange(0, 3))])
        return ('id', rng.choice(ids))

    def gen(self, ty, depth):
        rng = self.rng
        if rng.random() < self.wild:
            ty = rng.choice(TYPES)
        if depth <= 0 or rng.random() < 0.15:
            return self.atom(ty)
        d = depth - 1
        opts = ['atom', 'tern', 'paren']
        if ty in NUMERIC:
            opts += ['arith'] * 4 + ['neg', 'conv']
            if self.calls:
                opts += ['math']
            if self.macros and ty == "int":
                opts += ['reduce']
        if ty == "int" and self.calls:
            opts += ['size', 'index']
        if ty == "uint" and self.calls:
            opts += ['size'] * 2
        if ty == "bool":
            opts += ['logic'] * 4 + ['rel'] * 3 + ['not', 'in']
            if self.calls:
                opts += ['strpred', 'ufunc']
            if self.macros:
                opts += ['quant'] * 2 + ['has']
        if ty == "string":
            opts += ['concat'] * 2
            if self.calls:
                opts += ['tostr']
            if self.fstrings:
                opts += ['fstr']
        if ty == "list":
            opts += ['concat', 'listlit'] * 2
            if self.macros:
                opts += ['mapm', 'filter']
            if self.calls:
                opts += ['sort']
        if ty == "map":
            opts += ['maplit'] * 2
        if ty in ("timestamp", "duration"):
            opts += ['timearith']
        if self.matches:
            opts += ['match']
        if self.macros:
            opts += ['coalesce']
        if self.use_ufuncs and self.calls and rng.random() < self.use_ufuncs:
            opts = ['ufarg']
        o = rng.choice(opts)
        if o == 'atom':
            return self.atom(ty)
        if o == 'paren':
            return ('paren', self.gen(ty, d))
        if o == 'tern':
            return ('tern', self.gen(rng.choice(["bool", "bool", "int", "string"]), d), self.gen(ty, d), self.gen(ty, d))
        if o == 'arith':
            t2 = ty if rng.random() < 0.8 else rng.choice(NUMERIC)
            return ('bin', rng.choice(['+', '-', '*', '/', '%']), self.gen(ty, d), self.gen(t2, d))
        if o == 'neg':
            return ('un', '-', rng.choice([1, 1, 2, 3]), self.gen(ty, d))
        if o == 'conv':
            return ('call', ('id', ty), [self.gen(rng.choice(NUMERIC + ["string", "bool"]), d)])
        if o == 'math':
            f = rng.choice(['abs', 'floor', 'ceil', 'round', 'min', 'max', 'pow'])
            if f in ('min', 'max'):
                return ('call', ('id', f), [self.gen(ty, d) for _ in range(rng.randrange(1, 4))])
            if f == 'pow':
                return ('call', ('id', f), [self.gen(ty, d), self.gen(rng.choice(["int", "uint"]), 0)])
            return ('call', ('id', f), [self.gen(rng.choice(NUMERIC), d)])
        if o == 'size':
            x = self.gen(rng.choice(["string", "list", "bytes"]), d)
            c = ('call', ('id', 'size'), [x]) if rng.random() < 0.5 else ('call', ('member', x, 'size'), [])
            return c if ty == "uint" else ('call', ('id', 'int'), [c])
        if o == 'index':
            if rng.random() < 0.5:
                return ('index', self.gen("list", d), self.gen("int", d))
            return ('member', self.gen("map", d), rng.choice(["a", "b", "zz"])) if rng.random() < 0.5 else \
                ('index', self.gen("map", d), self.gen("string", 0))
        if o == 'logic':
            t2 = "bool" if rng.random() < 0.85 else rng.choice(TYPES)
            return ('bin', rng.choice(['||', '&&']), self.gen("bool", d), self.gen(t2, d))
        if o == 'rel':
            t = rng.choice(NUMERIC + ["string", "bool", "bytes", "timestamp", "duration"])
            t2 = t if rng.random() < 0.8 else rng.choice(TYPES)
            return ('bin', rng.choice(['<', '<=', '==', '!=', '>=', '>']), self.gen(t, d), self.gen(t2, d))
        if o == 'not':
            return ('un', '!', rng.choice([1, 1, 2]), self.gen(rng.choice(["bool", "bool", "int", "string"]), d))
        if o == 'in':
            k = rng.random()
            if k < 0.4:
                return ('bin', 'in', self.gen(rng.choice(["int", "string"]), d), self.gen("list", d))
            if k < 0.7:
                return ('bin', 'in', self.gen("string", d), self.gen("map", d))
            return ('bin', 'in', self.gen("string", d), self.gen("string", d))
        if o == 'strpred':
            f = rng.choice(['contains', 'startsWith', 'endsWith'])
            return ('call', ('member', self.gen("string", d), f), [self.gen("string", d)])
        if o == 'ufunc':
            return ('call', ('id', rng.choice(['ft', 'ff', 'fe'])), [])
        if o == 'ufarg':
            return ('call', ('id', 'fa'), [self.gen(ty, d)])
        if o == 'quant':
            v = self.fresh()
            et = rng.choice(["int", "string"])
            inner = Gen(rng, self.wild, self.use_unbound, self.use_progs, self.use_ufuncs, self.macros, self.calls,
                        self.fstrings, self.matches, self.loopvars + [(v, et)])
            rngl = self.gen("list", d) if rng.random() < 0.6 else ('list', [self.atom(et) for _ in range(rng.randrange(0, 4))])
            return ('call', ('member', rngl, rng.choice(['all', 'exists', 'exists_one'])),
                    [('id', v), inner.gen("bool", d)])
        if o == 'has':
            base = rng.choice(["m1", "m0", "ub", "i1", "m1"])
            e = ('id', base)
            for _ in range(rng.randrange(0, 3)):
                e = ('member', e, rng.choice(["a", "b", "c", "d", "zz"]))
            return ('call', ('id', 'has'), [e])
        if o == 'coalesce':
            return ('call', ('id', 'coalesce'), [self.gen(ty, d) if rng.random() < 0.6 else
                                                 rng.choice([('lit', 'null'), ('id', 'ub'), ('member', ('id', 'm1'), 'zz')])
                                                 for _ in range(rng.randrange(0, 4))])
        if o == 'concat':
            return ('bin', '+', self.gen(ty, d), self.gen(ty, d))
        if o == 'tostr':
            return ('call', ('id', 'string'), [self.gen(rng.choice(["int", "uint", "string", "bytes"]), d)])
        if o == 'fstr':
            segs = []
            for _ in range(rng.randrange(1, 4)):
                if rng.random() < 0.5:
                    segs.append(('s', rng.choice(["a", "x=", " ", "{", "}", "it's", "é"])))
                else:
                    segs.append(('e', self.gen(rng.choice(["int", "string", "uint"]), min(d, 1))))
            return ('fstr', rng.choice(["'", '"']), segs)
        if o == 'listlit':
            et = rng.choice(["int", "string", "double", "bool", "list"])
            return ('list', [self.gen(et, d) for _ in range(rng.randrange(0, 4))])
        if o == 'maplit':
            return ('map', [(self.gen("string", 0), self.gen(rng.choice(TYPES), d)) for _ in range(rng.randrange(0, 4))])
        if o in ('mapm', 'filter'):
            v = self.fresh()
            et = rng.choice(["int", "string"])
            inner = Gen(rng, self.wild, self.use_unbound, self.use_progs, self.use_ufuncs, self.macros, self.calls,
                        self.fstrings, self.matches, self.loopvars + [(v, et)])
            rngl = self.gen("list", d) if rng.random() < 0.5 else ('list', [self.atom(et) for _ in range(rng.randrange(0, 4))])
            if o == 'filter':
                return ('call', ('member', rngl, 'filter'), [('id', v), inner.gen("bool", d)])
            if rng.random() < 0.3:
                return ('call', ('member', rngl, 'map'), [('id', v), inner.gen("bool", d), inner.gen(et, d)])
            return ('call', ('member', rngl, 'map'), [('id', v), inner.gen(et, d)])
        if o == 'reduce':
            a, v = self.fresh(), self.fresh()
            inner = Gen(rng, self.wild, self.use_unbound, self.use_progs, self.use_ufuncs, self.macros, self.calls,
                        self.fstrings, self.matches, self.loopvars + [(a, "int"), (v, "int")])
            return ('call', ('member', self.gen("list", d), 'reduce'),
                    [('id', a), ('id', v), inner.gen("int", d), self.gen("int", 0)])
        if o == 'sort':
            return ('call', ('member', self.gen("list", d), 'sort'), [])
        if o == 'timearith':
            if ty == "timestamp":
                return ('bin', rng.choice(['+', '-']), self.gen("timestamp", d), self.gen("duration", d))
            return ('bin', rng.choice(['+', '-']), self.gen("duration", d), self.gen("duration", d))
        if o == 'match':
            st = rng.choice(["int", "string", "bool", "double"])
            cases = []
            for _ in range(rng.randrange(0, 4)):
                r = rng.random()
                if r < 0.25:
                    pat = ('any',)
                elif r < 0.5:
                    pat = ('type', rng.choice(["int", "uint", "string", "bool", "double", "float", "bytes", "timestamp"]))
                else:
                    pat = ('cmp', rng.choice([None, '==', '!=', '<', '<=', '>', '>=']), self.gen(st, 0))
                cases.append((pat, self.gen(ty, d)))
            return ('match', self.gen(st, d), cases)
        return self.atom(ty)

    def fresh(self):
        self.counter += 1
        return rng_name(self.counter + len(self.loopvars))


def rng_name(i):
    return "v%d" % i
