"""Case builders and the model/implementation tie shared by the property checks."""
from common import *
from values import *
from exprgen import *

STD_SRC = " ".join("%s %s" % (hx(n), hx(s)) for n, s in STD_PROGS)


def evalsrc_case(main, progs=None, binds=None, ufuncs=None, std=True, entry="main"):
    progs = progs or []
    binds = STD_BINDS if binds is None else binds
    ufuncs = STD_UFUNCS if ufuncs is None else ufuncs
    ps = "%s %s" % (hx("main"), hx(main)) if main is not None else ""
    extra = " ".join("%s %s" % (hx(n), hx(s)) for n, s in progs)
    return "evalsrc %s S( %s %s %s ) %s %s" % (hx(entry), ps, extra, STD_SRC if std else "",
                                              binds_tokens(binds), ufuncs_tokens(ufuncs))


BAD_MODEL = ("MODEL_", "BADCASE", "UNSUPPORTED", "NOTRUN", "PANIC")
DEAD = ("PANIC", "ABORT", "TIMEOUT")


def is_dead(r):
    return r == "PANIC" or r.startswith(("ABORT", "TIMEOUT"))


def tie(chk, stream, cases, labels=None, profile="debug", isolate=True, on_dead=True):
    """Runs the cases on implementation and model.  Registers a violation for
    a dead implementation (panic/abort/timeout) and a broken tie for every
    disagreement.  Returns (impl, model)."""
    impl = run_impl(cases, profile, isolate=isolate)
    model = run_model(cases)
    nun = 0
    for i, c in enumerate(cases):
        lab = labels[i] if labels else c
        r, m = impl[i], model[i]
        if r.startswith(("BADCASE", "UNSUPPORTED")):
            raise RuntimeError("generator bug: %s -> %s" % (c, r))
        if is_dead(r):
            if on_dead:
                chk.violation("the implementation panics/aborts/hangs instead of returning a value or an error",
                              dict(case=c, label=lab, impl=r, model=m))
            continue
        if m == "UNMOD":
            nun += 1
            continue
        if m.startswith(BAD_MODEL) or m.startswith(("ABORT", "TIMEOUT")):
            chk.tie_broken(stream, dict(label=lab, case=c, impl=r, model=m))
        elif r != m:
            chk.tie_broken(stream, dict(label=lab, case=c, impl=r, model=m))
    chk.cov.setdefault("model_unmodelled_cases", 0)
    chk.cov["model_unmodelled_cases"] += nun
    return impl, model


def split_result(r):
    """'OK <v> LOG( .. )' | 'ERR <e> LOG( .. )' | 'CERR name e' -> (kind, payload, log)"""
    if r.startswith(("OK ", "ERR ")):
        k = r[:2] if r.startswith("OK") else "ERR"
        rest = r[len(k) + 1:]
        i = rest.find(" LOG(")
        if i >= 0:
            return k, rest[:i], rest[i + 6:-1].strip()
        return k, rest, ""
    if r.startswith("CERR "):
        return "CERR", r[5:], ""
    return r, "", ""


def gen_sources(rng, n, depth=(1, 5), **kw):
    g = Gen(rng, **kw)
    out = []
    for _ in range(n):
        e = g.gen(rng.choice(TYPES), rng.randrange(*depth))
        out.append(e)
    return out
