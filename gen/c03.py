"""C03 — numeric operators are exact or fail; no wrap-around, no profile-dependent result."""
import random
from common import *
from values import *

OPS = ["add", "sub", "mul", "div", "mod"]
SYM = {"add": "+", "sub": "-", "mul": "*", "div": "/", "mod": "%"}
CONCAT_OR_TIME = {
    ("add", "string", "string"), ("add", "bytes", "bytes"), ("add", "list", "list"),
    ("add", "timestamp", "duration"), ("add", "duration", "timestamp"), ("add", "duration", "duration"),
    ("sub", "timestamp", "duration"), ("sub", "timestamp", "timestamp"), ("sub", "duration", "timestamp"),
    ("sub", "duration", "duration"),
}
NUMERIC = {"int", "uint", "double", "bool"}


def literal_of(tag, tok):
    if tag == "int":
        return lit_int(int(tok[1:]))
    if tag == "uint":
        return lit_uint(int(tok[1:]))
    if tag == "double":
        return lit_float_bits(int(tok[1:], 16))
    if tag == "bool":
        return "true" if tok == "b1" else "false"
    return None


def run(chk):
    rng = random.Random(chk.seed)
    profiles = ("debug", "release")
    if not builds_or_die(chk, profiles):
        return
    num = numeric_pool()
    oth = other_pool()
    cases, meta = [], []
    for op in OPS:
        for (ta, a) in num:
            for (tb, b) in num:
                cases.append("binop %s %s %s" % (op, a, b)); meta.append((op, ta, tb, "grid"))
        for (ta, a) in num:
            for (tb, b) in oth:
                cases.append("binop %s %s %s" % (op, a, b)); meta.append((op, ta, tb, "mixed"))
                cases.append("binop %s %s %s" % (op, b, a)); meta.append((op, tb, ta, "mixed"))
        for (ta, a) in oth:
            for (tb, b) in oth:
                cases.append("binop %s %s %s" % (op, a, b)); meta.append((op, ta, tb, "other"))
    n_grid = len(cases)
    nrand = 20000 if chk.tier == "quick" else 400000
    def rnd_num():
        k = rng.randrange(4)
        if k == 0:
            z = rng.choice([rng.randrange(I64_MIN, I64_MAX + 1), rng.randrange(-2 ** 33, 2 ** 33),
                            rng.choice(INTS) + rng.randrange(-2, 3)])
            return ("int", vi(max(I64_MIN, min(I64_MAX, z))))
        if k == 1:
            return ("uint", vu(rng.choice([rng.randrange(0, U64_MAX + 1), rng.randrange(0, 2 ** 33)])))
        if k == 2:
            return ("double", vf_bits(rng.choice([rng.getrandbits(64), rng.choice(FLOAT_BITS),
                                                  f_bits(float(rng.randrange(-2 ** 40, 2 ** 40)) / 8.0)])))
        return ("bool", vb(rng.random() < 0.5))
    for _ in range(nrand):
        op = rng.choice(OPS)
        ta, a = rnd_num()
        tb, b = rnd_num()
        cases.append("binop %s %s %s" % (op, a, b)); meta.append((op, ta, tb, "random"))
    # unary minus
    n_bin = len(cases)
    for (ta, a) in num + oth:
        cases.append("unop neg %s" % a); meta.append(("neg", ta, None, "neg"))

    impl = run_impl(cases, "debug")
    implr = run_impl(cases, "release")
    model = run_model(cases)
    spec = run_model([c.replace("binop ", "spec_arith ", 1) if c.startswith("binop ") else "echo n" for c in cases])

    distinct = set()
    for i, c in enumerate(cases):
        op, ta, tb, stream = meta[i]
        r, rr, m, s = impl[i], implr[i], model[i], spec[i]
        if ta != "err" and tb != "err":
            distinct.add(c)
        if r.startswith(("BADCASE", "UNSUPPORTED")) or m.startswith(("BADCASE", "UNSUPPORTED")):
            raise RuntimeError("generator bug: %s -> %s / %s" % (c, r, m))
        rep = dict(case=c, impl_debug=r, impl_release=rr, model=m, spec=s,
                   replay_cmd="./check C03 --replay <this file>")
        if r in ("PANIC",) or r.startswith(("ABORT", "TIMEOUT")) or rr in ("PANIC",) or rr.startswith(("ABORT", "TIMEOUT")):
            chk.violation("operator panics/aborts instead of returning a value or an error", rep)
            continue
        if r != rr:
            chk.violation("result depends on the build profile (debug vs release)", rep)
            continue
        if i < n_bin:
            if s == "NA":
                if (op, ta, tb) not in CONCAT_OR_TIME and ta != "err" and tb != "err" and not r.startswith("E"):
                    chk.violation("operand combination outside the numeric/concat/time table must be an error", rep)
                    continue
            elif s == "MUSTERR":
                if not r.startswith("E"):
                    chk.violation("result not representable (or undefined): must be an error", rep)
                    continue
            elif r != s:
                chk.violation("numeric operator does not return the exact result of the widened operands", rep)
                continue
        if r != m:
            chk.tie_broken("ops", dict(case=c, impl=r, model=m))
    chk.stream("operator grid (numeric x numeric, numeric x other, other x other) x 5 operators x {debug,release}",
               n_grid, len([c for c in distinct if True]) - 0, exhaustive=True)
    chk.stream("random 64-bit operands", nrand, 0)
    chk.stream("unary minus over the pool", len(cases) - n_bin, 0, exhaustive=True)
    chk.cov["distinct_nontrivial"] = len(distinct)
    chk.cov["rule"] = ("boundary grid per type (ints %d, uints %d, doubles %d by bit pattern, bools 2, %d "
                       "non-numeric values) x {+,-,*,/,%%} x all ordered pairs, enumerated completely, plus seeded "
                       "random 64-bit operands; a case is counted as distinct+nontrivial when its text is distinct and "
                       "neither operand is an error value" % (len(INTS), len(UINTS), len(FLOAT_BITS), len(oth)))
    for i in (0, 5000, n_grid - 1, n_grid + 5, len(cases) - 1):
        if i < len(cases):
            chk.sample(dict(case=cases[i], impl=impl[i], model=model[i], spec=spec[i]))

    # literal vs bound: the same operation through the compiler and the VM
    pairs = [(x, y) for x in num for y in num]
    rng.shuffle(pairs)
    pairs = pairs[: (1500 if chk.tier == "quick" else 8000)]
    ecases, eref = [], []
    for (ta, a), (tb, b) in pairs:
        la, lb = literal_of(ta, a), literal_of(tb, b)
        for op in OPS:
            ref = "binop %s %s %s" % (op, a, b)
            forms = [("x %s y" % SYM[op], [("x", a), ("y", b)])]
            if la is not None and lb is not None:
                forms.append(("%s %s %s" % (la, SYM[op], lb), []))
            if la is not None:
                forms.append(("%s %s y" % (la, SYM[op]), [("y", b)]))
            if lb is not None:
                forms.append(("x %s %s" % (SYM[op], lb), [("x", a)]))
            for src, binds in forms:
                ecases.append("eval %s %s" % (vs(src), vmap(binds)))
                eref.append((ref, src))
    refs = sorted(set(r for r, _ in eref))
    refres = dict(zip(refs, run_impl(refs, "debug")))
    for prof in profiles:
        eres = run_impl(ecases, prof)
        for i, c in enumerate(ecases):
            ref, src = eref[i]
            want = refres[ref]
            want = ("ERR " + want) if want.startswith("E") else ("OK " + want)
            if eres[i] != want:
                chk.violation("literal and bound operands give different outcomes",
                              dict(case=c, source=src, profile=prof, got=eres[i], operator_level=want, ref_case=ref))
    chk.stream("literal vs bound vs mixed operands through compile+exec x {debug,release}", 2 * len(ecases),
               len(set(ecases)))
    chk.sample(dict(case=ecases[0], source=eref[0][1]))
    chk.cov["distinct_nontrivial"] += len(set(ecases))


    # unary minus runs through the compiler and the VM: -x, --x, ---x, -(-x) must equal the operator applied
    # that many times (an error once any application is an error)
    vals = num + oth[:12]
    lvl1 = run_impl(["unop neg %s" % v for _, v in vals], "debug")
    lvl2 = run_impl(["unop neg %s" % (r if not r.startswith("E") else "Ediv") for r in lvl1], "debug")
    lvl3 = run_impl(["unop neg %s" % (r if not r.startswith("E") else "Ediv") for r in lvl2], "debug")
    ncases, nwant = [], []
    for k, (t, v) in enumerate(vals):
        chain = [lvl1[k]]
        chain.append(lvl1[k] if lvl1[k].startswith("E") else lvl2[k])
        chain.append(chain[1] if chain[1].startswith("E") else lvl3[k])
        l = literal_of(t, v)
        forms = [("-x", 1), ("--x", 2), ("---x", 3), ("-(-x)", 2), ("- - x", 2), ("-(--x)", 3), ("(--x)", 2)]
        for src, n in forms:
            ncases.append("eval %s %s" % (vs(src), vmap([("x", v)]))); nwant.append((chain[n - 1], src, v))
            if l is not None:
                ls = src.replace("x", l if l.startswith("(") else "(" + l + ")")
                ncases.append("eval %s %s" % (vs(ls), vmap([]))); nwant.append((chain[n - 1], ls, v))
    for prof in profiles:
        nres = run_impl(ncases, prof)
        for c, r, (w, src, v) in zip(ncases, nres, nwant):
            w2 = ("ERR " + w) if w.startswith("E") else ("OK " + w)
            ok = r == w2 or (w.startswith("E") and r.startswith("ERR "))
            if not ok:
                chk.violation("a run of unary minus signs does not equal the operator applied that many times "
                              "(an error must stay an error)", dict(case=c, source=src, operand=v, profile=prof, got=r,
                                                                    operator_level=w2))
    chk.stream("unary minus runs (-x, --x, ---x, -(-x)) with bound and literal operands x {debug,release}",
               2 * len(ncases), len(set(ncases)), exhaustive=True)
    chk.cov["distinct_nontrivial"] += len(set(ncases))


def replay(chk, rep):
    if not builds_or_die(chk, ("debug", "release")):
        return
    c = rep["case"]
    r = run_impl([c], "debug")[0]
    rr = run_impl([c], "release")[0]
    print("case: %s\nimpl(debug): %s\nimpl(release): %s" % (c, r, rr))
    if c.startswith("binop "):
        m = run_model([c])[0]
        s = run_model([c.replace("binop ", "spec_arith ", 1)])[0]
        print("model: %s\nspec: %s" % (m, s))
        bad = (r != rr) or (s == "MUSTERR" and not r.startswith("E")) or (s not in ("NA", "MUSTERR") and r != s)
        if bad:
            chk.violation(rep.get("what", "replayed"), rep)
    elif "operator_level" in rep:
        w = rep["operator_level"]
        for x in (r, rr):
            if not (x == w or (w.startswith("ERR ") and x.startswith("ERR "))):
                chk.violation(rep.get("what", "replayed"), rep)
                break
