"""C12 — names resolve in a fixed order; program references compose and are depth-bounded.

Streams (every case runs in a child process on a default-size stack, so a stack
overflow is seen as an abort, and every case is also evaluated by the model):
  * reference graphs up to 4 programs, each edge through every referencing
    construct; expected value / error computed here by walking the graph,
  * chains of 1..64 programs through each construct; expected by depth accounting
    (a construct that runs its operand as separate code costs two levels),
  * name-collision configurations with hand-written expectations,
  * values bound through JSON vs. bound directly.
"""
import itertools
import random
from streams import *

LEVEL_NOTE = ("theorems: resolution order, call order, field before method, insert-or-replace, depth guard, chains of "
              "references (<= 32 evaluate, endless ones fail), JSON round trip; tie: graphs, chains, collisions, JSON")

# construct: (template over the referenced names, python value of the construct given the values of the targets, cost)
# cost = activations consumed per link: 1 for the referenced program itself, plus 1 for every level of separately run
# code the reference sits in (macro body, has/coalesce argument, call argument, f-string segment)
UN = {
    "ident": ("{0}", lambda v: v, 1),
    "arith": ("{0} + 1", lambda v: v + 1, 1),
    "neg": ("-{0}", lambda v: -v, 1),
    "ternary": ("true ? {0} : 0", lambda v: v, 1),
    "cond": ("{0} > -1000 ? 1 : 2", lambda v: 1, 1),
    "list": ("[{0}][0]", lambda v: v, 1),
    "mapval": ("{{'k': {0}}}.k", lambda v: v, 1),
    "callarg": ("int({0})", lambda v: v, 2),
    "method": ("int(f'{{{0}}}'.size())", lambda v: len(str(v)), 3),
    "fstring_int": ("int(f'{{{0}}}')", lambda v: v, 3),
    "mapbody": ("[0].map(e, {0})[0]", lambda v: v, 2),
    "filterbody": ("[5].filter(e, {0} > -1000)[0]", lambda v: 5, 2),
    "allbody": ("[0].all(e, {0} > -1000) ? 1 : 0", lambda v: 1, 2),
    "existsbody": ("[0].exists(e, {0} > -1000) ? 1 : 0", lambda v: 1, 2),
    "reduce": ("[0].reduce(a, e, a + {0}, 0)", lambda v: v, 2),
    "has": ("has({0}) ? 7 : 0", lambda v: 7, 2),
    "coalesce": ("coalesce({0}, 0)", lambda v: v, 2),
    "nestedmap": ("[[0]].map(r, r.map(e, {0})[0])[0]", lambda v: v, 3),
    # the same macros over a map receiver (their loops are separate code paths)
    "mapbody_m": ("{{'k': 0}}.map(e, {0})[0]", lambda v: v, 2),
    "filterbody_m": ("size({{'k': 0}}.filter(e, {0} > -1000)) == 1 ? 5 : 6", lambda v: 5, 3),
    "existsone": ("[0].exists_one(e, {0} > -1000) ? 1 : 0", lambda v: 1, 2),
    "map3": ("[0].map(e, {0} > -1000, {0})[0]", lambda v: v, 2),
}
BIN = {
    "add": ("{0} + {1}", lambda a, b: a + b),
    "listsum": ("[{0}, {1}].reduce(a, e, a + e, 0)", lambda a, b: a + b),
    "mapbody2": ("[{0}].map(e, e + {1})[0]", lambda a, b: a + b),
    "hasboth": ("has({0}) && has({1}) ? 3 : 4", lambda a, b: 3),
}


def node_name(i):
    return "n%d" % i


def graph_case(nodes):
    """nodes: list of ('leaf', k) | ('un', construct, j) | ('bin', construct, j, k)"""
    progs = []
    for i, nd in enumerate(nodes):
        if nd[0] == "leaf":
            src = str(nd[1])
        elif nd[0] == "un":
            src = UN[nd[1]][0].format(node_name(nd[2]))
        else:
            src = BIN[nd[1]][0].format(node_name(nd[2]), node_name(nd[3]))
        progs.append((node_name(i), src))
    return evalsrc_case(None, progs=progs, binds=[], ufuncs=[], std=False, entry=node_name(0)), progs


def graph_expect(nodes):
    """value of node 0, or None when the walk meets a cycle"""
    def ev(i, stack):
        if i in stack:
            raise RecursionError
        nd = nodes[i]
        if nd[0] == "leaf":
            return nd[1]
        if nd[0] == "un":
            return UN[nd[1]][1](ev(nd[2], stack | {i}))
        return BIN[nd[1]][1](ev(nd[2], stack | {i}), ev(nd[3], stack | {i}))
    try:
        return ev(0, frozenset())
    except RecursionError:
        return None


def jtok(v):
    """structured python value -> token"""
    k = v[0]
    if k == "i":
        return vi(v[1])
    if k == "u":
        return vu(v[1])
    if k == "f":
        return vf(v[1])
    if k == "s":
        return vs(v[1])
    if k == "b":
        return vb(v[1])
    if k == "n":
        return VNULL
    if k == "l":
        return vlist([jtok(x) for x in v[1]])
    return vmap([(kk, jtok(x)) for kk, x in v[1]])


def jcanon(v):
    k = v[0]
    if k == "u" and v[1] <= I64_MAX:
        return ("i", v[1])
    if k == "l":
        return ("l", [jcanon(x) for x in v[1]])
    if k == "m":
        return ("m", [(kk, jcanon(x)) for kk, x in v[1]])
    return v


def jgen(rng, depth):
    r = rng.random()
    if depth <= 0 or r < 0.55:
        c = rng.randrange(7)
        if c == 0:
            return ("i", rng.choice([0, 1, -1, 42, -7, I64_MAX, I64_MIN, I64_MAX - 1, rng.randrange(-10 ** 12, 10 ** 12)]))
        if c == 1:
            return ("u", rng.choice([0, 1, 7, I64_MAX, I64_MAX + 1, U64_MAX, rng.randrange(0, U64_MAX)]))
        if c == 2:
            return ("f", rng.choice([0.0, -0.0, 1.0, 2.0, -3.0, 1.5, 1e300, 5e-324, 1e15, 9007199254740993.0, 0.1,
                                     rng.uniform(-1e6, 1e6)]))
        if c == 3:
            return ("s", rng.choice(["", "a", "héllo€", "x y", "\"q\"", "\\", "\n", "k"]))
        if c == 4:
            return ("b", rng.random() < 0.5)
        if c == 5:
            return ("n",)
        return ("i", rng.randrange(-5, 5))
    if r < 0.8:
        return ("l", [jgen(rng, depth - 1) for _ in range(rng.randrange(0, 4))])
    keys = rng.sample(["a", "b", "zz", "", "k1", "é", "size", "map"], rng.randrange(0, 4))
    return ("m", [(k, jgen(rng, depth - 1)) for k in sorted(keys, key=lambda s: s.encode())])


def run(chk):
    rng = random.Random(chk.seed)
    if not builds_or_die(chk):
        return
    cases, want, labels = [], [], []

    def add_graph(nodes):
        c, progs = graph_case(nodes)
        cases.append(c)
        want.append(graph_expect(nodes))
        labels.append("; ".join("%s := %s" % p for p in progs))

    # ---- graphs: every unary shape on 1..4 programs, all edges through one construct --------
    for n in range(1, 5):
        shapes = list(itertools.product([None] + list(range(n)), repeat=n))
        for sh in shapes:
            if all(t is None for t in sh):
                add_graph([("leaf", i + 1) for i in range(n)])
                continue
            ks = list(UN.keys())
            if n == 4 and chk.tier == "quick":
                ks = rng.sample(ks, 6)
            for k in ks:
                add_graph([("leaf", i + 1) if t is None else ("un", k, t) for i, t in enumerate(sh)])
    n_un = len(cases)
    # a list holding the referenced program's result, measured: the failure of a cyclic reference is an error *value*
    # inside the list, which size() does not look at (recorded finding, same root as C05's call-argument finding)
    ls_cases, ls_labels, ls_want = [], [], []
    for n in range(1, 4):
        for sh in itertools.product([None] + list(range(n)), repeat=n):
            if sh[0] is None:
                continue
            progs = [(node_name(i), str(i + 1) if t is None else "[%s].size()" % node_name(t)) for i, t in enumerate(sh)]
            ls_cases.append(evalsrc_case(None, progs=progs, binds=[], ufuncs=[], std=False, entry="n0"))
            ls_labels.append("; ".join("%s := %s" % p for p in progs))
            ls_want.append(graph_expect([("leaf", i + 1) if t is None else ("un", "ident", t) for i, t in enumerate(sh)]))
    ls_impl, _ = tie(chk, "list-size graphs", ls_cases, labels=ls_labels)
    for lab, c, r, w in zip(ls_labels, ls_cases, ls_impl, ls_want):
        if is_dead(r):
            continue
        k, payload, _ = split_result(r)
        if w is None and k != "ERR":
            chk.violation("a cyclic reference graph does not end in an error", dict(case=c, programs=lab, impl=r),
                          key="cycle-error-absorbed:list-size" if r.startswith("OK u1") else None)
        elif w is not None and not (k == "OK" and payload == vu(1)):
            chk.violation("an acyclic reference graph does not evaluate to the composed value",
                          dict(case=c, programs=lab, impl=r, expected="OK " + vu(1)))
    chk.stream("reference shapes on 1..3 programs through `[p].size()`", len(ls_cases), len(ls_cases), exhaustive=True)
    # binary shapes (diamonds, cycles through one branch) with random constructs, and mixed unary assignments
    for n in range(2, 5):
        choices = [None] + list(range(n)) + [(a, b) for a in range(n) for b in range(n)]
        shapes = list(itertools.product(choices, repeat=n))
        if len(shapes) > 2500:
            rng.shuffle(shapes)
            shapes = shapes[:2500 if chk.tier == "quick" else 20000]
        for sh in shapes:
            nodes = []
            for i, t in enumerate(sh):
                if t is None:
                    nodes.append(("leaf", i + 1))
                elif isinstance(t, tuple):
                    nodes.append(("bin", rng.choice(list(BIN)), t[0], t[1]))
                else:
                    nodes.append(("un", rng.choice(list(UN)), t))
            add_graph(nodes)
    n_graph = len(cases)
    impl, model = tie(chk, "reference graphs", cases, labels=labels)
    ncyc = 0
    for lab, c, r, w in zip(labels, cases, impl, want):
        if is_dead(r):
            continue
        k, payload, _ = split_result(r)
        if w is None:
            ncyc += 1
            if k != "ERR":
                chk.violation("a cyclic reference graph does not end in an error", dict(case=c, programs=lab, impl=r))
        elif not (k == "OK" and payload == vi(w)):
            chk.violation("an acyclic reference graph does not evaluate to the composed value",
                          dict(case=c, programs=lab, impl=r, expected="OK " + vi(w)))
    chk.stream("unary reference shapes on 1..4 programs x construct (all edges through the same construct)", n_un, n_un,
               exhaustive=(chk.tier == "thorough"), note="quick: 6 of the 18 constructs per 4-program shape")
    chk.stream("shapes with two-reference programs (diamonds, cycles through one branch), random constructs",
               n_graph - n_un, len(set(cases[n_un:])), exhaustive=False)
    chk.cov["cyclic_graphs"] = ncyc
    chk.sample(dict(programs=labels[n_un - 3], impl=impl[n_un - 3], expected=want[n_un - 3]))
    chk.sample(dict(programs=labels[-1], impl=impl[-1], expected=want[-1]))

    # ---- chains 1..64 through each construct ---------------------------------------------------
    ccases, cwant, clabels = [], [], []
    CH = dict(UN)
    CH["fstring"] = ("f'{{{0}}}'", None, 2)
    for k, (tpl, f, cost) in CH.items():
        for n in range(1, 65):
            progs = [("c%d" % i, tpl.format("c%d" % (i + 1))) for i in range(n - 1)] + [("c%d" % (n - 1), "3")]
            ccases.append(evalsrc_case(None, progs=progs, binds=[], ufuncs=[], std=False, entry="c0"))
            v = 3
            for _ in range(n - 1):
                v = f(v) if f else v
            ok = (n - 1) * cost + 1 <= 32
            cwant.append((vi(v) if (f or n == 1) else vs("3")) if ok else None)
            clabels.append("chain of %d programs through %s" % (n, k))
    cimpl, cmodel = tie(chk, "chains", ccases, labels=clabels)
    for lab, c, r, w in zip(clabels, ccases, cimpl, cwant):
        if is_dead(r):
            continue
        k, payload, _ = split_result(r)
        if w is None:
            if not (k == "ERR" and payload == "Erun"):
                chk.violation("a chain deeper than the budget does not end in the depth error",
                              dict(case=c, label=lab, impl=r, expected="ERR Erun"))
        elif not (k == "OK" and payload == w):
            chk.violation("a chain within the depth budget (32 activations; at least 16 programs through any construct) "
                          "does not evaluate", dict(case=c, label=lab, impl=r, expected="OK " + w))
    chk.stream("chains of 1..64 programs through each of %d constructs" % len(CH), len(ccases), len(ccases), exhaustive=True)
    chk.sample(dict(label=clabels[15], impl=cimpl[15]))
    # loop iterations do not consume the budget
    lcases, lwant = [], []
    for n in (1, 10, 40, 200, 2000):
        src = "[%s].map(e, c1).size()" % ", ".join("0" for _ in range(n))
        progs = [("c0", src)] + [("c%d" % i, "c%d" % (i + 1)) for i in range(1, 25)] + [("c25", "3")]
        lcases.append(evalsrc_case(None, progs=progs, binds=[], ufuncs=[], std=False, entry="c0"))
        lwant.append("OK " + vu(n))
        src = "[%s].reduce(a, e, a + c1, 0)" % ", ".join("0" for _ in range(n))
        lcases.append(evalsrc_case(None, progs=[("c0", src)] + progs[1:], binds=[], ufuncs=[], std=False, entry="c0"))
        lwant.append("OK " + vi(3 * n))
    limpl, _ = tie(chk, "loops over chains", lcases)
    for c, r, w in zip(lcases, limpl, lwant):
        if not is_dead(r) and not r.startswith(w):
            chk.violation("loop iterations consume the depth budget", dict(case=c, impl=r, expected=w))
    chk.stream("loops of 1..2000 iterations whose body walks a 25-program chain", len(lcases), len(lcases), exhaustive=False)

    # ---- name collisions ----------------------------------------------------------------------
    col = []

    def coll(src, progs, binds, ufuncs, expect, note):
        col.append((evalsrc_case(src, progs=progs, binds=binds, ufuncs=ufuncs, std=False), expect, note + ": " + src))

    for tname in ["int", "uint", "double", "string", "bool", "bytes", "null_type", "type", "timestamp",
                  "duration", "float", "dyn"]:
        for vb_ in (False, True):
            for pb in (False, True):
                binds = [(tname, vi(5))] if vb_ else []
                progs = [(tname, "6")] if pb else []
                coll(tname, progs, binds, [], "?type", "type name vs variable=%s program=%s" % (vb_, pb))
                coll("type(%s)" % tname, progs, binds, [], "OK " + vtype("type"),
                     "type name vs variable=%s program=%s" % (vb_, pb))
    # a stored program is evaluated under the bindings in force where it is referenced: outside a macro the caller's, inside
    # a macro body the caller's plus the loop variable - also when the same program was already evaluated a moment before
    pr = [("dbl", "v * 2"), ("cur", "has(zz) ? zz : -1"), ("two", "dbl + dbl")]
    bv = [("v", vi(100))]
    for src, exp in [("dbl > 0 ? [1, 2, 3].map(v, dbl) : []", "OK " + vlist([vi(2), vi(4), vi(6)])),
                     ("[1, 2, 3].reduce(acc, v, acc + dbl, dbl)", "OK " + vi(212)),
                     ("dbl > 0 && [7, 8].map(v, dbl) == [14, 16]", "OK b1"),
                     ("[1, 2].map(v, dbl) + [dbl]", "OK " + vlist([vi(2), vi(4), vi(200)])),
                     ("two == 400 ? [1].map(v, two) : []", "OK " + vlist([vi(4)])),
                     ("dbl == 200 ? [1].map(v, two) + [two] : []", "OK " + vlist([vi(4), vi(400)])),
                     ("cur == -1 && [7, 8].map(zz, cur) == [7, 8]", "OK b1"),
                     ("cur == -1 ? [7].map(zz, cur) + [cur] : []", "OK " + vlist([vi(7), vi(-1)])),
                     ("[3].map(v, dbl) == [6] && dbl == 200 && [4].map(v, dbl) == [8]", "OK b1")]:
        coll(src, pr, bv, [], exp, "program reference under the loop variable after a reference outside")
    for vb_ in (False, True):
        for pb in (False, True):
            binds = [("v", vi(5))] if vb_ else []
            progs = [("v", "6")] if pb else []
            exp = "OK " + vi(5) if vb_ else ("OK " + vi(6) if pb else "ERR Ebind:76")
            for src, f in [("v", lambda e: e), ("v + 1", None), ("[v][0]", lambda e: e), ("[1].map(e, v)[0]", lambda e: e),
                           ("has(v)", None), ("coalesce(v, 9)", None), ("f'{v}'", None), ("int(v)", lambda e: e)]:
                if f is not None:
                    e2 = exp
                elif src == "v + 1":
                    e2 = "OK " + vi(6) if vb_ else ("OK " + vi(7) if pb else "ERR Ebind:76")
                elif src == "has(v)":
                    e2 = "OK " + vb(vb_ or pb)
                elif src == "coalesce(v, 9)":
                    e2 = "OK " + (vi(5) if vb_ else vi(6) if pb else vi(9))
                elif src == "f'{v}'":
                    e2 = "OK " + (vs("5") if vb_ else vs("6") if pb else "") if (vb_ or pb) else "ERR Ebind:76"
                else:
                    e2 = "OK " + vi(1) if (vb_ or pb) else "ERR Ebind:76"
                coll(src, progs, binds, [], e2, "variable=%s program=%s" % (vb_, pb))
    # the loop variable shadows variable and program; the program sees the caller's bindings, not the loop variable's
    coll("[1].map(v, v + 1)[0]", [("v", "6")], [("v", vi(5))], [], "OK " + vi(2), "loop variable shadows")
    coll("[1].map(w, v)[0]", [("v", "w")], [("w", vi(5))], [], "OK " + vi(1), "program under the bindings in force (loop variable)")
    coll("v", [("v", "w + 1")], [("w", vi(5))], [], "OK " + vi(6), "program under the same bindings")
    # call position: function, then macro, then type constructor, else not callable
    coll("has(zz)", [], [], [("has", "const i1")], "ERR Ebind:7a7a", "bound function named like a macro wins (arguments resolved)")
    coll("has(3)", [], [], [("has", "const i1")], "OK i1", "bound function named like a macro wins")
    coll("has(3)", [], [], [], "OK b1", "macro")
    coll("[1, 2].map(3)", [], [], [("map", "args")], "OK " + vlist([vi(3)]), "bound function named like a macro wins (method)")
    coll("coalesce(null, 4)", [], [], [("coalesce", "const i1")], "OK i1", "bound function wins over macro")
    s7 = [("s7", vs("7")), ("l2", vlist([vi(1), vi(2)])), ("i0", vi(0))]
    coll("int(s7)", [], s7, [("int", "const i1")], "OK i1", "bound function wins over the type conversion")
    coll("int(s7)", [], s7, [], "OK i7", "type conversion")
    coll("size(l2)", [], s7, [("size", "const i9")], "OK i9", "bound function replaces a default one")
    coll("size(l2)", [], s7 + [("size", vi(4))], [], "OK u2", "a variable named like a function does not affect the call")
    coll("timestamp(i0)", [], s7, [("timestamp", "const i1")], "OK i1", "bound function wins over the type constructor")
    coll("timestamp(i0)", [], s7, [], "OK t0", "type constructor")
    coll("l2.size()", [], s7, [("size", "this")], "OK " + vlist([vi(1), vi(2)]), "bound function replaces a default method")
    # with constant arguments the call is folded by the compiler, which knows only the default functions (recorded finding)
    for src, uf, exp in [("int('7')", ("int", "const i1"), "OK i1"), ("size([1, 2])", ("size", "const i9"), "OK i9"),
                         ("timestamp(0)", ("timestamp", "const i1"), "OK i1")]:
        col.append((evalsrc_case(src, progs=[], binds=[], ufuncs=[uf], std=False), exp,
                    "KF:bound-function-vs-folded-call bound function vs folded call: " + src))
    coll("size", [], [("size", vi(4))], [], "OK i4", "a variable named like a function resolves as a variable")
    coll("v(1)", [], [("v", vi(4))], [], "ERRANY", "a variable is not callable")
    coll("v(1)", [("v", "6")], [], [], "ERRANY", "a program is not callable")
    coll("nosuch(1)", [], [], [], "ERRANY", "not callable")
    # fields before methods
    coll("{'size': 7}.size", [], [], [], "OK i7", "field named like a method")
    coll("m.size", [], [("m", vmap([("size", vi(7)), ("a", vi(1))]))], [], "OK i7", "field named like a method")
    coll("m.map(k, k)", [], [("m", vmap([("a", vi(1))]))], [], "OK " + vlist([vs("a")]), "macro as method when no such field")
    coll("m.map(k, k)", [], [("m", vmap([("map", vi(7)), ("a", vi(1))]))], [], "ERRANY", "the field wins, and a number is not callable")
    coll("m.fa()", [], [("m", vmap([("fa", vi(7))]))], [("fa", "const i1")], "ERRANY", "the field wins over the bound method")
    coll("m.map", [], [("m", vmap([("map", vi(7))]))], [], "OK i7", "field named like a macro")
    coll("m.fa", [], [("m", vmap([("fa", vi(7))]))], [("fa", "const i1")], "OK i7", "field named like a bound function")
    coll("m.fa()", [], [("m", vmap([("a", vi(7))]))], [("fa", "const i1")], "OK i1", "bound method when no such field")
    coll("m.a", [], [("m", vmap([("a", vi(7))])), ("a", vi(1))], [("a", "const i2")], "OK i7", "field vs variable and function of that name")
    # the same order in every position an identifier can stand in (operand, element, map value, macro body and range,
    # call / method / constructor argument of run-time calls, f-string segment, condition branch, has, coalesce, match):
    # whatever else is bound under a type's name, the type wins; a variable wins over a program
    POS = ["%s", "[%s][0]", "{'k': %s}.k", "[1].map(e, %s)[0]", "[%s].map(e, e)[0]", "fa(%s)", "'a'.fa(%s)", "fargs(1, %s)[1]",
           "[fa(%s)][0]", "f'{%s}'", "true ? %s : 1", "coalesce(%s)", "string(has(%s))", "dyn(%s)", "type(%s)", "[1].map(e, fa(%s))[0]",
           "match %s { case _ : 0 }", "match 1 { case _ : %s }", "fa(fa(%s))", "i0 == 0 ? fa(%s) : 0", "[fa(%s), 2].size()", "fthis(%s)",
           "%s.fthis()"]
    posuf = [("fa", "arg0"), ("fargs", "args"), ("fthis", "this")]
    pos_groups = []
    for tname in ["int", "string", "timestamp", "type", "null_type", "double"]:
        for pt in POS:
            start = len(col)
            for vb_ in (False, True):
                for pb in (False, True):
                    binds = [("i0", vi(0))] + ([(tname, vi(5))] if vb_ else [])
                    progs = [(tname, "6")] if pb else []
                    col.append((evalsrc_case(pt % tname, progs=progs, binds=binds, ufuncs=posuf, std=False), "GROUP",
                                "type name in position %s vs variable=%s program=%s" % (pt, vb_, pb)))
            pos_groups.append((start, 4, "a type name resolves differently when a variable or program of that name is bound"))
    for pt in POS:
        for name, binds0, progs0, note in [("v", [("v", vi(5))], [("v", "6")], "variable over program")]:
            start = len(col)
            col.append((evalsrc_case(pt % name, progs=[], binds=[("i0", vi(0))] + binds0, ufuncs=posuf, std=False), "GROUP",
                        "variable in position %s, no program" % pt))
            col.append((evalsrc_case(pt % name, progs=progs0, binds=[("i0", vi(0))] + binds0, ufuncs=posuf, std=False), "GROUP",
                        "variable in position %s, program of the same name" % pt))
            pos_groups.append((start, 2, "a variable resolves differently when a program of that name is stored"))
    cimpl2, cmodel2 = tie(chk, "name collisions", [c for c, _, _ in col], labels=[n for _, _, n in col])
    for start, cnt, what in pos_groups:
        rs = [split_result(r)[:2] for r in cimpl2[start:start + cnt]]
        for j in range(1, cnt):
            if rs[j] != rs[0] and not any(is_dead(r) for r in cimpl2[start:start + cnt]):
                chk.violation(what, dict(case=col[start + j][0], label=col[start + j][2], impl=cimpl2[start + j],
                                         baseline_label=col[start][2], baseline=cimpl2[start]))
    for (c, exp, note), r in zip(col, cimpl2):
        if is_dead(r):
            continue
        k, payload, _ = split_result(r)
        if exp == "GROUP":
            continue
        if exp == "?type":
            ok = k == "OK" and payload.startswith("T")
        elif exp == "ERRANY":
            ok = k == "ERR"
        else:
            ok = ("%s %s" % (k, payload)) == exp
        if not ok:
            chk.violation("a name does not resolve in the specified order", dict(case=c, label=note, impl=r, expected=exp),
                          key=note.split()[0][3:] if note.startswith("KF:") else None)
    chk.stream("name-collision configurations (type / variable / program / function / macro / field)", len(col), len(col),
               exhaustive=True)
    chk.sample(dict(label=col[5][2], impl=cimpl2[5], expected=col[5][1]))

    # ---- JSON ------------------------------------------------------------------------------------
    nj = 400 if chk.tier == "quick" else 6000
    jcases, jwant = [], []
    for _ in range(nj):
        v = jgen(rng, 3)
        jcases.append("jsonbind %s %s %s" % (hx("[j == d, j]"), binds_tokens([("j", jtok(v))]), binds_tokens([("d", jtok(v))])))
        jwant.append("OK " + vlist([vb(True), jtok(jcanon(v))]))
    # replacing: a later JSON binding of the same name replaces a direct one (same map), names bound only directly stay
    for i in range(60 if chk.tier == "quick" else 600):
        v0, v1, v2 = jgen(rng, 2), jgen(rng, 2), jgen(rng, 1)
        if i % 3 == 0:
            v0, v1 = ("i", 4), ("i", 11)
        jcases.append("jsonbind %s %s %s" % (hx("[x, keep, fresh]"), binds_tokens([("x", jtok(v1)), ("fresh", jtok(v2))]),
                                             binds_tokens([("x", jtok(v0)), ("keep", jtok(v2))])))
        jwant.append("OK " + vlist([jtok(jcanon(v1)), jtok(v2), jtok(jcanon(v2))]))
    jimpl, jmodel = tie(chk, "JSON binding", jcases)
    for c, r, w in zip(jcases, jimpl, jwant):
        if not is_dead(r) and r != w:
            chk.violation("a value bound from JSON differs from the same value bound directly",
                          dict(case=c, impl=r, expected=w))
    chk.stream("random JSON-expressible values (depth <= 3) bound through JSON and directly", nj, len(set(jcases)),
               exhaustive=False)
    chk.sample(dict(case=jcases[0][:300], impl=jimpl[0][:300]))
    chk.cov["rule"] = ("graphs: every map from 1..4 programs to {literal, reference to any program} with all edges through "
                       "each construct; chains: every length 1..64 for each construct; collisions: listed configurations; "
                       "expected outcomes computed by walking the graph / counting activations, independently of the model")


def replay(chk, rep):
    if not builds_or_die(chk):
        return
    r = run_impl([rep["case"]], isolate=True)[0]
    print("impl:", r, "\nexpected:", rep.get("expected"))
    k, payload, _ = split_result(r)
    exp = rep.get("expected")
    if exp is None:
        ok = k == "ERR"
    elif exp == "?type":
        ok = k == "OK" and payload.startswith("T")
    elif exp == "ERRANY":
        ok = k == "ERR"
    else:
        ok = ("%s %s" % (k, payload)).strip() == exp or r == exp
    if is_dead(r) or not ok:
        chk.violation(rep.get("what", "replayed"), rep)
