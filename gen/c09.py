"""C09 — constant folding is invisible: compile-time and run-time evaluation agree."""
import random
import time
from streams import *

LEVEL_NOTE = ("the universal substitution theorem (for every expression, variable <-> literal does not change the result) "
              "is not proved; each folding site is proved to compute what the VM computes, and the substitution property "
              "is checked on generated expressions")

# variables with literal spellings of their values
LITERAL_OF = {
    "i1": "5", "i2": "(-3)", "i0": "0", "u1": "7u", "u0": "0u", "d1": "2.5", "d0": "0.0", "b1": "true", "b0": "false",
    "s1": "'hello'", "s0": "''", "s2": "'héllo€'", "sa": "'a'", "y1": "b'ab'", "y0": "b''",
    "l1": "[1, 2, 3]", "l0": "[]", "l2": "['a', 'b']", "l3": "[3, 1, 2, 1]", "m0": "{}",
    "m1": "{'a': 1, 'b': {'c': 2, 'd': null}}", "nl": "null",
    "imax": "9223372036854775807", "umax": "18446744073709551615u",
}


def subst(e, choose):
    """replace identifier nodes by literal nodes where choose(name) is true"""
    k = e[0]
    if k == 'id':
        if e[1] in LITERAL_OF and choose(e[1]):
            return ('lit', LITERAL_OF[e[1]])
        return e
    if k == 'lit':
        return e
    if k == 'bin':
        return ('bin', e[1], subst(e[2], choose), subst(e[3], choose))
    if k == 'un':
        return ('un', e[1], e[2], subst(e[3], choose))
    if k == 'paren':
        return ('paren', subst(e[1], choose))
    if k == 'tern':
        return ('tern', subst(e[1], choose), subst(e[2], choose), subst(e[3], choose))
    if k == 'match':
        cs = []
        for pat, arm in e[2]:
            if pat[0] == 'cmp':
                pat = ('cmp', pat[1], subst(pat[2], choose))
            cs.append((pat, subst(arm, choose)))
        return ('match', subst(e[1], choose), cs)
    if k == 'list':
        return ('list', [subst(x, choose) for x in e[1]])
    if k == 'map':
        return ('map', [(subst(a, choose), subst(b, choose)) for a, b in e[1]])
    if k == 'member':
        return ('member', subst(e[1], choose), e[2])
    if k == 'index':
        return ('index', subst(e[1], choose), subst(e[2], choose))
    if k == 'call':
        callee = e[1]
        if callee[0] == 'member':
            callee = ('member', subst(callee[1], choose), callee[2])
        args = list(e[2])
        # the first argument(s) of a macro are loop-variable names: never substituted
        keep = 0
        if callee[0] == 'member' and callee[2] in ('all', 'exists', 'exists_one', 'filter', 'map'):
            keep = 1
        if callee[0] == 'member' and callee[2] == 'reduce':
            keep = 2
        return ('call', callee, args[:keep] + [subst(a, choose) for a in args[keep:]])
    if k == 'fstr':
        return ('fstr', e[1], [(s if s[0] == 's' else ('e', subst(s[1], choose))) for s in e[2]])
    return e


TEMPLATES = [
    "[[A, 2], [3, 4]].filter(p, p[1] == 2)", "zip([A, 2], ['a', 'b'])", "[[A]].map(v, v)", "[[A], [2]].map(v, v[0])",
    "size([[A, 2]])", "[[A, 2], [3]] + [[4]]", "[[A, 2]][0][0]", "{'k': [A, 2]}.k", "{'k': {'j': A}}.k.j", "[{'k': A}].map(v, v.k)",
    "[[A, 1]].exists(p, p[0] == 1)", "coalesce([[A]])", "[[A, 2]].map(v, v.size())", "max(A, 1)", "min([A][0], 0)",
    "[A, 3].sort()", "[[A, 3]].map(v, v.sort())", "A ? [[A]] : [[2]]", "[[1, A].map(v, [v])]", "[[A, 2]].filter(p, true).size()",
    "{'a': A, 'a': 2}", "{'a': 2, 'a': A}.a", "[A, 2][-1]", "[A][0] / 0", "[[A / 0]].size()", "has({'k': [A]}.k)",
    "f'{[[A]]}' == 'x'", "[[A, 2]] == [[1, 2]]", "[[A, 2]] != [[1, 3]]", "[1, 2, 3].map(v, v + A).filter(w, w > A)",
    "[[A]].map(v, v.map(w, w * 2))", "string(A) + 'x'", "[string(A)]", "[[string(A)]]", "type([[A]][0][0])", "[[A]].all(p, p.all(q, q == 1))",
    "int([A][0]) + [[2]][0][0]", "[[A], []].map(v, v.size())", "[[A]].reduce(a, v, a + v.size(), 0)",
    # map literals whose key is not a string: an error value in the folder and in the VM alike
    "[{A: 1}].size()", "[{A: 1}]", "{'k': {A: 1}}", "size([{'a': 1, A: 2}])", "{'k': [{A: A}]}.k.size()", "[{'a': {A: 1}}, 2].size()",
    "[{true: A}].size()", "[{[A]: 1}].map(v, 1)", "size([{1.5: A}, {A: 1.5}])",
    # a variable read inside the body of a macro over a constant receiver, under a construct that absorbs a failed operand
    "[1, 2].map(v, match A { case 1 : v, case _ : 0 })", "[1, 2].filter(v, match A { case 1 : true, case _ : false })",
    "[1, 2].all(v, match A { case >= v : false, case _ : true })", "[1, 2].exists(v, match A { case == v : true, case _ : false })",
    "[1, 2, 1].exists_one(v, match A { case == v : true, case _ : false })",
    "[1, 2].reduce(a, v, a + match A { case int : v, case _ : 100 }, 0)", "{'a': 1}.map(k, match A { case 1 : k, case _ : 'z' })",
    "[[1], [2]].map(v, v.map(w, match A { case 1 : w, case _ : 0 }))", "[1, 2].map(v, [match A { case 1 : v }].size())",
    "size([1].map(v, match [A] { case list : 1, case _ : 2 }))", "[3].map(v, match A + v { case 4 : 'y', case _ : 'n' })[0]",
    # a constant operand of || / && next to a value that is not a boolean: the result is its truthiness, not the value
    "false || A", "true && A", "[false || A]", "(true && A) == true", "false || [A]", "true && {'k': A}", "false || (true && A)",
    "(false || A) ? 'y' : 'n'", "size([true && A, false || A])", "false || false || A", "true && true && A", "false || A || false",
    # a field whose name is also a function, a macro or a type: the folder reads the entry, and so must the VM
    "{'size': A, 'b': 1}.size", "{'filter': A}.filter", "{'map': 1, 'a': A}.map + A", "{'min': A, 'max': 5}.max", "{'has': A}.has",
    "{'int': A}.int", "{'contains': [A]}.contains[0]", "{'size': 3, 'b': A}.size", "{'all': A, 'exists': 2}.exists",
    "{'now': A}.now", "{'reduce': {'map': A}}.reduce.map", "[{'sort': A}].map(v, v.sort)[0]", "{'coalesce': A}.coalesce",
    "{'k': {'size': A}}.k.size", "{'timestamp': A, 'duration': 2}.duration", "{'size': A}.size + {'size': 1}.size",
]

# names the compiler's own function table does not have (has, coalesce, functions bound by the caller) in a position
# where a failed call would be absorbed (a match arm): evaluated with the standard caller-bound functions
TEMPLATES_UF = [
    "int(match coalesce(A) { case int : 1, case _ : 2 })", "string(match coalesce(A, 'b') { case == 1 : 'x', case _ : 'y' })",
    "int(match has(m1.a) { case bool : A, case _ : 2 })", "int(match fa(A) { case int : 1, case _ : 2 })",
    "int(match A.fa() { case int : 1, case _ : 2 })", "int(match {'k': A}.fa() { case _ : 2 })",
    "size([match fargs(A) { case list : 1, case _ : 2 }])", "int(match ft() { case == true : A, case _ : 2 })",
    "[1, 2].map(v, match coalesce(A) { case int : v, case _ : 0 })", "size(match fa([A]) { case list : [1], case _ : [] })",
    "int(match coalesce(A) { case >= 0 : 1, case _ : 2 }) + int(match fa(A) { case >= 0 : 1, case _ : 2 })",
    "max(match coalesce(nosuch, A) { case int : 1, case _ : 2 }, 0)",
]


# a failure nested several containers deep in the argument of a call the compiler tries to fold (every container kind on
# the way down, maps included): the result is not a constant
NEST_WRAP = ["dyn(%s)", "min(%s)", "[%s].filter(p, true)", "[%s].map(p, p)", "[0].reduce(a, v, a, %s)", "size([%s])"]
NEST_CONT = ["{'k': [%s]}", "{'k': {'j': %s}}", "[{'k': %s}]", "{'k': [{'j': [%s]}]}", "[[{'k': %s}]]", "{'a': 1, 'k': [%s, 2]}",
             "{'k': {'j': {'i': [%s]}}}"]
NEST_LEAF = ["[1].map(v, A)", "[1].filter(v, A == 1)", "A", "[A].map(v, v)[0]"]
TEMPLATES_NEST = [w % (c % l) for w in NEST_WRAP for c in NEST_CONT for l in NEST_LEAF]

# a clock read under a construct that absorbs a failed operand: the value must be the one the VM computes when the clock
# can be read (N is replaced by a variable bound to a timestamp, by now() and by timestamp())
TEMPLATES_CLOCK = [
    "int(match N { case timestamp : 1, case _ : 2 })", "dyn(match N { case timestamp : 1, case _ : 2 })",
    "int(match [N][0] { case timestamp : 1, case _ : 2 })", "int(match {'a': N}.a { case timestamp : 1, case _ : 2 })",
    "int(match [1].map(v, N)[0] { case timestamp : 1, case _ : 2 })", "max(match N { case timestamp : 1, case _ : 2 }, 0)",
    "int(match N >= N { case == true : 1, case == false : 1, case _ : 2 })", "[1, 2].map(v, match N { case timestamp : v, case _ : 0 })",
    "dyn([1].map(v, match N { case timestamp : v, case _ : 0 }))", "int(match N - N { case duration : 1, case _ : 2 })",
    "string(match type(N) { case == timestamp : 'y', case _ : 'n' })", "size([1].filter(v, match N { case timestamp : true, case _ : false }))",
    "int(match [[N]] { case _ : 3 }) + int(match N { case timestamp : 1, case _ : 2 })",
    "int(match {'k': [N]}.k[0] { case timestamp : 1, case _ : 2 })", "min([match N.getFullYear() { case >= 0 : 1, case _ : 2 }])",
    "int([1].reduce(a, v, match N { case timestamp : a + v, case _ : 100 }, 0))",
]


def run(chk):
    rng = random.Random(chk.seed)
    if not builds_or_die(chk):
        return
    n = 2500 if chk.tier == "quick" else 40000
    es = gen_sources(rng, n, depth=(1, 5), use_unbound=0.03, use_progs=0.0, use_ufuncs=0.04)
    cases, groups = [], []
    for e in es:
        ids = sorted(x for x in free_idents(e) if x in LITERAL_OF)
        if not ids:
            continue
        variants = [e, subst(e, lambda nme: True)]
        for _ in range(2):
            sub = set(x for x in ids if rng.random() < 0.5)
            variants.append(subst(e, lambda nme: nme in sub))
        srcs = []
        for v in variants:
            s = render(v, 'min', 'one', rng)
            if s not in srcs:
                srcs.append(s)
        if len(srcs) < 2:
            continue
        groups.append((len(cases), srcs))
        for s in srcs:
            cases.append(evalsrc_case(s))
    ngen = len(cases)
    # targeted: variables nested in collections inside calls / macro receivers
    tvals = [("1", vi(1)), ("1", vi(1))]
    tgroups = []
    for t in TEMPLATES + TEMPLATES_UF + TEMPLATES_NEST:
        srcs = [t.replace("A", "1"), t.replace("A", "x1")]
        tgroups.append((len(cases), srcs))
        for s in srcs:
            cases.append(evalsrc_case(s, binds=STD_BINDS + [("x1", vi(1))], ufuncs=None if t in TEMPLATES_UF else []))
    # a boolean constant on the left of || / && next to a value that is not a boolean (the constant as a literal and as a
    # variable bound to it): the result is the truthiness of the right operand, not the operand itself
    for t in ["B0 || 5", "B1 && 5", "B0 || [1]", "B1 && 'a'", "(B0 || 5) == true", "B0 || B0 || 7", "B1 && B1 && 0.5", "[B0 || 2, B1 && 3]",
              "B0 || {'k': 1}", "B1 && 1u", "(B1 && 5) ? 'y' : 'n'", "B0 || (B1 && 9)", "size([B0 || 'x'])", "B0 || 0", "B1 && ''", "B0 || i1", "B1 && s1"]:
        srcs = [t.replace("B0", "false").replace("B1", "true"), t.replace("B0", "b0").replace("B1", "b1")]
        tgroups.append((len(cases), srcs))
        for s in srcs:
            cases.append(evalsrc_case(s, binds=STD_BINDS, ufuncs=[]))
    # every binary operator on two constants of every pair of kinds (equal numbers of different types among them), spelled as
    # literal op literal, variable op literal, literal op variable, variable op variable: the folder and the VM must agree
    OPV = [("1", vi(1)), ("1u", vu(1)), ("1.0", vf(1.0)), ("true", vb(True)), ("0", vi(0)), ("2.5", vf(2.5)), ("'a'", vs("a")),
           ("[1, 2]", vlist([vi(1), vi(2)])), ("[1u, 2.0]", vlist([vu(1), vf(2.0)])), ("null", VNULL), ("3u", vu(3)), ("-1", vi(-1)),
           ("{'k': 1}", vmap([("k", vi(1))])), ("{'k': 1u}", vmap([("k", vu(1))])), ("''", vs("")), ("false", vb(False))]
    opv = OPV if chk.tier != "quick" else OPV[:11]
    for (ta, va) in opv:
        for (tb, vb_) in opv:
            for op in ["==", "!=", "<", "<=", ">", ">=", "+", "-", "*", "/", "%", "in", "||", "&&"]:
                fam = [["%s %s %s" % (ta, op, tb), "oa %s %s" % (op, tb), "%s %s ob" % (ta, op), "oa %s ob" % op,
                        "[%s %s %s][0]" % (ta, op, tb)]]
                if ta == "1":       # a constant failure on either side
                    fam.append(["(1 / 0) %s %s" % (op, tb), "(oa / 0) %s %s" % (op, tb), "(1 / 0) %s ob" % op, "(oa / 0) %s ob" % op])
                    fam.append(["%s %s (1 / 0)" % (tb, op), "%s %s (oa / 0)" % (tb, op), "ob %s (1 / 0)" % op, "ob %s (oa / 0)" % op])
                for srcs in fam:
                    tgroups.append((len(cases), srcs))
                    for s_ in srcs:
                        cases.append(evalsrc_case(s_, binds=[("oa", va), ("ob", vb_)], ufuncs=[]))
    for srcs in [["coalesce({{'a': 1}['b']: 1}, 5)", "coalesce({m1['b']: 1}, 5)", "coalesce({{'a': 1}[sb]: 1}, 5)"],
                 ["has({{'a': 1}['b']: 1})", "has({m1['b']: 1})", "has({{'a': 1}[sb]: 1})"],
                 ["has({1 / 0: 1})", "has({1 / i0: 1})", "has({i1 / 0: 1})"],
                 ["coalesce({1 / 0: 1}, 2)", "coalesce({1 / i0: 1}, 2)"],
                 ["[{1 / 0: 1}].map(e, has(e))", "[{1 / i0: 1}].map(e, has(e))"],
                 ["has({'k': {'a': 1}['b']})", "has({'k': m1['b']})"],
                 ["coalesce({'k': {'a': 1}['b']}, 5)", "coalesce({'k': m1['b']}, 5)"],
                 ["has([{'a': 1}['b']])", "has([m1['b']])"], ["coalesce([{'a': 1}['b']][0], 5)", "coalesce([m1['b']][0], 5)"],
                 ["has({zz: 1})", "has({zz: i1})"]]:
        tgroups.append((len(cases), srcs))
        for s_ in srcs:
            cases.append(evalsrc_case(s_, binds=[("m1", vmap([("a", vi(1))])), ("sb", vs("b")), ("i0", vi(0)), ("i1", vi(1))], ufuncs=[]))
        srcs = [t.replace("N", "tv9"), t.replace("N", "now()"), t.replace("N", "timestamp()")]
        if "getFullYear" not in t:
            srcs.append(t.replace("N", "timestamp(null)"))
        tgroups.append((len(cases), srcs))
        for s in srcs:
            cases.append(evalsrc_case(s, binds=STD_BINDS + [("tv9", vtime(1790000000 * 10**9))], ufuncs=[]))
    ntempl = len(cases) - ngen
    impl, model = tie(chk, "substitution variants", cases)
    nviol = 0
    for start, srcs in groups + tgroups:
        rs = impl[start:start + len(srcs)]
        norm = []
        for r in rs:
            k, payload, _ = split_result(r)
            norm.append((k, payload) if k == "OK" else (k if k in ("ERR", "CERR") else r, ""))
        # a compile-time failure of an all-literal variant (e.g. literal out of range) is outside the property
        if any(x[0] == "CERR" for x in norm):
            continue
        base = norm[0]
        for s, x, r in zip(srcs[1:], norm[1:], rs[1:]):
            same = (x == base) or (x[0] == "ERR" and base[0] == "ERR")
            if not same:
                chk.violation("replacing a variable by a literal of its bound value changed the result: the compiler's "
                              "evaluation disagrees with the VM's", dict(original=srcs[0], substituted=s,
                                                                          original_result=rs[0], substituted_result=r,
                                                                          case=cases[start + 1 + srcs[1:].index(s)]))
                nviol += 1
    chk.stream("generated expressions x {original, all variables as literals, 2 random subsets}", ngen,
               len(groups))
    chk.stream("templates with a variable nested in collections inside calls, macro receivers, map literals (string and non-string "
               "keys), f-strings, calls of has/coalesce/caller-bound functions under a match arm, a failing macro nested up to "
               "four containers deep (lists and maps) in the argument of a folded call, and clock reads (now(), timestamp(), "
               "timestamp(null)) under a match arm against a bound timestamp",
               ntempl, len(tgroups), exhaustive=True)
    chk.sample(dict(variants=groups[0][1], results=impl[groups[0][0]:groups[0][0] + len(groups[0][1])]))
    chk.sample(dict(variants=tgroups[0][1], results=impl[tgroups[0][0]:tgroups[0][0] + 2]))

    # ---- the clock is never frozen ---------------------------------------------------------------------
    clock_srcs = ["now()", "timestamp()", "max(now(), timestamp(0))", "[1].map(v, now())", "[1].map(v, [now()])",
                  "[now()]", "{'t': now()}", "[[timestamp()]]", "coalesce(now())", "now() - duration(1)",
                  "[1, 2].map(v, timestamp())", "f'{now()}'", "zip([now()], [1])", "[now()].map(v, v)", "has(now())",
                  "[[1]].map(v, v.map(w, now()))", "true ? now() : timestamp(0)", "[timestamp(), 1].size()"]
    comp = run_impl(["compile " + vs(s) for s in clock_srcs], isolate=True)
    import re
    for s, r in zip(clock_srcs, comp):
        if not r.startswith("OK "):
            chk.violation("a clock-reading program does not compile", dict(source=s, impl=r))
            continue
        code = r[3:r.index(" PARAMS(")]
        if re.search(r"(?<![A-Za-z0-9])t-?\d+", code) and "timestamp(0)" not in s:
            chk.violation("a clock read was evaluated by the compiler and frozen into the program as a constant",
                          dict(source=s, bytecode=code))
        elif "Erun" in code:
            chk.violation("the compile-time clock error was frozen into the program", dict(source=s, bytecode=code))
    t0 = time.time()
    runs = run_impl([evalsrc_case(s, ufuncs=[]) for s in clock_srcs[:2]], isolate=True)
    for s, r in zip(clock_srcs[:2], runs):
        k, payload, _ = split_result(r)
        ok = k == "OK" and payload.startswith("t") and abs(int(payload[1:]) / 1e9 - t0) < 600
        if not ok:
            chk.violation("now()/timestamp() does not return the time of the execution", dict(source=s, impl=r, wall=t0))
    chk.stream("clock-reading programs: no timestamp constant in the compiled bytecode; executions return the current time",
               len(clock_srcs) + 2, len(clock_srcs), exhaustive=True)
    chk.cov["rule"] = ("each generated expression is evaluated as written and with all / random subsets of its variables "
                       "replaced by literals of their bound values (23 variables of every literal-able type); results must "
                       "be equal (errors compare as errors); distinct = distinct expression")


def replay(chk, rep):
    if not builds_or_die(chk):
        return
    if "original" in rep:
        a = run_impl([evalsrc_case(rep["original"], binds=STD_BINDS + [("x1", vi(1))], ufuncs=[]),
                      evalsrc_case(rep["substituted"], binds=STD_BINDS + [("x1", vi(1))], ufuncs=[])], isolate=True)
        print(rep["original"], "=>", a[0], "\n", rep["substituted"], "=>", a[1])
        ka, pa, _ = split_result(a[0]); kb, pb, _ = split_result(a[1])
        if not ((ka, pa) == (kb, pb) or (ka == "ERR" and kb == "ERR")):
            chk.violation(rep.get("what", "replayed"), rep)
    elif "source" in rep:
        r = run_impl(["compile " + vs(rep["source"])], isolate=True)[0]
        print(r)
        import re
        if r.startswith("OK ") and re.search(r"(?<![A-Za-z0-9])t-?\d+", r[3:r.index(" PARAMS(")]):
            chk.violation(rep.get("what", "replayed"), rep)
