"""C13 — literals denote exactly the value they spell; out-of-range ones are rejected.

Every literal is compiled and executed by the implementation and by the model (tie);
the expected value / rejection is computed here independently (Python integers,
Python's correctly rounded float(), decimal.Decimal exact expansions, explicit escape
tables)."""
import decimal
import random
import struct
from streams import *

LEVEL_NOTE = ("theorems on the lexer functions (every spelling of every character, digits in both bases, u suffix, range "
              "checks, correctly rounded decimal -> binary64 via Flocq); tie and independent oracle on rendered literals")


def lit_case(src):
    return evalsrc_case(src, binds=[], ufuncs=[], std=False)


def ints(rng, n):
    pool = [0, 1, 2, 7, 9, 10, 11, 99, 100, 255, 256, 4095, 65535, 65536, 2 ** 31 - 1, 2 ** 31, 2 ** 32 - 1, 2 ** 32,
            2 ** 53, 2 ** 62, I64_MAX - 1, I64_MAX, I64_MAX + 1, I64_MAX + 2, 2 ** 63 + 2 ** 62, U64_MAX - 1, U64_MAX,
            U64_MAX + 1, U64_MAX + 2, 2 ** 64 + 2 ** 63, 10 ** 19, 10 ** 20, 2 ** 65, 2 ** 128, 10 ** 40]
    out = list(pool)
    for _ in range(n):
        k = rng.randrange(5)
        if k == 0:
            out.append(rng.randrange(0, 2 ** 64))
        elif k == 1:
            out.append(rng.randrange(0, 2 ** rng.randrange(1, 70)))
        elif k == 2:
            out.append(max(0, rng.choice([2 ** 63, 2 ** 64, 2 ** 32, 2 ** 16]) + rng.randrange(-3, 4)))
        elif k == 3:
            out.append(int("".join(rng.choice("0123456789") for _ in range(rng.randrange(1, 22)))))
        else:
            out.append(int("".join(rng.choice("0123456789abcdef") for _ in range(rng.randrange(1, 18))), 16))
    return out


def hex_spell(rng, v):
    h = "%x" % v
    style = rng.randrange(3)
    if style == 1:
        h = h.upper()
    elif style == 2:
        h = "".join(c.upper() if rng.random() < 0.5 else c for c in h)
    if rng.random() < 0.2:
        h = "0" * rng.randrange(1, 4) + h
    return ("0x" if rng.random() < 0.8 else "0X") + h


def dec_spell(rng, v):
    s = "%d" % v
    return s


SIMPLE = {7: "a", 8: "b", 12: "f", 10: "n", 13: "r", 9: "t", 11: "v", 92: "\\", 39: "'", 34: '"'}
SPECIAL_ESC = set("abfnrtuUvxX\\'\"0123456789")


def spell_char(rng, c, q, fmt=False):
    """one spelling of scalar value c inside a non-raw string delimited by q"""
    forms = []
    ch = chr(c)
    if ch != q and ch != "\\" and not (fmt and ch in "{}"):
        forms += ["plain"] * 4
    if fmt and ch in "{}":
        forms += ["brace"] * 4
    if c in SIMPLE:
        forms += ["simple"] * 3
    if c < 256:
        forms += ["x", "X"]
    if c < 512:
        forms += ["oct"]
    if c < 65536:
        forms += ["u"] * 2
    forms += ["U"]
    if ch not in SPECIAL_ESC and ch != q and not (fmt and ch in "{}") and c != 10:
        forms += ["other"]
    f = rng.choice(forms)
    hx_ = lambda s: "".join(x.upper() if rng.random() < 0.5 else x for x in s)
    if f == "plain":
        return ch
    if f == "brace":
        return ch + ch
    if f == "simple":
        return "\\" + SIMPLE[c]
    if f in ("x", "X"):
        return "\\" + f + hx_("%02x" % c)
    if f == "oct":
        return "\\%03o" % c
    if f == "u":
        return "\\u" + hx_("%04x" % c)
    if f == "U":
        return "\\U" + hx_("%08x" % c)
    return "\\" + ch


def rand_scalar(rng):
    k = rng.random()
    if k < 0.4:
        return rng.randrange(32, 127)
    if k < 0.55:
        return rng.randrange(0, 32)
    if k < 0.7:
        return rng.randrange(127, 0x800)
    if k < 0.85:
        c = rng.randrange(0x800, 0x10000)
        return c if not (0xD800 <= c <= 0xDFFF) else 0xE000
    return rng.choice([0xD7FF, 0xE000, 0xFFFF, 0x10000, 0x10FFFF, 0x1F600, rng.randrange(0x10000, 0x110000)])


def spell_byte(rng, b, q):
    forms = ["x", "X", "oct"]
    ch = chr(b)
    if 32 <= b < 127 and ch != q and ch != "\\":
        forms += ["plain"] * 3
    if b in SIMPLE:
        forms += ["simple"] * 2
    f = rng.choice(forms)
    if f == "plain":
        return ch
    if f == "simple":
        return "\\" + SIMPLE[b]
    if f == "oct":
        return "\\%03o" % b
    return "\\" + f + ("%02x" % b if rng.random() < 0.5 else "%02X" % b)


def float_spellings(rng, x):
    """spellings whose correctly rounded value is x (x finite, >= 0)"""
    d = decimal.Decimal(x)
    out = []
    r = repr(x)
    if "e" in r:
        m, e = r.split("e")
        out.append(m + ("." if "." not in m else "") + "e" + e)
        out.append(m + ("." if "." not in m else "") + "E" + e.replace("+", ""))
        if not e.startswith("-") and not e.startswith("+"):
            out.append(m + ("." if "." not in m else "") + "e+" + e)
    else:
        out.append(r if "." in r else r + ".0")
    out.append("%.17e" % x)
    out.append(("%.20e" % x).replace("e", "E"))
    # exact expansions
    with decimal.localcontext() as ctx:
        ctx.prec = 2000
        s = format(d, "f")
        if "." not in s:
            s += ".0"
        if len(s) < 1200:
            out.append(s)
            if s.startswith("0.") and len(s) > 2:
                out.append(s[1:])             # ".5"
        sci = format(d, "e")
        if "." not in sci.split("e")[0]:
            sci = sci.replace("e", ".0e")
        out.append(sci.replace("e+", "e"))
        # shifted exponent: move the point by k digits
        t = d.as_tuple()
        digits = "".join(map(str, t.digits))
        k = rng.randrange(0, len(digits) + 1)
        mant = (digits[:k] or "0") + "." + (digits[k:] or "0")
        exp = t.exponent + (len(digits) - k)
        out.append("%se%d" % (mant, exp))
    if x == int(x) and abs(x) < 1e15:
        out.append("%d." % int(x))            # "5."
    return out


def run(chk):
    rng = random.Random(chk.seed)
    if not builds_or_die(chk):
        return
    quick = chk.tier == "quick"
    # ---- integers ------------------------------------------------------------------------------
    cases, want, labels = [], [], []

    def add(src, w):
        cases.append(lit_case(src))
        want.append(w)
        labels.append(src)

    for v in ints(rng, 600 if quick else 8000):
        for sp in (dec_spell(rng, v), hex_spell(rng, v)):
            add(sp, "OK " + vi(v) if v <= I64_MAX else "CERR")
            u = rng.choice("uU")
            add(sp + u, "OK " + vu(v) if v <= U64_MAX else "CERR")
            if v <= I64_MAX + 1:
                add("-" + sp, "OK " + vi(-v))          # -2^63 is an int64: recorded finding (it is rejected)
        if rng.random() < 0.1:
            add("0%d" % v, "OK " + vi(v) if v <= I64_MAX else "CERR")       # leading zero: still decimal
    for bad in ["0x", "0xg", "1x2", "0x1.5", "12a", "1uu", "0xu", "0b101", "1__0", "0x-1", "1u2", "1.5u", "0xffu.1",
                "9223372036854775808", "-9223372036854775809", "18446744073709551616u", "0x10000000000000000",
                "0x1ffffffffffffffffu", "1e", "1e+", "1.e", ".e1", "1.2.3", "1e1e1", "1e1.5", "0x1p3"]:
        add(bad, "CERRANY")
    n_int = len(cases)
    # ---- doubles -------------------------------------------------------------------------------
    nf = 400 if quick else 6000
    for i in range(nf):
        k = rng.random()
        if k < 0.6:
            b = rng.getrandbits(63)
            if ((b >> 52) & 0x7ff) == 0x7ff:
                continue
        elif k < 0.75:
            b = rng.choice([0, 1, 2, 0x000fffffffffffff, 0x0010000000000000, 0x7fefffffffffffff, 0x3ff0000000000000,
                            0x3ff0000000000001, 0x4340000000000000, 0x4340000000000001, 0x3fb999999999999a,
                            0x0008000000000000, 0x7fe0000000000000])
        else:
            b = struct.unpack(">Q", struct.pack(">d", rng.choice([0.5, 0.1, 1e22, 1e23, 123456.789, 2.5e-5, 1e-7, 3.0,
                                                                   9007199254740993.0, 1e308, 4.9e-324,
                                                                   rng.uniform(0, 1000), rng.random()])))[0]
        x = bits_f(b)
        sps = float_spellings(rng, x)
        for sp in (sps if not quick else rng.sample(sps, min(4, len(sps)))):
            add(sp, "OK " + vf_bits(b))
            if rng.random() < 0.3:
                add("-" + sp, "OK " + vf_bits(b | (1 << 63)))
    # arbitrary decimal strings: the expected value is Python's correctly rounded float()
    for _ in range(300 if quick else 5000):
        nd = rng.randrange(1, 40 if rng.random() < 0.9 else 800)
        digs = "".join(rng.choice("0123456789") for _ in range(nd))
        p = rng.randrange(0, nd + 1)
        mant = digs[:p] + "." + digs[p:]
        if mant == ".":
            continue
        if rng.random() < 0.6:
            e = rng.choice([0, 1, -1, 5, -5, 22, 23, -22, 300, 308, 309, -300, -323, -324, -325, -400, 400, 1000, -1000,
                            rng.randrange(-350, 350), 5000, -5000, 99999])
            sp = mant + rng.choice("eE") + (("+" if rng.random() < 0.3 else "") + str(e) if e >= 0 else str(e))
        else:
            sp = mant
        try:
            y = float(sp)
        except (ValueError, OverflowError):
            continue
        add(sp, "OK " + vf(y))
    n_float = len(cases)
    # ---- strings -------------------------------------------------------------------------------
    ns = 600 if quick else 8000
    for _ in range(ns):
        q = rng.choice("'\"")
        n = rng.randrange(0, 12)
        cs = [rand_scalar(rng) for _ in range(n)]
        kind = rng.random()
        if kind < 0.6:
            add(q + "".join(spell_char(rng, c, q) for c in cs) + q, "OK " + vs("".join(map(chr, cs))))
        elif kind < 0.75:
            cs = [c for c in cs if chr(c) != q]
            pre = rng.choice("rR") if False else "r"
            add(pre + q + "".join(map(chr, cs)) + q, "OK " + vs("".join(map(chr, cs))))
        elif kind < 0.9:
            add("f" + q + "".join(spell_char(rng, c, q, fmt=True) for c in cs) + q, "OK " + vs("".join(map(chr, cs))))
        else:
            cs = [c if rng.random() < 0.7 else rng.choice([123, 125, 92]) for c in cs]
            add("f" + q + "".join(spell_char(rng, c, q, fmt=True) for c in cs) + q, "OK " + vs("".join(map(chr, cs))))
    # every escape form of every code point of a boundary list
    for c in [0, 1, 7, 8, 9, 10, 11, 12, 13, 27, 34, 39, 65, 92, 123, 125, 127, 128, 255, 256, 511, 0x7ff, 0x800, 0xd7ff,
              0xe000, 0xffff, 0x10000, 0x10ffff]:
        q = "'"
        if c < 256:
            add("'\\x%02x'" % c, "OK " + vs(chr(c)))
            add("'\\X%02X'" % c, "OK " + vs(chr(c)))
        if c < 512:
            add("'\\%03o'" % c, "OK " + vs(chr(c)))
        if c < 65536:
            add("'\\u%04x'" % c, "OK " + vs(chr(c)))
        add("'\\U%08x'" % c, "OK " + vs(chr(c)))
        add('"\\U%08X"' % c, "OK " + vs(chr(c)))
    for e, c in SIMPLE.items():
        add("'\\%s'" % c, "OK " + vs(chr(e)))
        add('"x\\%sy"' % c, "OK " + vs("x" + chr(e) + "y"))
        add("b'\\%s'" % c, "OK " + vy(bytes([e])))
        add("r'\\%s'" % c if c != "'" else 'r"\\\'"', "OK " + vs("\\" + c))
    # raw strings: a backslash is an ordinary character, also right before the closing quote; the first quote ends the literal
    for q in "'\"":
        for body in ["\\", "\\\\", "\\\\\\", "a\\", "C:\\tmp\\", "\\n\\", "a\\\\b\\", "\\x4", "\\u12", "é\\", "\\" * 7]:
            add("r%s%s%s" % (q, body, q), "OK " + vs(body))
            add("size(r%s%s%s) + 0u" % (q, body, q), "OK " + vu(len(body.encode())))
            add("r%s%s%s + 'z'" % (q, body, q), "OK " + vs(body + "z"))
        add("r%sa\\%sb%s" % (q, q, q), "CERRANY")          # the quote after the backslash ends the literal: b' / b" is left over
    # malformed / out-of-range
    for bad in ["'\\x4'", "'\\x'", "'\\xg0'", "'\\u12'", "'\\u123'", "'\\u12g4'", "'\\U0011ffff'", "'\\U00110000'",
                "'\\ud800'", "'\\udfff'", "'\\U0000d800'", "'\\U1234567'", "'\\8'", "'\\9'", "'\\08'", "'\\1'", "'\\12'",
                "'\\128'", "'\\778'", "'abc", '"abc', "'abc\"", "'\\", "'\\'", "b'\\400'", "b'\\777'", "b'\\x4'", "b'\\8'",
                "b'abc", "b'\\", "r'abc", "f'{'", "f'}'", "f'{}'", "f'{1'", "b'\\0'", "b'\\07'", "'\\U'", "'\\u'",
                "b\"\\512\"", "'\\400' + b'\\400'", "'\\800'", "'\\877'", "'\\900'", "'\\977'", "'\\811'", "\"\\800\"",
                "b'\\800'", "b'\\900'", "f'\\800{1}'", "'a\\800b'", "'\\080'", "'\\008'", "'\\180'", "'\\18'"]:
        add(bad, "CERRANY")
    # every position of every fixed-width escape filled with a character that a lenient number parser would take
    # (a sign, a space, an underscore, a digit of another script, a letter past f)
    for intro, width in [("\\x", 2), ("\\X", 2), ("\\u", 4), ("\\U", 8)]:
        for pos in range(width):
            for ch in ["+", "-", " ", "_", "g", "G", "\u0661", ".", "x"]:
                digits = ["0"] * width
                digits[-1] = "1"
                if width == 8:
                    digits = list("00000041")
                digits[pos] = ch
                add("'" + intro + "".join(digits) + "'", "CERRANY")
                if width == 2:
                    add("b'" + intro + "".join(digits) + "'", "CERRANY")
    for bad in ["'\\1+1'", "'\\10+'", "'\\0 1'", "b'\\1_1'", "'\\1-1'", "b'\\01+'"]:
        add(bad, "CERRANY")
    # two escapes that are each invalid alone do not make a valid character together: surrogate pairs in every spelling
    for hi in ["d800", "D83D", "dbff", "DBFF", "d83d"]:
        for lo in ["dc00", "DE00", "dfff", "DFFF", "de00"]:
            for q in "'\"":
                add(q + "\\u" + hi + "\\u" + lo + q, "CERRANY")
                add(q + "a\\u" + hi + "\\u" + lo + "b" + q, "CERRANY")
            add("'\\U0000" + hi + "\\U0000" + lo + "'", "CERRANY")
            add("'\\u" + hi + "\\U0000" + lo + "'", "CERRANY")
            add("'\\u" + lo + "\\u" + hi + "'", "CERRANY")
            add("f'\\u" + hi + "\\u" + lo + "'", "CERRANY")
        add("'\\u" + hi + "\\u0041'", "CERRANY")
        add("'\\u" + hi + "A'", "CERRANY")
    n_str = len(cases)
    # ---- byte strings ----------------------------------------------------------------------------
    for _ in range(300 if quick else 5000):
        q = rng.choice("'\"")
        bs = bytes(rng.randrange(256) for _ in range(rng.randrange(0, 10)))
        add("b" + q + "".join(spell_byte(rng, b, q) for b in bs) + q, "OK " + vy(bs))
    for b in range(256):
        add("b'\\%03o'" % b, "OK " + vy(bytes([b])))
        add("b'\\x%02x'" % b, "OK " + vy(bytes([b])))
    for v in range(256, 512, 1 if not quick else 7):
        add("b'\\%03o'" % v, "CERRANY")
        add("'\\%03o'" % v, "OK " + vs(chr(v)))
    for c in [0xe9, 0x20ac, 0x1f600]:
        add("b'%s'" % chr(c), "OK " + vy(chr(c).encode()))
        add("b'\\%s'" % chr(c), "OK " + vy(chr(c).encode()))
        add("'\\%s'" % chr(c), "OK " + vs(chr(c)))
    # booleans and null
    for src, w in [("true", "OK b1"), ("false", "OK b0"), ("null", "OK n")]:
        add(src, w)
    impl, model = tie(chk, "literals", cases, labels=labels)
    for lab, c, r, w in zip(labels, cases, impl, want):
        if is_dead(r):
            continue
        k, payload, _ = split_result(r)
        if w.startswith("CERR"):
            ok = k == "CERR"
        else:
            ok = ("%s %s" % (k, payload)) == w
        if not ok:
            key = None
            if lab in ("-9223372036854775808", "-0x8000000000000000", "-0X8000000000000000") or \
               (lab.startswith("-") and w == "OK " + vi(I64_MIN)):
                key = "i64-min-literal"
            chk.violation("a literal does not denote the value it spells, or an out-of-range / malformed literal is accepted",
                          dict(case=c, source=lab, impl=r, expected=w), key=key)
    chk.stream("integer literals: decimal / hex (both cases, 0x/0X, leading zeros) / u suffix / negated, boundary-heavy and "
               "random up to 2^128, plus malformed numbers", n_int, len(set(cases[:n_int])), exhaustive=False)
    chk.stream("double literals: finite bit patterns in shortest, 17-digit, exact-expansion, shifted-point, '.5' and '5.' "
               "spellings; arbitrary decimal strings vs. correctly rounded float()", n_float - n_int,
               len(set(cases[n_int:n_float])), exhaustive=False)
    chk.stream("string literals: random scalar values, each character in a random spelling (plain, named, \\x, \\X, octal, "
               "\\u, \\U, identity escape), both quotes, raw and f-prefixed; every escape form of boundary code points; "
               "malformed and truncated escapes", n_str - n_float, len(set(cases[n_float:n_str])), exhaustive=False)
    chk.stream("byte-string literals: random bytes in random spellings, every octal and hex escape 0..255, octal 256..511 "
               "rejected", len(cases) - n_str, len(set(cases[n_str:])), exhaustive=False)
    chk.sample(dict(source=labels[5], impl=impl[5], expected=want[5]))
    chk.sample(dict(source=labels[n_int + 3][:120], impl=impl[n_int + 3], expected=want[n_int + 3]))
    chk.sample(dict(source=labels[n_float + 3], impl=impl[n_float + 3], expected=want[n_float + 3]))
    chk.sample(dict(source=labels[n_str + 3], impl=impl[n_str + 3], expected=want[n_str + 3]))
    rej = sum(1 for w in want if w.startswith("CERR"))
    chk.cov["expected_rejections"] = rej
    chk.cov["rule"] = ("expected values computed in Python: integers exactly, doubles by exact decimal expansion of the bit "
                       "pattern or by float() (correctly rounded), strings and bytes from the escape table")


def replay(chk, rep):
    if not builds_or_die(chk):
        return
    r = run_impl([rep["case"]], isolate=True)[0]
    print("impl:", r, "\nexpected:", rep.get("expected"))
    k, payload, _ = split_result(r)
    w = rep["expected"]
    ok = (k == "CERR") if w.startswith("CERR") else ("%s %s" % (k, payload)) == w
    if is_dead(r) or not ok:
        chk.violation(rep.get("what", "replayed"), rep)
