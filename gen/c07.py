"""C07 — comprehension macros equal their defining folds; loop variables are lexical."""
import random
from streams import *


class Fail(Exception):
    def __init__(self, kind=None):
        self.kind = kind


# bodies: (source using loop variable v and outer k, python function (v, k, log) -> value or raise Fail)
def b_gt(v, k, log): return v > k
def b_even(v, k, log): return v % 2 == 0
def b_eq3(v, k, log): return v == 3
def b_true(v, k, log): return True
def b_false(v, k, log): return False
def b_div(v, k, log):
    if v - 5 == 0:
        raise Fail()
    q = abs(v) // abs(v - 5)
    q = q if (v >= 0) == (v - 5 > 0) else -q
    return q > 0
def b_call(v, k, log):
    log.append(("fa", [vi(v)]))
    return v > 2
def b_ub(v, k, log): raise Fail()
def b_call_div(v, k, log):
    log.append(("fa", [vi(v)]))
    if v - 5 == 0:
        raise Fail("Ediv")
    return (v >= 0) == (v - 5 > 0) and abs(v) // abs(v - 5) > 0
def b_two_failures(v, k, log):
    log.append(("fa", [vi(v)]))
    if v == 3:
        raise Fail("Ebind:7562")
    if v == 5:
        raise Fail("Ediv")
    return v > 0

PREDS = [("v > k", b_gt), ("v % 2 == 0", b_even), ("v == 3", b_eq3), ("true", b_true), ("false", b_false),
         ("v / (v - 5) > 0", b_div), ("fa(v) > 2", b_call), ("ub > v", b_ub), ("v", lambda v, k, log: v != 0),
         # a body that is observed (call log) and fails, at one element or with different failures at different elements:
         # the macro stops at the first failing element and fails with that failure
         ("fa(v) / (v - 5) > 0", b_call_div), ("fa(v) > 0 && (v == 3 ? ub > 0 : (v == 5 ? 1 / (v - 5) > 0 : true))", b_two_failures)]
EXPRS = [("v * 2", lambda v, k, log: v * 2), ("v + k", lambda v, k, log: v + k), ("k", lambda v, k, log: k),
         ("fa(v)", lambda v, k, log: (log.append(("fa", [vi(v)])), v)[1]),
         ("10 / (v - 5)", lambda v, k, log: div(10, v - 5))]


def div(a, b):
    if b == 0:
        raise Fail()
    q = abs(a) // abs(b)
    return q if (a >= 0) == (b > 0) else -q


def fmt_log(log):
    return " ".join("%s n %s" % (hx(f), vlist(a)) for f, a in log)


def run(chk):
    rng = random.Random(chk.seed)
    if not builds_or_die(chk):
        return
    lists = [[], [1], [3], [0], [1, 2, 3], [3, 3], [2, 4, 6], [5], [1, 5, 9], [9, 5, 1], [-1, 0, 1], list(range(10))]
    for n in (31, 32, 33, 40, 64):
        lists.append([rng.randrange(-3, 12) for _ in range(n)])
        lists.append(list(range(1, n + 1)))
    if chk.tier == "thorough":
        for _ in range(60):
            lists.append([rng.randrange(-4, 12) for _ in range(rng.randrange(0, 65))])
    K = 2
    cases, want, labels = [], [], []

    def add(src, l, f_expect):
        log = []
        try:
            val = ("OK", f_expect(log))
        except Fail as f_:
            val = ("ERR", f_.kind)
        binds = [("l", vlist([vi(x) for x in l])), ("k", vi(K)), ("v", vi(100)), ("acc", vi(-7))]
        cases.append(evalsrc_case(src, binds=binds))
        want.append((val, list(log)))
        labels.append("%s with l=%s" % (src, l if len(l) <= 12 else "[%d elements]" % len(l)))

    for l in lists:
        for ps, pf in PREDS:
            def f_all(log, pf=pf, l=l):
                for x in l:
                    if not pf(x, K, log):
                        return vb(False)
                return vb(True)
            def f_exists(log, pf=pf, l=l):
                for x in l:
                    if pf(x, K, log):
                        return vb(True)
                return vb(False)
            def f_one(log, pf=pf, l=l):
                c = 0
                for x in l:
                    if pf(x, K, log):
                        c += 1
                        if c > 1:
                            return vb(False)
                return vb(c == 1)
            def f_filter(log, pf=pf, l=l):
                return vlist([vi(x) for x in l if pf(x, K, log)])
            add("l.all(v, %s)" % ps, l, f_all)
            add("l.exists(v, %s)" % ps, l, f_exists)
            add("l.exists_one(v, %s)" % ps, l, f_one)
            add("l.filter(v, %s)" % ps, l, f_filter)
        for es, ef in EXPRS:
            def f_map(log, ef=ef, l=l):
                return vlist([vi(ef(x, K, log)) for x in l])
            add("l.map(v, %s)" % es, l, f_map)
            ps, pf = rng.choice(PREDS)
            def f_map3(log, ef=ef, pf=pf, l=l):
                out = []
                for x in l:
                    if pf(x, K, log):
                        out.append(vi(ef(x, K, log)))
                return vlist(out)
            add("l.map(v, %s, %s)" % (ps, es), l, f_map3)
        def f_red(log, l=l):
            a = 0
            for x in l:
                a = a + x
            return vi(a)
        add("l.reduce(acc, v, acc + v, 0)", l, f_red)
        def f_red2(log, l=l):
            a = K
            for x in l:
                log.append(("fa", [vi(x)]))
                a = a * 2 - x
                if not (I64_MIN <= a <= I64_MAX):
                    raise Fail()
            return vi(a)
        add("l.reduce(acc, v, acc * 2 - fa(v), k)", l, f_red2)
    n_main = len(cases)
    # lexical scope: shadowing, the outer binding afterwards, nested macros with the same variable, stored programs
    scoped = [
        ("[1, 2].map(v, v * 2) + [v]", "OK " + vlist([vi(2), vi(4), vi(100)])),
        ("v + [5].map(v, v)[0] + v", "OK " + vi(205)),
        ("[[1, 2], [3]].map(v, v.map(v, v + 1))", "OK " + vlist([vlist([vi(2), vi(3)]), vlist([vi(4)])])),
        ("[1, 2].map(v, [10, 20].map(w, v + w + k))", "OK " + vlist([vlist([vi(13), vi(23)]), vlist([vi(14), vi(24)])])),
        ("[1, 2].filter(v, [v].exists(v, v == 2))", "OK " + vlist([vi(2)])),
        ("[1].map(v, p_int + v)", "OK " + vlist([vi(7)])),
        ("[1, 2].all(x, [x].all(x, x > 0) && v == 100)", "OK b1"),
        ("[1, 2, 3].reduce(acc, v, acc + v, 0) + acc + v", "OK " + vi(6 - 7 + 100)),
        ("[1, 2].map(k, k) + [k]", "OK " + vlist([vi(1), vi(2), vi(2)])),
        ("m1.map(k, k)", "OK " + vlist([vs("a"), vs("b")])),
        ("{'b': 1, 'a': 2, 'c': 3}.map(q, q)", "OK " + vlist([vs("a"), vs("b"), vs("c")])),
        ("{'b': 1, 'a': 2, 'c': 3}.filter(q, q != 'a')", "OK " + vlist([vs("b"), vs("c")])),
        ("{'b': x9, 'a': 2, 'é': 3, 'B': 4}.map(q, q)", "OK " + vlist([vs("B"), vs("a"), vs("b"), vs("é")])),
        ("[1, 2].map(int, int)", None),
        # a stored program that reads the loop variable's name, referenced outside the macro first and inside its body
        # afterwards: it is evaluated under the bindings in force at each reference (dbl := v * 2, cur := has(zz) ? zz : -1)
        ("dbl > 0 ? [1, 2, 3].map(v, dbl) : []", "OK " + vlist([vi(2), vi(4), vi(6)])),
        ("[1, 2, 3].reduce(acc, v, acc + dbl, dbl)", "OK " + vi(212)),
        ("dbl > 0 && [7, 8].map(v, dbl) == [14, 16]", "OK b1"),
        ("[dbl, [1, 2].map(v, dbl)]", "OK " + vlist([vi(200), vlist([vi(2), vi(4)])])),
        ("[1, 2].map(v, dbl) + [dbl]", "OK " + vlist([vi(2), vi(4), vi(200)])),
        ("[dbl].map(w, [1, 2].map(v, dbl + w))", "OK " + vlist([vlist([vi(202), vi(204)])])),
        ("dbl == 200 ? [1, 2].filter(v, dbl > 2) : []", "OK " + vlist([vi(2)])),
        ("dbl == 200 ? [1, 2].all(v, dbl == v * 2) : false", "OK b1"),
        ("dbl == 200 ? [1, 2].exists(v, dbl == 4) : false", "OK b1"),
        ("dbl == 200 ? [1, 2, 3].exists_one(v, dbl == 4) : false", "OK b1"),
        ("[3].map(v, dbl) == [6] && dbl == 200 && [4].map(v, dbl) == [8]", "OK b1"),
        ("dbl == 200 ? [1].map(v, [2].map(v, dbl)) : []", "OK " + vlist([vlist([vi(4)])])),
        ("[1, 2, 3].filter(v, keep)", "OK " + vlist([vi(2), vi(3)])), ("[1, 2, 3].filter(v, (keep))", "OK " + vlist([vi(2), vi(3)])),
        ("[1, 2].filter(v, int)", "OK " + vlist([vi(1), vi(2)])), ("[1, 2].filter(v, x9)", "OK " + vlist([vi(1), vi(2)])),
        ("[1, 2].filter(v, zz)", "ERR"), ("[1, 2, 3].all(v, keep)", "OK b0"), ("[1, 2, 3].exists(v, keep)", "OK b1"),
        ("[1, 2, 3].exists_one(v, keep)", "OK b0"), ("[1, 2, 3].map(v, keep)", "OK " + vlist([vb(False), vb(True), vb(True)])),
        ("[1, 2, 3].map(v, keep, v)", "OK " + vlist([vi(2), vi(3)])), ("[1, 2].all(v, int)", "OK b1"), ("[1, 2].exists(v, zz)", "ERR"),
        ("[1, 2, 3].reduce(a, v, keep, 0)", "OK b1"), ("{'a': 1, 'b': 2}.filter(v, kb)", "OK " + vlist([vs("b")])),
        ("[1, 2].map(v, int)", "OK " + vlist([vtype("int"), vtype("int")])),
        ("cur == -1 && [7, 8].map(zz, cur) == [7, 8]", "OK b1"),
        ("cur == -1 ? [7, 8].map(zz, cur) + [cur] : []", "OK " + vlist([vi(7), vi(8), vi(-1)])),
    ]
    for src, w in scoped:
        binds = [("l", vlist([])), ("k", vi(K)), ("v", vi(100)), ("acc", vi(-7)), ("x9", vi(1)),
                 ("m1", dict(STD_BINDS)["m1"]), ("i1", vi(5))]
        cases.append(evalsrc_case(src, progs=[("dbl", "v * 2"), ("cur", "has(zz) ? zz : -1"), ("keep", "v > 1"), ("kb", "v == 'b'")], binds=binds))
        want.append(((w, None), None)); labels.append(src)
    impl, model = tie(chk, "macros", cases, labels=labels)
    for i, (lab, c, r) in enumerate(zip(labels, cases, impl)):
        k, payload, log = split_result(r)
        if i < n_main:
            (wk, wv), wl = want[i]
            bad = None
            if wk == "ERR":
                if k != "ERR":
                    bad = "a failing body must make the macro fail at that element"
                elif wv is not None and payload != wv:
                    bad = "the macro must fail with the failure of the first failing element"
            elif k != "OK" or payload != wv:
                bad = "macro result differs from its defining fold"
            if bad is None and log != fmt_log(wl):
                bad = "elements were not visited in order / evaluation did not stop at the deciding or failing element (call log differs)"
            if bad:
                chk.violation(bad, dict(source=lab, case=c, impl=r, expected=[wk, wv], expected_calls=fmt_log(wl)))
        else:
            w = want[i][0][0]
            if w is not None and not r.startswith(w):
                chk.violation("loop variable scoping / visibility / key order violated", dict(source=lab, case=c, impl=r, expected=w))
    # maps: one fixed order, the same in every execution (5 repetitions in separate processes)
    rep = [evalsrc_case("{'k3': 1, 'k1': 2, 'k2': 3, 'k0': 4, 'zz': 5, 'a': 6}.map(q, q)", binds=[]) for _ in range(1)]
    seen = set()
    for _ in range(5):
        seen.add(run_impl(rep, isolate=True)[0])
    if len(seen) != 1:
        chk.violation("map over a map is not in one fixed order across executions", dict(case=rep[0], results=sorted(seen)))
    chk.stream("all/exists/exists_one/filter/map/map3/reduce x 11 predicates (two of them recorded and failing, with different failures at different elements) x 5 expressions over lists of length 0..64",
               n_main, len(set(cases[:n_main])), exhaustive=False)
    chk.stream("scoping: shadowing, outer binding after the macro, nested macros re-using the name, stored programs, map key order",
               len(cases) - n_main + 5, len(cases) - n_main, exhaustive=True)
    chk.sample(dict(source=labels[5], impl=impl[5], expected=want[5][0], calls=fmt_log(want[5][1])))
    chk.sample(dict(source=labels[n_main], impl=impl[n_main]))
    chk.cov["rule"] = ("lists of length 0..64 (crossing the call-depth limit of 32), bodies reading the loop variable, an outer "
                       "variable, failing at one element, or calling a recording function; expected value and expected call log "
                       "from an independent Python fold; distinct = distinct (source, list)")


def replay(chk, rep):
    if not builds_or_die(chk):
        return
    r = run_impl([rep["case"]], isolate=True)[0]
    print("impl:", r, "\nexpected:", rep.get("expected"), rep.get("expected_calls", ""))
    k, payload, log = split_result(r)
    w = rep.get("expected")
    if isinstance(w, list):
        bad = (k != "ERR") if w[0] == "ERR" else (k != "OK" or payload != w[1])
        bad = bad or log != rep.get("expected_calls", log)
    else:
        bad = not r.startswith(str(w))
    if bad:
        chk.violation(rep.get("what", "replayed"), rep)
