"""C15 — string, regex and math built-ins compute their documented function on all inputs.

Every call is evaluated by implementation and model (the model covers the string
functions on UTF-8 text and integer math; regex, non-ASCII case mapping and libm
are 'unmodelled'); expectations are computed here with Python's own string
methods / re / math and explicit defining equations."""
import itertools
import math
import random
import re
from streams import *

LEVEL_NOTE = ("theorems on the string-function model (prefix/substring characterisations, split rejoin and clean pieces, "
              "rsplit = mirrored split, replace = join of split, trimming, splitAt, exact integer power); tie and Python "
              "oracles for every function incl. regex and floating-point math; arity and type grid")

WS = "\t\n\x0b\x0c\r \x85\xa0                　"
ALPHA = ["a", "b", "ab", "aa", "ba", "A", "B", "é", "É", "€", "😀", " ", "\t", "\n", " ", " ", "　", "x", "-", ".", "1"]


def py_split(s, n):
    return [""] + list(s) + [""] if n == "" else s.split(n)


def py_rsplit(s, n):
    return [""] + list(reversed(s)) + [""] if n == "" else list(reversed(s.rsplit(n)))


def py_trim_start_matches(s, p):
    if p == "":
        return s
    while s.startswith(p):
        s = s[len(p):]
    return s


def py_trim_end_matches(s, p):
    if p == "":
        return s
    while s.endswith(p):
        s = s[:-len(p)]
    return s


def py_words(s):
    out, cur = [], ""
    for ch in s:
        if ch in WS:
            if cur:
                out.append(cur)
            cur = ""
        else:
            cur += ch
    if cur:
        out.append(cur)
    return out


def sat_i64(x):
    if x != x:
        return 0
    if x in (float("inf"), float("-inf")):
        return I64_MAX if x > 0 else I64_MIN
    return max(I64_MIN, min(I64_MAX, int(x)))


def round_half_away(x):
    if x != x or x in (float("inf"), float("-inf")):
        return x
    ax = abs(x)
    if ax >= 2 ** 52:
        return x
    f = math.floor(ax)
    if ax - f >= 0.5:          # exact: both are multiples of the same ulp below 2^52
        f += 1
    return math.copysign(f, x)


def ulps_apart(a, b):
    if a != a and b != b:
        return 0
    if a == b:
        return 0
    if a != a or b != b or a in (float("inf"), float("-inf")) or b in (float("inf"), float("-inf")):
        return 10 ** 9
    ia, ib = f_bits(a), f_bits(b)
    ia = ia if ia < 2 ** 63 else 2 ** 63 - ia
    ib = ib if ib < 2 ** 63 else 2 ** 63 - ib
    return abs(ia - ib)


def run(chk):
    rng = random.Random(chk.seed)
    if not builds_or_die(chk):
        return
    quick = chk.tier == "quick"
    cases, want, labels = [], [], []

    def add(src, binds, w, note=""):
        cases.append(evalsrc_case(src, binds=binds, ufuncs=[], std=False))
        want.append(w)
        labels.append("%s %s %s" % (src, ", ".join("%s=%r" % (k, v) for k, v in note) if isinstance(note, list) else note, ""))

    def S(x):
        return "OK " + vs(x)

    def L(xs):
        return "OK " + vlist([vs(x) for x in xs])

    nstr = 250 if quick else 4000
    strs = ["", "a", "aaa", "aaaa", "abab", "xaaay", "baaa", "é€", " a b ", " x　"] + \
           ["".join(rng.choice(ALPHA) for _ in range(rng.randrange(0, 8))) for _ in range(nstr)]
    needles = ["", "a", "aa", "ab", "ba", "b", "é", "€", "😀", " ", "aaa", "zz", "\n", "A", "aab"]
    # case-insensitive forms over characters whose lower-case form has another UTF-8 length (Kelvin sign, Angstrom sign, Ohm sign,
    # A with stroke, sharp s, dotted capital I): receiver and needle may differ in byte length and still match
    FOLD = ["K", "\u212a", "k", "\u212b", "\u00e5", "\u00c5", "\u2126", "\u03c9", "\u03a9", "\u023a", "\u2c65", "\u1e9e", "\u00df", "\u0130", "i", "I", "g", "G", "\u00c9", "\u00e9"]
    fold_strs = ["".join(rng.choice(FOLD) for _ in range(rng.randrange(1, 4))) for _ in range(120 if quick else 2000)] + FOLD + \
                ["k", "kg", "\u023a", "\u2c65x", "x\u212a", "\u212ag"]
    for s in fold_strs:
        for n in [rng.choice(fold_strs), rng.choice(FOLD), s.lower(), s.upper(), s.swapcase(), s[:1], s[-1:]]:
            b = [("s", vs(s)), ("n", vs(n))]
            note = [("s", s), ("n", n)]
            add("s.containsI(n)", b, "OK " + vb(n.lower() in s.lower()), note)
            add("s.startsWithI(n)", b, "OK " + vb(s.lower().startswith(n.lower())), note)
            add("s.endsWithI(n)", b, "OK " + vb(s.lower().endswith(n.lower())), note)
    # single left-to-right scan: a deletion or replacement that joins the text on both sides into a NEW occurrence must not
    # be taken again (every string over {a, b} up to length 5 (thorough: 7), every pattern of length 2 and 3 that can overlap
    # itself or be re-created, every short replacement)
    import itertools
    ab = ["".join(t) for k in range(0, 6 if quick else 8) for t in itertools.product("ab", repeat=k)]
    for s in ab + ["x<<>>y", "....//", "aéébé"]:
        for n in (["ab", "ba", "aa", "aab", "aba", "abb"] if s[:1] in ("", "a", "b") else ["<>", "../", "éb", "é"]):
            b = [("s", vs(s)), ("n", vs(n))]
            note = [("s", s), ("n", n)]
            add("s.remove(n)", b, S(s.replace(n, "")), note)
            add("s.split(n)", b, L(py_split(s, n)), note)
            add("s.rsplit(n)", b, L(py_rsplit(s, n)), note)
            add("s.trimStartMatches(n)", b, S(py_trim_start_matches(s, n)), note)
            add("s.trimEndMatches(n)", b, S(py_trim_end_matches(s, n)), note)
            for t in ["", "a", "b", n[::-1]]:
                add("s.replace(n, t)", b + [("t", vs(t))], S(s.replace(n, t)), note + [("t", t)])
    for s in strs:
        for n in (rng.sample(needles, 6) + [s[:2], s[-2:], s]) if s else needles[:4]:
            b = [("s", vs(s)), ("n", vs(n))]
            note = [("s", s), ("n", n)]
            add("s.contains(n)", b, "OK " + vb(n in s), note)
            add("s.startsWith(n)", b, "OK " + vb(s.startswith(n)), note)
            add("s.endsWith(n)", b, "OK " + vb(s.endswith(n)), note)
            add("s.containsI(n)", b, "OK " + vb(n.lower() in s.lower()), note)
            add("s.startsWithI(n)", b, "OK " + vb(s.lower().startswith(n.lower())), note)
            add("s.endsWithI(n)", b, "OK " + vb(s.lower().endswith(n.lower())), note)
            add("s.split(n)", b, L(py_split(s, n)), note)
            add("s.rsplit(n)", b, L(py_rsplit(s, n)), note)
            add("s.remove(n)", b, S(s.replace(n, "") if n else s), note)
            add("s.trimStartMatches(n)", b, S(py_trim_start_matches(s, n)), note)
            add("s.trimEndMatches(n)", b, S(py_trim_end_matches(s, n)), note)
            t = rng.choice(["", "-", "aa", "é", n])
            add("s.replace(n, t)", b + [("t", vs(t))], S(s.replace(n, t)), note + [("t", t)])
            if n:
                # defining equations, evaluated by the implementation itself
                add("s.split(n).size() == s.rsplit(n).size()", b, "OK b1", note)
        add("s.trim()", [("s", vs(s))], S(s.strip(WS)), [("s", s)])
        add("s.trimStart()", [("s", vs(s))], S(s.lstrip(WS)), [("s", s)])
        add("s.trimEnd()", [("s", vs(s))], S(s.rstrip(WS)), [("s", s)])
        add("s.splitWhiteSpace()", [("s", vs(s))], L(py_words(s)), [("s", s)])
        add("s.toLower()", [("s", vs(s))], S(s.lower()), [("s", s)])
        add("s.toUpper()", [("s", vs(s))], S(s.upper()), [("s", s)])
        add("s.size()", [("s", vs(s))], "OK " + vu(len(s.encode())), [("s", s)])
        bs = s.encode()
        for i in range(-2, len(bs) + 3):
            ok = 0 <= i <= len(bs)
            if ok:
                try:
                    l_, r_ = bs[:i].decode(), bs[i:].decode()
                except UnicodeDecodeError:
                    ok = False
            add("s.splitAt(i)", [("s", vs(s)), ("i", vi(i))], L([l_, r_]) if ok else "ERR Eval", [("s", s), ("i", i)])
    n_str = len(cases)
    # ---- regex ---------------------------------------------------------------------------------------
    pats = ["a", "a+", "^a", "b$", "[ab]+", "a|b", "a*", "(a)(b)?", "\\d+", "\\s", ".", "é", "^$", "a{2}", "[^a]", "(?i)A", "x?"]
    bad = ["(", "[", "*a", "a{2,1}", "(?P<", "\\", "a)", "[z-a]"]
    rstrs = ["", "a", "aab", "bab", "abba", "12 ab", "é a", "AAA", "xyz"]
    for s in rstrs:
        for p in pats:
            b = [("s", vs(s)), ("p", vs(p))]
            add("s.matches(p)", b, "OK " + vb(re.search(p, s) is not None), [("s", s), ("p", p)])
            if re.search(p, "") is None:        # engines differ on empty matches next to non-empty ones
                add("s.matchReplace(p, r)", b + [("r", vs("<>"))], S(re.sub(p, "<>", s)), [("s", s), ("p", p)])
            add("s.matchReplaceOnce(p, r)", b + [("r", vs("<>"))], S(re.sub(p, "<>", s, count=1)), [("s", s), ("p", p)])
            m = re.search(p, s)
            if m is None:
                wc = "OK n"
            else:
                wc = "OK " + vlist([vs(m.group(0))] + [vs(g) if g is not None else VNULL for g in m.groups()])
            add("s.matchCaptures(p)", b, wc, [("s", s), ("p", p)])
        if s in ("aab", "abba", "12 ab"):
            # references in the replacement ($0, ${0}, $1, $$, an unknown group = empty), with plain and with grouping patterns
            for p, grp in [("a", 0), ("ab", 0), ("b", 0), ("(a)", 1), ("(a)(b)?", 2), ("12", 0), (" ", 0)]:
                for r_, py in [("[$0]", lambda m: "[" + m.group(0) + "]"), ("${0}${0}", lambda m: m.group(0) * 2), ("5$$", lambda m: "5$"),
                               ("$nosuch|", lambda m: "|"), ("<$1>", lambda m: "<" + ((m.group(1) or "") if grp >= 1 else "") + ">"),
                               ("$$0", lambda m: "$0")]:
                    bb = [("s", vs(s)), ("p", vs(p)), ("r", vs(r_))]
                    add("s.matchReplace(p, r)", bb, S(re.sub(p, py, s)), [("s", s), ("p", p), ("r", r_)])
                    add("s.matchReplaceOnce(p, r)", bb, S(re.sub(p, py, s, count=1)), [("s", s), ("p", p), ("r", r_)])
        for p in bad:
            b = [("s", vs(s)), ("p", vs(p))]
            for f in ["s.matches(p)", "s.matchCaptures(p)", "s.matchReplace(p, 'x')", "s.matchReplaceOnce(p, 'x')"]:
                add(f, b, "ERR Eval", [("s", s), ("p", p)])
    n_re = len(cases)
    # ---- math ------------------------------------------------------------------------------------------
    ints = [0, 1, -1, 2, -2, 3, 7, 10, 100, 1000, 63, 64, I64_MAX, I64_MIN, I64_MAX - 1, I64_MIN + 1, 2 ** 31, 2 ** 32, 999, 1024]
    uints = [0, 1, 2, 10, 100, 2 ** 32, 2 ** 63, U64_MAX, U64_MAX - 1, 1023, 1024]
    dbls = [0.0, -0.0, 0.5, -0.5, 1.5, 2.5, -2.5, 1e10, -1e10, 1e300, 9.2e18, -9.3e18, 2.0 ** 63, float("inf"), float("-inf"),
            float("nan"), 4.0, 2.0, 10.0, 1e-5, 0.49999999999999994, 4503599627370497.0] + [rng.uniform(-100, 100) for _ in range(40)]
    for i in ints:
        add("abs(x)", [("x", vi(i))], "OK " + vi(abs(i)) if i != I64_MIN else "ERR Eval")
        add("sqrt(x)", [("x", vi(i))], "OK " + vf(math.sqrt(float(i))) if i >= 0 else "OK " + vf(float("nan")))
        for f in ("ceil", "floor", "round"):
            add("%s(x)" % f, [("x", vi(i))], "OK " + vi(i))
        add("log(x)", [("x", vi(i))], "OK " + vi(len(str(i)) - 1) if i > 0 else "ERR Eval")
        add("lg(x)", [("x", vi(i))], "OK " + vi(i.bit_length() - 1) if i > 0 else "ERR Eval")
        for e in [0, 1, 2, 3, 5, 10, 62, 63, 64, 65, -1, 4294967296]:
            try:
                r = i ** e if 0 <= e <= 2 ** 32 - 1 and not (abs(i) > 1 and e > 64) else None
            except OverflowError:
                r = None
            ok = r is not None and I64_MIN <= r <= I64_MAX
            add("pow(x, e)", [("x", vi(i)), ("e", vi(e))], "OK " + vi(r) if ok else "ERR Eval")
    for u in uints:
        add("abs(x)", [("x", vu(u))], "OK " + vu(u))
        add("sqrt(x)", [("x", vu(u))], "OK " + vf(math.sqrt(float(u))))
        add("log(x)", [("x", vu(u))], "OK " + vu(len(str(u)) - 1) if u > 0 else "ERR Eval")
        add("lg(x)", [("x", vu(u))], "OK " + vu(u.bit_length() - 1) if u > 0 else "ERR Eval")
        for e in [0, 1, 2, 10, 63, 64, 65]:
            r = u ** e if not (u > 1 and e > 64) else None
            ok = r is not None and r <= U64_MAX
            add("pow(x, e)", [("x", vu(u)), ("e", vu(e))], "OK " + vu(r) if ok else "ERR Eval")
    fl = []
    for d in dbls:
        add("abs(x)", [("x", vf(d))], "OK " + vf(abs(d)))
        add("sqrt(x)", [("x", vf(d))], "OK " + vf(math.sqrt(d) if d >= 0 or d != d else float("nan")))
        add("ceil(x)", [("x", vf(d))], "OK " + vi(sat_i64(math.ceil(d) if d == d and abs(d) != float("inf") else d)))
        add("floor(x)", [("x", vf(d))], "OK " + vi(sat_i64(math.floor(d) if d == d and abs(d) != float("inf") else d)))
        add("round(x)", [("x", vf(d))], "OK " + vi(sat_i64(round_half_away(d))))
        fl.append((len(cases), "log10", d))
        add("log(x)", [("x", vf(d))], ("FLOAT", (math.log10(d) if d > 0 and d != float("inf") else (float("-inf") if d == 0 else (float("inf") if d == float("inf") else float("nan"))))))
        add("lg(x)", [("x", vf(d))], ("FLOAT", (math.log2(d) if d > 0 and d != float("inf") else (float("-inf") if d == 0 else (float("inf") if d == float("inf") else float("nan"))))))
        for e in [0.0, 1.0, 2.0, 0.5, -1.0, 3.0]:
            try:
                r = math.pow(d, e)
            except (OverflowError, ValueError):
                r = None
            if r is not None:
                add("pow(x, e)", [("x", vf(d)), ("e", vf(e))], ("FLOAT", r))
    # a double raised to a whole exponent (int or uint), through and beyond the 32-bit range where the implementation changes
    # algorithm: bases whose powers are exact (+-1, +-2, +-0.5, +-0, +-inf), so the expected double is exact whatever the method
    def exact_pow(d, e):
        if e == 0 or d == 1.0:
            return 1.0
        neg = math.copysign(1.0, d) < 0 and e % 2 != 0
        a = abs(d)
        if a == 1.0:
            m = 1.0
        elif a == 0.0:
            m = 0.0 if e > 0 else float("inf")
        elif a == float("inf"):
            m = float("inf") if e > 0 else 0.0
        else:
            k = int(math.log2(a)) * e
            m = float("inf") if k > 1023 else (0.0 if k < -1074 else math.ldexp(1.0, k))
        return -m if neg else m
    wexp = [0, 1, 2, 3, 31, 62, 63, 64, 1023, 1024, 1074, 1075, 2 ** 31 - 2, 2 ** 31 - 1, 2 ** 31, 2 ** 31 + 1, 2 ** 32, 2 ** 32 + 1,
            2 ** 34, 2 ** 34 + 1, 2 ** 40 + 1, 2 ** 53 - 1]
    for d in [1.0, -1.0, 2.0, -2.0, 0.5, -0.5, 0.0, -0.0, float("inf"), float("-inf"), 4.0, -0.25]:
        for e in wexp:
            add("pow(x, e)", [("x", vf(d)), ("e", vi(e))], ("FLOAT", exact_pow(d, e)))
            add("pow(x, e)", [("x", vf(d)), ("e", vu(e))], ("FLOAT", exact_pow(d, e)))
            if e:
                add("pow(x, e)", [("x", vf(d)), ("e", vi(-e))], ("FLOAT", exact_pow(d, -e)))
        add("pow(x, e)", [("x", vf(d)), ("e", vi(-2 ** 31 - 1))], ("FLOAT", exact_pow(d, -2 ** 31 - 1)))
    n_math = len(cases)
    # ---- arity and type grid -------------------------------------------------------------------------------
    pool = [vi(1), vu(1), vf(1.5), vs("a"), vb(True), VNULL, vlist([vi(1)]), vmap([("a", vi(1))]), vy(b"a")]
    methods = {"contains": 1, "containsI": 1, "startsWith": 1, "endsWith": 1, "startsWithI": 1, "endsWithI": 1, "split": 1, "rsplit": 1,
               "remove": 1, "replace": 2, "splitAt": 1, "trimStartMatches": 1, "trimEndMatches": 1, "trim": 0, "trimStart": 0,
               "trimEnd": 0, "splitWhiteSpace": 0, "toLower": 0, "toUpper": 0, "matches": 1, "matchCaptures": 1, "matchReplace": 2,
               "matchReplaceOnce": 2}
    funcs = {"abs": 1, "sqrt": 1, "pow": 2, "log": 1, "lg": 1, "ceil": 1, "floor": 1, "round": 1}
    gcases, gwant, glabels, gnullpad = [], [], [], []
    # the recorded witness of the open finding dispatch-null-padding, and its siblings: an explicit trailing null
    for src in ["'abc'.contains('a', null)", "'abc'.trim(null)", "'a b'.splitWhiteSpace(null)", "'abc'.toUpper(null, null)"]:
        gcases.append(evalsrc_case(src, binds=[], ufuncs=[], std=False))
        glabels.append("explicit trailing null: " + src)
        gnullpad.append(True)
    for m, ar in methods.items():
        for n in range(0, 5):
            if n == ar:
                continue
            for _ in range(2):
                args = [rng.choice(pool) for _ in range(n)]
                binds = [("s", vs("abc"))] + [("a%d" % i, a) for i, a in enumerate(args)]
                gcases.append(evalsrc_case("s.%s(%s)" % (m, ", ".join("a%d" % i for i in range(n))), binds=binds, ufuncs=[], std=False))
                glabels.append("%s with %d arguments" % (m, n))
                gnullpad.append(n > ar and all(a == VNULL for a in args[ar:]))
        for recv in pool:
            if recv.startswith("s"):
                continue
            args = [vs("a") if m != "splitAt" else vi(1) for _ in range(ar)]
            binds = [("r", recv)] + [("a%d" % i, a) for i, a in enumerate(args)]
            gcases.append(evalsrc_case("r.%s(%s)" % (m, ", ".join("a%d" % i for i in range(ar))), binds=binds, ufuncs=[], std=False))
            glabels.append("%s on receiver %s" % (m, recv[:12]))
            gnullpad.append(False)
        for bad_arg in pool:
            if ar == 0 or (bad_arg.startswith("s") and m != "splitAt") or (bad_arg.startswith("i") and m == "splitAt"):
                continue
            if bad_arg == VNULL:
                continue                      # a null in a required position is a wrong type like any other only when padding is told apart
            args = [bad_arg] + [vs("a")] * (ar - 1)
            binds = [("s", vs("abc"))] + [("a%d" % i, a) for i, a in enumerate(args)]
            gcases.append(evalsrc_case("s.%s(%s)" % (m, ", ".join("a%d" % i for i in range(ar))), binds=binds, ufuncs=[], std=False))
            glabels.append("%s with argument %s" % (m, bad_arg[:12]))
            gnullpad.append(False)
    for f, ar in funcs.items():
        for n in range(0, 5):
            if n == ar:
                continue
            args = [vi(2)] * n
            binds = [("a%d" % i, a) for i, a in enumerate(args)]
            gcases.append(evalsrc_case("%s(%s)" % (f, ", ".join("a%d" % i for i in range(n))), binds=binds, ufuncs=[], std=False))
            glabels.append("%s with %d arguments" % (f, n))
            gnullpad.append(False)
        for bad_arg in [vs("a"), vb(True), vlist([vi(1)]), vmap([]), vy(b"a")]:
            args = [bad_arg] + [vi(2)] * (ar - 1)
            binds = [("a%d" % i, a) for i, a in enumerate(args)]
            gcases.append(evalsrc_case("%s(%s)" % (f, ", ".join("a%d" % i for i in range(ar))), binds=binds, ufuncs=[], std=False))
            glabels.append("%s with argument %s" % (f, bad_arg[:12]))
            gnullpad.append(False)
    assert len(gnullpad) == len(gcases)
    gimpl, gmodel = tie(chk, "arity and type grid", gcases, labels=glabels)
    for lab, c, r, pad in zip(glabels, gcases, gimpl, gnullpad):
        if not is_dead(r) and not r.startswith("ERR"):
            # every surplus argument is an explicit null: the recorded finding (the dispatcher cannot tell it from a missing one)
            chk.violation("a built-in accepts an arity or argument type outside its documented shapes",
                          dict(case=c, label=lab, impl=r, expected="ERR"), key="dispatch-null-padding" if pad else None)
    chk.stream("every string method and math function with arities 0..4 other than its own, with every non-string receiver "
               "and with every wrong first-argument type", len(gcases), len(set(gcases)), exhaustive=False)
    # ---- run ----------------------------------------------------------------------------------------------------
    impl, model = tie(chk, "string, regex and math calls", cases, labels=labels)
    for lab, c, r, w in zip(labels, cases, impl, want):
        if is_dead(r):
            continue
        k, payload, _ = split_result(r)
        if isinstance(w, tuple):
            ok = k == "OK" and payload.startswith("f") and ulps_apart(bits_f(int(payload[1:], 16)), w[1]) <= 2
            w = "OK f~%r" % w[1]
        else:
            ok = ("%s %s" % (k, payload)).strip() == w
        if not ok:
            chk.violation("a built-in does not compute its documented function", dict(case=c, label=lab, impl=r, expected=w))
    chk.stream("string functions over %d strings of a mixed ASCII / multi-byte / case-folding / white-space alphabet x needles "
               "(empty, overlapping, absent, the string's own ends, the whole string), every splitAt offset" % len(strs),
               n_str, len(set(cases[:n_str])), exhaustive=False)
    chk.stream("regex functions: 17 patterns x 9 subjects against Python's re; 8 invalid patterns must be errors", n_re - n_str,
               n_re - n_str, exhaustive=True)
    chk.stream("math functions on the integer / unsigned / double boundary grid (doubles within 2 ulp of libm)", n_math - n_re,
               len(set(cases[n_re:n_math])), exhaustive=False)
    chk.sample(dict(label=labels[7], impl=impl[7], expected=want[7]))
    chk.sample(dict(label=labels[n_str + 5], impl=impl[n_str + 5], expected=want[n_str + 5]))
    chk.sample(dict(label=labels[n_re + 9], impl=impl[n_re + 9], expected=str(want[n_re + 9])))
    chk.cov["rule"] = "expected values from Python str / re / math and explicit definitions (white-space set, half-away rounding, saturation)"


def replay(chk, rep):
    if not builds_or_die(chk):
        return
    r = run_impl([rep["case"]], isolate=True)[0]
    print("impl:", r, "\nexpected:", rep.get("expected"))
    k, payload, _ = split_result(r)
    w = rep.get("expected", "")
    if w == "ERR":
        ok = k == "ERR"
    elif w.startswith("OK f~"):
        ok = k == "OK" and payload.startswith("f") and ulps_apart(bits_f(int(payload[1:], 16)), float(w[5:])) <= 2
    else:
        ok = ("%s %s" % (k, payload)).strip() == w
    if is_dead(r) or not ok:
        chk.violation(rep.get("what", "replayed"), rep)
