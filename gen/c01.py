"""C01 — compile and evaluate are total: a value or an error, never a panic, abort or hang.

Every case runs in a child process of the harness (panics are caught and reported
as PANIC, a dead child as ABORT, no answer within the time limit as TIMEOUT) and
is also evaluated by the model, which has no panic of its own to return.  Debug
build (overflow checks on) and release build."""
import itertools
import random
from streams import *

LEVEL_NOTE = ("theorem: the VM model never returns the panic outcome and the nesting guards bound the parser's recursion; "
              "tie + search: grammar-derived, token-mutated and random sources, every built-in on the boundary pool, "
              "nesting ladders in child processes, debug and release builds")

POOL = [vi(0), vi(1), vi(-1), vi(I64_MAX), vi(I64_MIN), vu(0), vu(1), vu(U64_MAX), vf(0.0), vf(-0.0), vf(1.5), vf(float("nan")),
        vf(float("inf")), vf(float("-inf")), vf(1e308), vf(5e-324), vs(""), vs("a"), vs("héllo€😀"), vs("(["), vs("\\"), vy(b""),
        vy(b"\xff\x00"), vb(True), vb(False), VNULL, vlist([]), vlist([vi(1), vs("a"), VNULL]), vmap([]), vmap([("a", vi(1))]),
        vtime(0), vtime(-8334601228800 * 10 ** 9), vtime(8210266876799 * 10 ** 9 + 999999999), vdur(0), vdur(9223372036854775807 * 10 ** 6),
        vdur(-9223372036854775807 * 10 ** 6), vtype("int"), "I" + hx("zz"), "Ediv"]
FUNCS = ["contains", "containsI", "size", "sort", "startsWith", "endsWith", "startsWithI", "endsWithI", "matches", "matchCaptures",
         "matchReplaceOnce", "matchReplace", "toLower", "toUpper", "remove", "replace", "rsplit", "split", "splitAt", "trim",
         "trimStart", "trimStartMatches", "trimEnd", "trimEndMatches", "splitWhiteSpace", "abs", "sqrt", "pow", "log", "lg", "ceil",
         "floor", "round", "min", "max", "getDate", "getDayOfMonth", "getDayOfWeek", "getDayOfYear", "getFullYear", "getHours",
         "getMilliseconds", "getMinutes", "getMonth", "getSeconds", "zip", "uomConvert"]
CTORS = ["bool", "int", "uint", "double", "float", "string", "bytes", "type", "timestamp", "duration", "dyn"]
TOKENS = ["(", ")", "[", "]", "{", "}", ",", ".", "?", ":", "+", "-", "*", "/", "%", "!", "&&", "||", "==", "!=", "<", "<=", ">", ">=",
          "in", "match", "case", "_", "true", "false", "null", "1", "0", "1u", "1.5", "'a'", "b'a'", "f'{x}'", "x", "size", "int",
          "9223372036854775808", "0x", "'", '"', "\\", "é", "\n", "1e", "..", "@", "#", "f'{", "}}", "r'", "$"]


def mutate(rng, s):
    toks = s.split(" ")
    for _ in range(rng.randrange(1, 4)):
        k = rng.randrange(4)
        i = rng.randrange(len(toks) + 1)
        if k == 0 and toks:
            del toks[min(i, len(toks) - 1)]
        elif k == 1:
            toks.insert(i, rng.choice(TOKENS))
        elif k == 2 and toks:
            toks[min(i, len(toks) - 1)] = rng.choice(TOKENS)
        elif toks:
            j = rng.randrange(len(toks))
            i = min(i, len(toks) - 1)
            toks[i], toks[j] = toks[j], toks[i]
    return " ".join(toks)


def ladder(n):
    return [("parens", "(" * n + "1" + ")" * n), ("list", "[" * n + "1" + "]" * n), ("neg", "-" * n + "1"), ("not", "!" * n + "true"),
            ("tern", "(true?" * n + "1" + ":0)" * n), ("idx", "x" + "[(" * n + "0" + ")]" * n), ("call", "f(" * n + "1" + ")" * n),
            ("map", "{'a':" * n + "1" + "}" * n), ("macro", "[1].map(v," * n + "v" + ")" * n), ("fstr", "f'{" + "(" * n + "1" + ")" * n + "}'"),
            ("elsechain", "true?1:" * n + "0"), ("match", "match 1 {case _: " * n + "1" + "}" * n), ("chain", "1" + "+1" * n),
            ("and", "true" + "&&true" * n), ("member", "x" + ".a" * n), ("index", "x" + "[0]" * n), ("calls", "f" + "(1)" * n),
            ("biglist", "[" + ",".join(["1"] * n) + "]"), ("bigmap", "{" + ",".join("'k%d':1" % i for i in range(n)) + "}"),
            ("args", "f(" + ",".join(["1"] * n) + ")"), ("cases", "match 1 {" + ",".join("case %d: 1" % i for i in range(n)) + "}"),
            ("string", "'" + "a" * n + "'"), ("ident", "a" * n), ("digits", "1" * min(n, 400)), ("fsegs", "f'" + "{1}" * n + "'"),
            ("open", "(" * n), ("close", ")" * n), ("quotes", "'" * n), ("nestmacro", "[[1]]" + ".map(a, a" * min(n, 40) + ")" * min(n, 40))]


def run(chk):
    rng = random.Random(chk.seed)
    if not builds_or_die(chk, profiles=("debug", "release")):
        return
    quick = chk.tier == "quick"
    # ---- sources -----------------------------------------------------------------------------------------
    es = gen_sources(rng, 1200 if quick else 20000, depth=(1, 7), use_unbound=0.1)
    srcs = [render(e, rng.choice(["min", "rand"]), rng.choice(["one", "rand"]), rng) for e in es]
    muts = [mutate(rng, render(e, "min", "one", rng)) for e in es for _ in range(2)]
    rand = []
    for _ in range(1500 if quick else 20000):
        k = rng.random()
        if k < 0.5:
            rand.append(" ".join(rng.choice(TOKENS) for _ in range(rng.randrange(1, 12))))
        elif k < 0.8:
            rand.append("".join(chr(rng.choice([rng.randrange(32, 127), rng.randrange(0, 32), rng.randrange(128, 0x800), 0x20ac, 0x1f600,
                                                  0xfeff, 0x2028, 0xd7ff, 0xe000])) for _ in range(rng.randrange(0, 20))))
        else:
            rand.append("".join(rng.choice("()[]{}'\"\\.,?:+-*/%!&|=<>01xu efbr\n\t") for _ in range(rng.randrange(1, 25))))
    # literal escapes at every boundary code point, in every literal kind, complete and truncated
    lits = []
    cps = [0, 0x7f, 0x80, 0xff, 0x100, 0x1ff, 0x200, 0x7ff, 0x800, 0xd7ff, 0xd800, 0xdabc, 0xdbff, 0xdc00, 0xdfff, 0xe000, 0xfffe, 0xffff,
           0x10000, 0x10ffff, 0x110000, 0x7fffffff, 0xffffffff]
    for cp in cps:
        forms = ["\\x%02x" % (cp & 0xff), "\\u%04x" % (cp & 0xffff), "\\U%08x" % (cp & 0xffffffff), "\\%03o" % (cp & 0x1ff),
                 "\\U%08X" % (cp & 0xffffffff), "\\u%04X" % (cp & 0xffff)]
        for f_ in forms:
            for pre in ["", "b", "f", "r"]:
                for q in "'\"":
                    lits.append(pre + q + f_ + q)
                    lits.append(pre + q + "a" + f_ + "b" + q)
                    lits.append(pre + q + f_[:-1] + q)
                    lits.append("size(" + pre + q + f_ + q + ")")
    for bad in ["'\\", "'\\u", "'\\U", "'\\x", "'\\0", "'\\07", "'\\8", "'\\ud800\\udc00'", "b'\\ud800'", "f'{'\\ud800'}'", "'\\N{X}'", "'\\c'",
                "1e99999", "1e-99999", "0x" + "f" * 40, "9" * 400, "1." + "0" * 400, "." * 50, "'" + "\\" * 51 + "'"]:
        lits.append(bad)
    # every name that is, or could be taken for, a type: as a match pattern, a call, an operand and a conversion target
    tnames = ["int", "uint", "double", "float", "string", "bool", "bytes", "list", "map", "object", "null", "null_type", "timestamp",
              "duration", "type", "dyn", "any", "message", "struct", "optional", "set", "enum", "error", "function", "bytecode", "ident",
              "Int", "INT", "_", "__", "in", "case", "match", "true", "false", "has", "size", "now"]
    tsrcs = []
    for t in tnames:
        for scrut in ["1", "'a'", "[1]", "{'a': 1}", "null", "x0", t]:
            tsrcs.append("match %s { case %s: 1, case _: 2 }" % (scrut, t))
        tsrcs += ["match 1 { case %s: 1 }" % t, "match %s { case _: 2 }" % t, "%s(1)" % t, "%s" % t, "type(1) == %s" % t, "%s == %s" % (t, t),
                  "[1].map(v, match v { case %s: v })" % t, "f'{match 1 { case %s: 2 }}'" % t, "match 1 { case %s: 1, case %s: 2 }" % (t, t),
                  "match 1 { case == %s: 1 }" % t, "%s in [%s]" % (t, t), "{'k': %s}.k" % t, "has(%s)" % t, "coalesce(%s)" % t]
    all_src = srcs + muts + rand + lits + tsrcs
    cases = [evalsrc_case(s) for s in all_src]
    for prof in ("debug", "release"):
        impl = run_impl(cases, prof, isolate=True)
        for s, c, r in zip(all_src, cases, impl):
            if is_dead(r):
                chk.violation("compiling or evaluating a source panics / aborts / does not return (%s build)" % prof,
                              dict(case=c, source=s, impl=r, profile=prof))
        if prof == "debug":
            model = run_model(cases)
            nun = 0
            for s, c, r, m in zip(all_src, cases, impl, model):
                if is_dead(r):
                    continue
                if m == "UNMOD":
                    nun += 1
                elif m != r:
                    chk.tie_broken("sources", dict(source=s, case=c, impl=r, model=m))
            chk.cov["model_unmodelled_cases"] = chk.cov.get("model_unmodelled_cases", 0) + nun
    chk.stream("grammar-derived sources (depth 1..6, 10% unbound names)", 2 * len(srcs), len(set(srcs)), exhaustive=False)
    chk.stream("token-mutated variants (deletion, insertion, replacement, swap)", 2 * len(muts), len(set(muts)), exhaustive=False)
    chk.stream("random token soups, random Unicode strings (controls, BOM, separators, astral), random punctuation", 2 * len(rand),
               len(set(rand)), exhaustive=False)
    chk.stream("string / bytes / f-string / raw literals with every escape form at %d boundary code points (surrogates, beyond "
               "U+10FFFF), complete and truncated; extreme numeric literals" % len(cps), 2 * len(lits), len(set(lits)), exhaustive=True)
    chk.sample(dict(source=muts[0], impl=impl[len(srcs)]))
    # ---- built-ins on the boundary pool ----------------------------------------------------------------------
    fcases, flabels = [], []
    small = POOL if not quick else POOL
    for f in FUNCS:
        for this in [VNULL] + small:
            fcases.append("func %s %s L( )" % (hx(f), this))
            flabels.append("%s this=%s ()" % (f, this[:14]))
            for a in (small if not quick else rng.sample(small, 12)):
                fcases.append("func %s %s L( %s )" % (hx(f), this, a))
                flabels.append("%s this=%s (%s)" % (f, this[:14], a[:14]))
        for a, b in (itertools.product(small, small) if not quick else [(rng.choice(small), rng.choice(small)) for _ in range(300)]):
            fcases.append("func %s %s L( %s %s )" % (hx(f), VNULL, a, b))
            flabels.append("%s (%s, %s)" % (f, a[:14], b[:14]))
        for _ in range(20 if quick else 200):
            args = [rng.choice(small) for _ in range(rng.randrange(3, 5))]
            fcases.append("func %s %s L( %s )" % (hx(f), rng.choice([VNULL] + small), " ".join(args)))
            flabels.append("%s with %d arguments" % (f, len(args)))
    for t in CTORS:
        for a in small:
            fcases.append("ctor %s L( %s )" % (hx(t), a))
            flabels.append("%s(%s)" % (t, a[:14]))
        for a, b in [(rng.choice(small), rng.choice(small)) for _ in range(60 if quick else 600)]:
            fcases.append("ctor %s L( %s %s )" % (hx(t), a, b))
            flabels.append("%s(%s, %s)" % (t, a[:14], b[:14]))
        fcases.append("ctor %s L( )" % hx(t))
        flabels.append("%s()" % t)
    # the regular-expression built-ins on patterns whose groups may take no part in a match, match the empty string, are
    # named, nested or malformed, with replacements that refer to groups that exist, do not exist or did not match
    rpats = ["a(b)?c", "(a)|(b)", "(x)*", "()", "(a)(b)?", "(?:a)(b)?", "(?P<n>a)?b", "^$", "a*", "(", "[", "\\", "(?i)A", ".", "\\d+",
             "(a|b)*c", "(a)?(b)?(c)?", "((a)|(b))+", "(?P<x>b)|c", "a{2,}", "(a)\\1", "\\b", "é(€)?", "(?s).", "x*?", "(a)(?:b)?(c)?"]
    rsubj = ["", "ac", "abc", "b", "aaa", "héllo€", "c", "aXc", "é", "ab ab"]
    rrepl = ["", "$1", "$2x", "${n}", "$", "$0$0", "$9", "\\1", "${", "$x$1"]
    for pat in rpats:
        for sub in rsubj:
            for f in ["matches", "matchCaptures"]:
                fcases.append("func %s %s L( %s )" % (hx(f), vs(sub), vs(pat)))
                flabels.append("%s this=%r (%r)" % (f, sub, pat))
            for rep in rrepl:
                for f in ["matchReplace", "matchReplaceOnce"]:
                    fcases.append("func %s %s L( %s %s )" % (hx(f), vs(sub), vs(pat), vs(rep)))
                    flabels.append("%s this=%r (%r, %r)" % (f, sub, pat, rep))
    for prof in ("debug", "release"):
        fimpl = run_impl(fcases, prof, isolate=True)
        for lab, c, r in zip(flabels, fcases, fimpl):
            if is_dead(r):
                chk.violation("a built-in panics / aborts / does not return on an argument shape (%s build)" % prof,
                              dict(case=c, label=lab, impl=r, profile=prof))
    chk.stream("%d built-in functions x receiver x argument tuples from a %d-value boundary pool (arity 0..1 with every receiver, "
               "arity 2 %s, arity 3..4 sampled); the regular-expression built-ins on 26 patterns x 10 subjects x 10 replacements; %d constructors" % (len(FUNCS), len(POOL), "sampled" if quick else "exhaustive",
                                                                    len(CTORS)), 2 * len(fcases), len(set(fcases)), exhaustive=False)
    chk.sample(dict(label=flabels[100], impl=fimpl[100]))
    # operators on the pool through the VM
    ocases = []
    for op in ["add", "sub", "mul", "div", "mod", "lt", "le", "eq", "ne", "ge", "gt", "in", "or", "and", "index"]:
        for a, b in itertools.product(POOL, POOL):
            ocases.append("binop %s %s %s" % (op, a, b))
    for op in ["neg", "not"]:
        for a in POOL:
            ocases.append("unop %s %s" % (op, a))
    for prof in ("debug", "release"):
        oimpl = run_impl(ocases, prof, isolate=False)
        for c, r in zip(ocases, oimpl):
            if is_dead(r):
                chk.violation("an operator panics / aborts on an operand pair (%s build)" % prof, dict(case=c, impl=r, profile=prof))
    chk.stream("every binary and unary operator on every pair of the boundary pool", 2 * len(ocases), len(ocases), exhaustive=True)
    # macros whose loop-variable argument is not an identifier but an arbitrary expression: it is evaluated on an interpreter
    # of its own (no bindings), where member access, calls and indexing meet states the main interpreter never has
    IDARGS = ["'a'.b", "[1].q", "true.q", "(1).q", "1.5.q", "1u.q", "b'x'.q", "null.q", "int.q", "x.y", "m1.k", "m1.nokey", "{'a': 1}.a",
              "{'a': 1}.b", "{'a': 'v'}.a", "f(1)", "size('a')", "'a'.size()", "x.f()", "1 + 1", "'s'", "[1][0]", "[1][5]", "l1[0]", "-x",
              "!true", "true ? v : w", "x ? v : w", "[1].map(v, v)", "has(x)", "coalesce(x, 1)", "timestamp(0).q", "now()", "f'{x}'",
              "match 1 { case int: v }", "match 1 { case int: v, case _: w }", "match x { case _: v }", "x || true", "x || v", "x && v",
              "match f(1) { case _: v }", "1 / 0", "(v)", "((v))", "v.w", "int", "type(1)", "dyn(v)", "[v][0]", "{'k': v}.k"]
    mcases, mlabels = [], []
    for recv in ["[1, 2]", "l1", "{'a': 1}", "m1", "1", "x"]:
        for ida in IDARGS:
            for src in ["%s.all(%s, true)", "%s.exists(%s, false)", "%s.exists_one(%s, true)", "%s.filter(%s, true)", "%s.map(%s, 1)",
                        "%s.map(%s, true, 1)"]:
                mlabels.append(src % (recv, ida))
            mlabels.append("%s.reduce(%s, e, 0, 0)" % (recv, ida))
            mlabels.append("%s.reduce(acc, %s, acc, 0)" % (recv, ida))
    mcases = [evalsrc_case(s_, binds=STD_BINDS, ufuncs=[], std=False) for s_ in mlabels]
    for prof in ("debug", "release"):
        mimpl = run_impl(mcases, prof, isolate=True)
        for lab, c, r in zip(mlabels, mcases, mimpl):
            if is_dead(r):
                chk.violation("a macro panics / aborts on a loop-variable argument that is not an identifier (%s build)" % prof,
                              dict(case=c, label=lab, impl=r, profile=prof))
    mmodel = run_model(mcases)
    for lab, r, m in zip(mlabels, mimpl, mmodel):
        if not is_dead(r) and m != "UNMOD" and m != r:
            chk.tie_broken("macros with expression loop variables", dict(label=lab, impl=r[:200], model=m[:200]))
    chk.stream("every macro x 6 receivers x %d expressions in the place of the loop variable" % len(IDARGS), 2 * len(mcases), len(mcases),
               exhaustive=True)
    # calendar accessors at the two ends of the timestamp range, where a zone's offset points out of the range (folded
    # by the compiler when the instant is a literal, run by the VM when it is bound)
    ACC = ["getDate", "getDayOfMonth", "getDayOfWeek", "getDayOfYear", "getFullYear", "getHours", "getMilliseconds", "getMinutes",
           "getMonth", "getSeconds"]
    TS_MAX, TS_MIN = 8210266876799, -8334601228800
    zcases, zlabels = [], []
    for n_ in [TS_MAX, TS_MAX - 1, TS_MAX - 3600, TS_MAX - 14 * 3600, TS_MAX - 86400, TS_MAX + 1, TS_MIN, TS_MIN + 1, TS_MIN + 3600,
               TS_MIN + 12 * 3600, TS_MIN + 86400, TS_MIN - 1, 253402300799, -62135596800, -62135596801, 0]:
        for z in ["Asia/Tokyo", "Pacific/Kiritimati", "America/New_York", "Pacific/Honolulu", "Etc/GMT+12", "Etc/GMT-14", "UTC", "Europe/Paris"]:
            for a in ACC:
                zlabels.append("timestamp(%d).%s('%s')" % (n_, a, z))
                zcases.append(evalsrc_case(zlabels[-1], binds=[], ufuncs=[], std=False))
                zlabels.append("timestamp(n).%s(z)  [n=%d, z=%s]" % (a, n_, z))
                zcases.append(evalsrc_case("timestamp(n).%s(z)" % a, binds=[("n", vi(n_)), ("z", vs(z))], ufuncs=[], std=False))
        for a in ACC:
            zlabels.append("timestamp(%d).%s()" % (n_, a))
            zcases.append(evalsrc_case(zlabels[-1], binds=[], ufuncs=[], std=False))
    for prof in ("debug", "release"):
        zimpl = run_impl(zcases, prof, isolate=True)
        for lab, c, r in zip(zlabels, zcases, zimpl):
            if is_dead(r):
                chk.violation("a calendar accessor panics / aborts at the edge of the timestamp range (%s build)" % prof,
                              dict(case=c, label=lab, impl=r, profile=prof))
    chk.stream("10 calendar accessors x 16 instants at and around both ends of the timestamp range x 8 zones, literal and bound",
               2 * len(zcases), len(zcases), exhaustive=True)
    lcases, llabels = [], []
    CHEAP = {"parens", "list", "neg", "not", "open", "close", "quotes", "ident", "string", "digits", "tern", "map", "call", "macro",
             "fstr", "elsechain", "match", "idx", "nestmacro"}          # refused or lexed in linear time
    for n in [1, 8, 16, 31, 32, 33, 64, 100, 255, 256, 257, 1000, 5000] + ([] if quick else [20000]) + [100000]:
        for k, s in ladder(n):
            if n > (5000 if quick else 20000) and k not in CHEAP:
                continue            # long flat chains compile in quadratic time: minutes, not a hang
            lcases.append(evalsrc_case(s, binds=[("x", vlist([vi(1)]))], ufuncs=[], std=False))
            llabels.append("%s x %d" % (k, n))
    for prof in ("debug", "release"):
        limpl = run_impl(lcases, prof, isolate=True, timeout=600)
        for lab, c, r in zip(llabels, lcases, limpl):
            if is_dead(r):
                chk.violation("a deeply nested or very long source exhausts the stack / aborts / hangs (%s build)" % prof,
                              dict(case=c[:300], label=lab, impl=r, profile=prof, ladder=lab))
    # long flat chains whose program is then cloned with its context (the syntax tree is cloned and dropped recursively)
    ccases, clabels = [], []
    for n in [1000, 1024, 1025, 2000, 5000] + ([] if quick else [20000]):
        for op, nm in [("+1", "add"), ("&&x", "and"), ("||x", "or"), ("==1", "eq"), ("*1", "mul")]:
            src = "x" + op * n
            ccases.append("history addp 0 %s %s ; bind 0 %s %s ; clonec 0 1 ; clonec 1 2 ; exec 2 0 %s ; exec 0 0 %s"
                          % (hx("p"), hx(src), hx("x"), vi(1), hx("p"), hx("p")))
            clabels.append("%s chain x %d, context cloned twice" % (nm, n))
    # ... and chains in which every 1000th operand is a nested expression of some kind (a parenthesis, an element, an argument,
    # a macro body, an f-string segment compiled by a nested compiler, ...): whatever bounds the chain must keep counting across them
    for n in [3000, 10000] + ([] if quick else [20000, 50000]):
        for inner, nm in [("int(f'{1}')", "f-string segment"), ("(1)", "parenthesis"), ("[1][0]", "list element"), ("size([1]) - 1 + 1", "call argument"),
                          ("[1].map(v, v)[0]", "macro body"), ("{'a': 1}.a", "map value"), ("(true ? 1 : 2)", "conditional"),
                          ("int(f'{1 + 1}')", "f-string segment with an operator"), ("match 1 { case _: 1 }", "match arm"),
                          ("int(f'{int(f\"{1}\")}')", "nested f-string segment")]:
            src = "x" + ("+1" * 999 + "+" + inner) * (n // 1000)
            ccases.append("history addp 0 %s %s ; bind 0 %s %s ; clonec 0 1 ; clonec 1 2 ; exec 2 0 %s ; exec 0 0 %s"
                          % (hx("p"), hx(src), hx("x"), vi(1), hx("p"), hx("p")))
            clabels.append("add chain x %d with a %s as every 1000th operand, context cloned twice" % (n, nm))
    for prof in ("debug", "release"):
        cimpl = run_impl(ccases, prof, isolate=True, timeout=600)
        for lab, c, r in zip(clabels, ccases, cimpl):
            if is_dead(r):
                chk.violation("cloning / dropping the context of a long flat operator chain exhausts the stack (%s build)" % prof,
                              dict(case=c[:300], label=lab, impl=r, profile=prof))
    chk.stream("flat operator chains of 1000..20000 operands (plain, and with a nested expression of each kind as every 1000th operand) "
               "compiled, their context cloned twice, executed and dropped",
               2 * len(ccases), len(ccases), exhaustive=False)
    # values nested by accumulation: reduce could build a value as deep as its receiver is long, and values are cloned and
    # dropped recursively (repaired by c89dc49: at most 1000 levels); every size must end without an abort
    acases, alabels, akeyed = [], [], []
    for n in [10, 100, 999, 1000, 1001, 3000, 10000] + ([] if quick else [30000, 100000]):
        for src in ["size(l.reduce(a, x, [a], []))", "size(l.reduce(a, x, [x, a], []))", "size(l.reduce(a, x, {'k': a}, {}).k)",
                    "size(l.reduce(a, x, a + [x], []))", "l.reduce(a, x, [a], [1]) == l.reduce(a, x, [a], [2])"]:
            if "a + [x]" in src and n > 3000:
                continue            # flat accumulation is quadratic in time; nothing to learn from it beyond a few thousand
            acases.append(evalsrc_case(src, binds=[("l", vlist([vi(i % 7) for i in range(n)]))], ufuncs=[], std=False))
            alabels.append("%s with %d elements" % (src, n))
            akeyed.append(False)
    # more than one level per element, and a seed that is deep already: fewer than 1000 elements suffice to pass the bound
    # (these are also compared with the model, which applies the same bound after every step)
    n_tied = len(acases)
    for n in [249, 250, 251, 334, 500, 999]:
        for src in ["size(l.reduce(a, x, [[[[a]]]], 0))", "size(l.reduce(a, x, [[a]], []))", "size(l.reduce(a, x, {'k': {'j': [a]}}, {}))",
                    "size(l.reduce(a, x, [a], l.reduce(b, y, [b], l.reduce(c, z, [c], [0]))))",
                    "size(l.reduce(a, x, [a], l.reduce(b, y, [[b]], [])))"]:
            acases.append(evalsrc_case(src, binds=[("l", vlist([vi(i % 7) for i in range(n)]))], ufuncs=[], std=False))
            alabels.append("%s with %d elements" % (src, n))
            akeyed.append(False)
    deep12 = "[[[[[[[[[[[[a]]]]]]]]]]]]"
    for src in ["l.reduce(a, x, %s, 0) == l.reduce(a, x, %s, 1)" % (deep12, deep12), "size(l.reduce(a, x, %s, 0))" % deep12]:
        acases.append(evalsrc_case(src, binds=[("l", vlist([vi(i % 7) for i in range(999)]))], ufuncs=[], std=False))
        alabels.append("%s with 999 elements" % src)
        akeyed.append(False)
    amodel = run_model(acases[n_tied:])
    for prof in ("debug", "release"):
        aimpl = run_impl(acases, prof, isolate=True, timeout=900)
        for lab, c, r, m in zip(alabels[n_tied:], acases[n_tied:], aimpl[n_tied:], amodel):
            if not is_dead(r) and m != "UNMOD" and m != r:
                chk.tie_broken("reduce accumulators", dict(label=lab, impl=r[:200], model=m[:200], profile=prof))
        for lab, c, r, keyed in zip(alabels, acases, aimpl, akeyed):
            if is_dead(r):
                chk.violation("a value nested by accumulation exhausts the stack when it is cloned, compared or dropped (%s build)" % prof,
                              dict(case=c[:300], label=lab, impl=r, profile=prof), key="deep-value-by-accumulation" if keyed else None)
    chk.stream("reduce building values 10..100000 levels deep (and flat ones of the same size), measured, compared and dropped",
               2 * len(acases), len(acases), exhaustive=False)
    lmodel = run_model([c for c, lab in zip(lcases, llabels) if int(lab.split(" x ")[1]) <= 1000])
    for (c, lab), r, m in zip([(c, lab) for c, lab in zip(lcases, llabels) if int(lab.split(" x ")[1]) <= 1000], [r for r, lab in zip(limpl, llabels) if int(lab.split(" x ")[1]) <= 1000], lmodel):
        if not is_dead(r) and m != "UNMOD" and m != r:
            chk.tie_broken("ladders", dict(label=lab, impl=r[:200], model=m[:200]))
    chk.stream("29 nesting / length ladders (parentheses, lists, maps, calls, indexes, conditionals, macros, f-strings, match, "
               "prefix runs, operator chains, huge literals, unbalanced brackets) at 15 sizes up to 50000+", 2 * len(lcases),
               len(lcases), exhaustive=False)
    chk.sample(dict(label=llabels[60], impl=limpl[60][:100]))
    chk.cov["rule"] = ("a case is a violation when the harness reports PANIC (caught unwind), ABORT (child died: stack overflow, "
                       "abort) or TIMEOUT; cyclic and deep program references are C12's")


def replay(chk, rep):
    if not builds_or_die(chk, profiles=("debug", "release")):
        return
    c = rep["case"]
    if "ladder" in rep:
        k, n = rep["ladder"].split(" x ")
        s = dict(ladder(int(n)))[k]
        c = evalsrc_case(s, binds=[("x", vlist([vi(1)]))], ufuncs=[], std=False)
    r = run_impl([c], rep.get("profile", "debug"), isolate=True, timeout=600)[0]
    print("impl:", r[:300])
    if is_dead(r):
        chk.violation(rep.get("what", "replayed"), rep)
