"""C18 — syntax-tree spans are exact and nested; syntax errors point inside the source.

Checked on the implementation's own output (the model's tree text is tied to it):
spans inside the source, child within parent, siblings disjoint, root = the
expression without surrounding white space, the spanned text re-parses to the
same subtree; token spans increasing and re-lexing to the same token; error
positions are positions of the source."""
import random
from streams import *
from astshape import *

LEVEL_NOTE = ("theorems on the span algebra (surrounding = least containing span, ordered operands, postfix chains) and on "
              "scanner positions (= lines consumed, characters since the last newline); per-tree validation of the "
              "implementation's output; tie on the complete tree text")

EXPR_TAGS = {"Tern", "Match", "EU", "Or", "OrU", "And", "AndU", "Rel", "RelU", "AddB", "AddU", "MulB", "MulU", "UM", "UNot",
             "UNeg", "Mem", "Id", "Lit", "List", "Obj", "Par"}
# not expression nodes: match patterns (excluded by the property) and the operator runs of ! and - (NotList / NegList:
# their recorded end is the scanner position after the token that follows the run, i.e. inside the operand)
PATTERN_TAGS = {"PCmp", "PType", "PAny", "OL", "OE"}


def le(a, b):
    return a <= b


def check_tree(src, ast):
    """returns (problem or None, list of (node text, node) to re-parse)"""
    S = Src(src)
    nodes = nodes_with_spans(ast)
    # pattern subtrees are outside the property
    skip = set()
    for i, n in enumerate(nodes):
        if n["tag"] in PATTERN_TAGS or (n["parent"] in skip):
            skip.add(i)
    for i, n in enumerate(nodes):
        if i in skip or n["range"] is None:
            continue
        for r in n["ranges"]:
            if S.offset(r[0]) is None or S.offset(r[1]) is None:
                return "a span lies outside the source: %s %s" % (n["tag"], r), []
            if not le(r[0], r[1]):
                return "a span ends before it starts: %s %s" % (n["tag"], r), []
        p = n["parent"]
        while p is not None and nodes[p]["range"] is None:
            p = nodes[p]["parent"]
        if p is not None and p not in skip:
            pr = nodes[p]["range"]
            if not (le(pr[0], n["range"][0]) and le(n["range"][1], pr[1])):
                return "a child's span is not contained in its parent's: %s %s in %s %s" % (
                    n["tag"], n["range"], nodes[p]["tag"], pr), []
    # siblings
    kids = {}
    for i, n in enumerate(nodes):
        if i in skip or n["range"] is None or n["parent"] is None:
            continue
        kids.setdefault(n["parent"], []).append(n)
    for p, ks in kids.items():
        for a in range(len(ks)):
            for b in range(a + 1, len(ks)):
                ra, rb = ks[a]["range"], ks[b]["range"]
                if not (le(ra[1], rb[0]) or le(rb[1], ra[0])):
                    return "sibling spans overlap: %s %s and %s %s under %s" % (
                        ks[a]["tag"], ra, ks[b]["tag"], rb, nodes[p]["tag"]), []
    # root
    stripped = src.strip(" \t\n")
    lead = len(src) - len(src.lstrip(" \t\n"))
    root = nodes[0]["range"]
    if (S.offset(root[0]), S.offset(root[1])) != (lead, lead + len(stripped)):
        return "the root span is not the expression without surrounding white space: %s" % (root,), []
    rep = []
    for i, n in enumerate(nodes):
        if i in skip or n["tag"] not in EXPR_TAGS:
            continue
        txt = S.slice(n["range"])
        if txt is None:
            return "a span cannot be cut out of the source: %s %s" % (n["tag"], n["range"]), []
        rep.append((txt, n["node"], n["tag"]))
    return None, rep


def strip_spans(s):
    return s


def corrupt(rng, s):
    k = rng.randrange(8)
    if not s:
        return "("
    i = rng.randrange(len(s))
    if k == 0:
        return s[:i]
    if k == 1:
        return s[:i] + rng.choice(["(", ")", "[", "]", "{", "}", ",", "?", ":", "'", '"', "\\", "@", "#", "$", "`", "é"]) + s[i:]
    if k == 2:
        return s[:i] + s[i + 1:]
    if k == 3:
        return s + rng.choice([" +", " (", " ? 1", " )", "\n*", ".", " .", "\n\n&&", "'abc", " 1 1", " ]", " \"x\n"])
    if k == 4:
        return rng.choice(["+ ", ") ", "* ", ", ", ": ", "case "]) + s
    if k == 5:
        j = rng.randrange(len(s))
        a, b = min(i, j), max(i, j)
        return s[:a] + s[b:]
    if k == 6:
        return s.replace(" ", "\n", 3) + "\n  )"
    return s[:i] + "\n\n" + rng.choice(["'é😀", "\"€", "0x", "1e", "'\\u12'", "b'\\400'"]) + s[i:]


def run(chk):
    rng = random.Random(chk.seed)
    if not builds_or_die(chk):
        return
    quick = chk.tier == "quick"
    es = gen_sources(rng, 500 if quick else 8000, depth=(1, 6), use_unbound=0.05)
    srcs = []
    for e in es:
        if rng.random() < 0.35:
            e = ('list', [('lit', rng.choice(["'é€😀'", '"€"', "'naïve\\n'", "r'ü'", "b'é'", "f'é{1}€'", "'x\r\ny'", "'\r'", "r'a\rb'",
                                              "b'\r\n'", "'l1\nl2\nl3'", "'\n'"])), e,
                          ('lit', rng.choice(["'😀😀'", "'a'"]))])
        if rng.random() < 0.15:
            e = ('tern', ('id', 'b1'), e, ('bin', '+', ('lit', "'é'"), ('lit', "'ü'")))
        srcs.append(render(e, rng.choice(['min', 'rand', 'full']), rng.choice(['rand', 'rand', 'one', 'min']), rng))
    srcs += ["a", " a ", "\n\na\n", "-a", "- - a", "!a", "a.b", "a . b", "a[0]", "a (1)", "f(1,2)", "[ ]", "{ }", "[1,]", "{'a':1,}",
             "a\n+\nb", "  (  a  )  ", "a ? b : c", "match a { case 1 : 2 }", "match a { case int : 2 , case _ : 3 }",
             "'é'+'€'", "x.y.z(1)[2].w", "'x\r\ny' + z", "a +\r\nb", "a\r+ b", "'\r\r' +\n z", "[\n'\r\n',\n 1]", "- -  - a . b", "! ! a", "1 . size ( )", "f'{a}{b}'", "a in [1, 2]", "a\t&&\tb\n||\nc",
             "\ufeffx + 1", "\ufeff", "\ufeff\nx", "\ufeff 'a' + b", "x\ufeff + 1", "\ufeff\ufeffx", "\u200bx + 1", "\u00a0x", "\ufeff[1,\n 2]",
             "\ufeff(x", "\ufeffx +"]
    cases = ["parse " + vs(s) for s in srcs]
    impl, model = tie(chk, "syntax trees with spans", cases, labels=srcs)
    rep_src, rep_want, rep_from = [], [], []
    nchecked = 0
    for s, c, r in zip(srcs, cases, impl):
        if is_dead(r) or not r.startswith("OK "):
            continue
        ast = parse_sexp(r[3:])
        prob, rep = check_tree(s, ast)
        nchecked += 1
        if prob:
            chk.violation("a syntax-tree span is not exact: " + prob, dict(case=c, source=s, impl=r[:1500], problem=prob))
            continue
        if len(rep) > 8:
            rep = rng.sample(rep, 8)
        for txt, node, tg in rep:
            rep_src.append(txt)
            rep_want.append(shape(node))
            rep_from.append((s, tg))
    rcases = ["parse " + vs(t) for t in rep_src]
    rimpl = run_impl(rcases, isolate=True)
    for t, c, r, w, (s, tg) in zip(rep_src, rcases, rimpl, rep_want, rep_from):
        if is_dead(r):
            chk.violation("parsing a spanned sub-expression on its own panics/aborts", dict(case=c, text=t, source=s, impl=r))
            continue
        got = shape(parse_sexp(r[3:])) if r.startswith("OK ") else None
        if got != w:
            chk.violation("the text a node's span covers does not parse to that node's subtree",
                          dict(case=c, text=t, node=tg, source=s, impl=r[:600], expected_shape=repr(w), got_shape=repr(got)))
    chk.stream("generated expressions (some wrapped around multi-byte string literals) in random parenthesisation and white "
               "space incl. newlines: containment, sibling disjointness, root span", len(cases), len(set(srcs)), exhaustive=False,
               note="%d trees validated" % nchecked)
    chk.stream("spanned sub-expressions re-parsed on their own (up to 8 nodes per tree)", len(rcases), len(set(rep_src)),
               exhaustive=False)
    chk.sample(dict(source=srcs[0][:200], tree=impl[0][:300]))
    # ---- tokens ------------------------------------------------------------------------------------------------
    lcases = ["lex " + vs(s) for s in srcs]
    limpl, lmodel = tie(chk, "token streams", lcases, labels=srcs)
    tok_src, tok_want = [], []
    for s, c, r in zip(srcs, lcases, limpl):
        if is_dead(r) or r.startswith("ERR"):
            continue
        S = Src(s)
        prev_end = (0, 0)
        toks_ = r.split()
        bad = None
        for t in toks_:
            if t.startswith("END@"):
                continue
            if t.startswith("ERR@"):
                l_, c_ = map(int, t[4:].split(":"))
                if not (0 <= l_ < len(S.lines) and 0 <= c_ <= len(S.lines[l_])):
                    bad = "lexing error at a position that is not in the source: " + t
                break
            name, _, rg_ = t.rpartition("@")
            m = RNG.findall("@" + rg_)
            if not m:
                bad = "token without a span: " + t
                break
            a, b, c2, d = map(int, m[0])
            st, en = (a, b), (c2, d)
            if S.offset(st) is None or S.offset(en) is None or not st < en:
                bad = "token span outside the source or empty: " + t
                break
            if not prev_end <= st:
                bad = "token spans overlap or go backwards: " + t
                break
            prev_end = en
            tok_src.append(S.slice((st, en)))
            tok_want.append(name)
        if bad:
            chk.violation("token spans are not increasing, non-overlapping spans of the source: " + bad,
                          dict(case=c, source=s, impl=r[:800]))
    if len(tok_src) > (4000 if quick else 60000):
        idx = rng.sample(range(len(tok_src)), 4000 if quick else 60000)
        tok_src = [tok_src[i] for i in idx]
        tok_want = [tok_want[i] for i in idx]
    tcases = ["lex " + vs(t) for t in tok_src]
    timpl = run_impl(tcases, isolate=True)
    for t, c, r, w in zip(tok_src, tcases, timpl, tok_want):
        got = [x.rpartition("@")[0] for x in r.split() if not x.startswith("END@")]
        if got != [w]:
            chk.violation("the text of a token's span does not re-lex to that token",
                          dict(case=c, text=t, impl=r, expected_token=w))
    chk.stream("token spans of all those sources; the text of sampled tokens re-lexed", len(lcases) + len(tcases),
               len(set(tok_src)), exhaustive=False)
    # ---- error positions ---------------------------------------------------------------------------------------
    bad_srcs = []
    for s in srcs:
        for _ in range(2 if quick else 4):
            bad_srcs.append(corrupt(rng, s))
    bad_srcs += ["", " ", "\n", "(", ")", "1 +", "1 +\n", "\n\n  (1", "a ?", "a ? b", "a ? b :", "[1, 2", "{'a': }", "{'a' 1}",
                 "f(", "a.", "a.1", "a..b", "'abc", "'abc\ndef", "\"", "1 1", "a b", "match", "match a", "match a {",
                 "match a { case", "match a { case 1", "match a { case 1 :", "match a { case 1 : 2", "é", "a + é", "1 +\n\n  é",
                 "'é' é", "😀", "a\n😀", "f'{'", "f'{a'", "f'{a +}'", "0x", "1e", "99999999999999999999", "'\\u12'", "b'\\400'"]
    bcases = ["parse " + vs(s) for s in bad_srcs]
    bimpl, bmodel = tie(chk, "corrupted sources", bcases, labels=bad_srcs)
    nerr = 0
    for s, c, r in zip(bad_srcs, bcases, bimpl):
        if is_dead(r) or not r.startswith("ERR Esyn:"):
            continue
        nerr += 1
        l, col = map(int, r.split()[1].split(":")[1:3])
        lines = s.split("\n")
        if not (0 <= l < len(lines) and 0 <= col <= len(lines[l])):
            chk.violation("a syntax error reports a position that is not in the source",
                          dict(case=c, source=s, impl=r, lines=len(lines), line_lengths=[len(x) for x in lines][:20]))
    chk.stream("corrupted variants (truncation, deletion, inserted garbage, unbalanced brackets, broken literals, multi-byte "
               "text, extra newlines) and hand-written malformed sources: reported line/column is a position of the source",
               len(bcases), len(set(bad_srcs)), exhaustive=False, note="%d of them are syntax errors" % nerr)
    chk.sample(dict(source=bad_srcs[3][:200], impl=bimpl[3]))
    # errors inside f-string segments (parsed by a nested tokenizer): reported where the literal starts
    fsrcs, fwant = [], []
    for pre in ["", " ", "\n", "\n\n  ", "1 +\n", "[\n 1,\n\t", "'é€' +\n ", "x1 ?\n\n", "(\n"]:
        for seg in ["{a +}", "{(}", "{'x}", "{a.}", "a{b}c{1 +}", "é{[1,}€", "{x}{y}{)}", "{\n\n1 +}", "{ 1 +\n}", "{0x}", "{'\\u12'}",
                    "{f'{1 +}'}", "{a ? b}", "{match a }", "{[1, 2}"]:
            for q in ["'", '"']:
                if q in seg:
                    continue
                src = pre + "f" + q + seg + q
                fsrcs.append(src)
                fwant.append((pre.count("\n"), len(pre.split("\n")[-1])))
    fcases = ["parse " + vs(x) for x in fsrcs]
    fimpl, fmodel = tie(chk, "errors inside f-string segments", fcases, labels=fsrcs)
    for src, c, r, w in zip(fsrcs, fcases, fimpl, fwant):
        if is_dead(r):
            continue
        if not r.startswith("ERR Esyn:"):
            chk.violation("a malformed f-string segment is accepted", dict(case=c, source=src, impl=r))
            continue
        l, col = map(int, r.split()[1].split(":")[1:3])
        lines = src.split("\n")
        if not (0 <= l < len(lines) and 0 <= col <= len(lines[l])):
            chk.violation("a syntax error reports a position that is not in the source",
                          dict(case=c, source=src, impl=r, lines=len(lines), line_lengths=[len(x) for x in lines][:20]))
        elif (l, col) != w:
            chk.violation("a syntax error inside an f-string segment is not reported at the literal",
                          dict(case=c, source=src, impl=r, lines=len(lines), expected_position="%d:%d" % w))
    chk.stream("malformed f-string segments after prefixes with newlines, tabs and multi-byte text: the error is reported at the "
               "start of the literal", len(fcases), len(set(fsrcs)), exhaustive=True)
    chk.cov["rule"] = ("every node of every tree is validated; columns count characters (not bytes); pattern nodes of match are "
                       "excluded as the property says")


def replay(chk, rep):
    if not builds_or_die(chk):
        return
    r = run_impl([rep["case"]], isolate=True)[0]
    print("impl:", r[:800])
    if "problem" in rep:
        prob, _ = check_tree(rep["source"], parse_sexp(r[3:])) if r.startswith("OK ") else ("no tree", [])
        if prob:
            chk.violation(rep.get("what", "replayed"), rep)
    elif "expected_shape" in rep:
        got = repr(shape(parse_sexp(r[3:]))) if r.startswith("OK ") else "None"
        if got != rep["expected_shape"]:
            chk.violation(rep.get("what", "replayed"), rep)
    elif "expected_token" in rep:
        got = [x.rpartition("@")[0] for x in r.split() if not x.startswith("END@")]
        if got != [rep["expected_token"]]:
            chk.violation(rep.get("what", "replayed"), rep)
    elif "lines" in rep and r.startswith("ERR Esyn:"):
        l, col = map(int, r.split()[1].split(":")[1:3])
        lines = rep["source"].split("\n")
        if not (0 <= l < len(lines) and 0 <= col <= len(lines[l])):
            chk.violation(rep.get("what", "replayed"), rep)
        elif "expected_position" in rep and "%d:%d" % (l, col) != rep["expected_position"]:
            chk.violation(rep.get("what", "replayed"), rep)
    elif is_dead(r):
        chk.violation(rep.get("what", "replayed"), rep)
