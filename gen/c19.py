"""C19 — serialized programs (JSON, bincode) behave exactly like the original.

For every generated program: (a) the implementation's own round trip through both
formats must give the same bytecode, source, parameters and the same results under
the bindings; (b) the bytes it writes are decoded HERE by independent readers of
JSON (serde's externally tagged enums) and bincode 1.x (fixed-width little endian,
u32 variant index, u64 lengths) driven by one schema table, and the decoded tree
must equal the model's serde tree of the model-compiled program."""
import json
import random
import struct
from streams import *

LEVEL_NOTE = ("theorems on the serde data-model tree of values, code and errors (read . write = identity up to "
              "sub-millisecond time, written form determines the value); tie: the implementation's JSON and bincode bytes "
              "decoded independently equal the model's tree; the implementation's own round trips preserve code, "
              "metadata and results")

# ---- schema ---------------------------------------------------------------------------------------------
ENUMS = {
    "CelValue": [("Int", "i64"), ("UInt", "u64"), ("Float", "f64"), ("Bool", "bool"), ("String", "str"), ("Bytes", "CelBytes"),
                 ("List", "vec:CelValue"), ("Map", "map:CelValue"), ("Null", None), ("Ident", "str"), ("Type", "str"),
                 ("TimeStamp", "i64"), ("Duration", "i64"), ("ByteCode", "CelByteCode"), ("Err", "CelError")],
    "ByteCode": [("Push", "CelValue")] + [(n, None) for n in ["Pop", "Test", "Dup", "Or", "And", "Not", "Neg", "Add", "Sub", "Mul",
                                                               "Div", "Mod", "Lt", "Le", "Eq", "Ne", "Ge", "Gt", "In"]] +
                [("Jmp", "i32"), ("JmpCond", [("when", "JmpWhen"), ("dist", "i32")]), ("MkList", "u32"), ("MkDict", "u32"),
                 ("Index", None), ("Access", None), ("Call", "u32"), ("FmtString", "u32")],
    "JmpWhen": [("True", None), ("False", None)],
    "CelError": [("Misc", "str"), ("Syntax", "SyntaxError"), ("Value", "str"), ("Argument", "str"), ("InvalidOp", "str"),
                 ("Runtime", "str"), ("Binding", [("symbol", "str")]), ("Attribute", [("parent", "str"), ("field", "str")]),
                 ("DivideByZero", None), ("Internal", "str")],
}
STRUCTS = {
    "Program": [("details", "ProgramDetails"), ("bytecode", "CelByteCode")],
    "ProgramDetails": [("source", "opt:str"), ("params", "set:str")],
    "CelByteCode": [("inner", "vec:ByteCode")],
    "CelBytes": [("inner", "vec:u8")],
    "SyntaxError": [("loc", "SourceLocation"), ("message", "opt:str")],
}


class Bad(Exception):
    pass


# ---- JSON reader ---------------------------------------------------------------------------------------
def from_json(j, ty):
    if ty in ("i64", "i32"):
        if not isinstance(j, int) or isinstance(j, bool):
            raise Bad("expected integer, got %r" % (j,))
        return ("i", j)
    if ty in ("u64", "u32", "u8", "usize"):
        if not isinstance(j, int) or isinstance(j, bool) or j < 0:
            raise Bad("expected unsigned, got %r" % (j,))
        return ("u", j)
    if ty == "f64":
        if isinstance(j, str):
            x = {"NaN": float("nan"), "inf": float("inf"), "-inf": float("-inf")}.get(j)
            if x is None:
                raise Bad("bad float string %r" % j)
            return ("f", f_bits(x) if x == x else 0x7ff8000000000000)
        if isinstance(j, bool) or not isinstance(j, (int, float)):
            raise Bad("expected number")
        return ("f", f_bits(float(j)))
    if ty == "bool":
        if not isinstance(j, bool):
            raise Bad("expected bool")
        return ("b", j)
    if ty == "str":
        if not isinstance(j, str):
            raise Bad("expected string")
        return ("s", j.encode())
    if ty.startswith("vec:") or ty.startswith("set:"):
        if not isinstance(j, list):
            raise Bad("expected array")
        xs = [from_json(x, ty[4:]) for x in j]
        return ("seq", sorted(xs) if ty.startswith("set:") else xs)
    if ty.startswith("map:"):
        if not isinstance(j, dict):
            raise Bad("expected object")
        return ("map", sorted((k.encode(), from_json(v, ty[4:])) for k, v in j.items()))
    if ty.startswith("opt:"):
        return ("none",) if j is None else ("some", from_json(j, ty[4:]))
    if ty == "SourceLocation":
        if not (isinstance(j, list) and len(j) == 2):
            raise Bad("expected [line, col]")
        return ("seq", [from_json(j[0], "usize"), from_json(j[1], "usize")])
    if ty in STRUCTS:
        if not isinstance(j, dict) or sorted(j) != sorted(n for n, _ in STRUCTS[ty]):
            raise Bad("struct %s has fields %r" % (ty, j if not isinstance(j, dict) else sorted(j)))
        return ("struct", [(n, from_json(j[n], t)) for n, t in STRUCTS[ty]])
    if ty in ENUMS:
        if isinstance(j, str):
            name, payload = j, None
        elif isinstance(j, dict) and len(j) == 1:
            name, payload = next(iter(j.items()))
        else:
            raise Bad("expected enum %s, got %r" % (ty, j))
        for idx, (n, pt) in enumerate(ENUMS[ty]):
            if n == name:
                if pt is None:
                    if payload is not None or not isinstance(j, str):
                        raise Bad("unit variant with payload")
                    return ("var", idx, n, None)
                if isinstance(j, str):
                    raise Bad("variant %s without payload" % n)
                if isinstance(pt, list):
                    if not isinstance(payload, dict) or sorted(payload) != sorted(x for x, _ in pt):
                        raise Bad("struct variant fields")
                    return ("var", idx, n, ("fields", [(fn, from_json(payload[fn], ft)) for fn, ft in pt]))
                return ("var", idx, n, ("new", from_json(payload, pt)))
        raise Bad("unknown variant %s of %s" % (name, ty))
    raise Bad("unknown type " + ty)


# ---- bincode reader ------------------------------------------------------------------------------------
class Bin:
    def __init__(self, b):
        self.b, self.p = b, 0

    def take(self, n):
        if self.p + n > len(self.b):
            raise Bad("bincode: truncated")
        x = self.b[self.p:self.p + n]
        self.p += n
        return x

    def read(self, ty):
        if ty == "i64":
            return ("i", struct.unpack("<q", self.take(8))[0])
        if ty == "i32":
            return ("i", struct.unpack("<i", self.take(4))[0])
        if ty in ("u64", "usize"):
            return ("u", struct.unpack("<Q", self.take(8))[0])
        if ty == "u32":
            return ("u", struct.unpack("<I", self.take(4))[0])
        if ty == "u8":
            return ("u", self.take(1)[0])
        if ty == "f64":
            b = struct.unpack("<Q", self.take(8))[0]
            return ("f", 0x7ff8000000000000 if (b & 0x7ff0000000000000) == 0x7ff0000000000000 and (b & 0xfffffffffffff) else b)
        if ty == "bool":
            x = self.take(1)[0]
            if x > 1:
                raise Bad("bincode: bool %d" % x)
            return ("b", bool(x))
        if ty == "str":
            n = struct.unpack("<Q", self.take(8))[0]
            s = self.take(n)
            s.decode("utf-8")
            return ("s", bytes(s))
        if ty.startswith("vec:") or ty.startswith("set:"):
            n = struct.unpack("<Q", self.take(8))[0]
            if n > len(self.b):
                raise Bad("bincode: length")
            xs = [self.read(ty[4:]) for _ in range(n)]
            return ("seq", sorted(xs) if ty.startswith("set:") else xs)
        if ty.startswith("map:"):
            n = struct.unpack("<Q", self.take(8))[0]
            out = []
            for _ in range(n):
                k = self.read("str")[1]
                out.append((k, self.read(ty[4:])))
            return ("map", sorted(out))
        if ty.startswith("opt:"):
            t = self.take(1)[0]
            if t == 0:
                return ("none",)
            if t != 1:
                raise Bad("bincode: option tag")
            return ("some", self.read(ty[4:]))
        if ty == "SourceLocation":
            return ("seq", [self.read("usize"), self.read("usize")])
        if ty in STRUCTS:
            return ("struct", [(n, self.read(t)) for n, t in STRUCTS[ty]])
        if ty in ENUMS:
            idx = struct.unpack("<I", self.take(4))[0]
            if idx >= len(ENUMS[ty]):
                raise Bad("bincode: variant index %d of %s" % (idx, ty))
            n, pt = ENUMS[ty][idx]
            if pt is None:
                return ("var", idx, n, None)
            if isinstance(pt, list):
                return ("var", idx, n, ("fields", [(fn, self.read(ft)) for fn, ft in pt]))
            return ("var", idx, n, ("new", self.read(pt)))
        raise Bad("unknown type " + ty)


# ---- the model's canonical text ------------------------------------------------------------------------
def from_model(text):
    toks = text.split()
    pos = 0

    def fields(close):
        nonlocal pos
        out = []
        while toks[pos] != close:
            name = bytes.fromhex(toks[pos][:-1]).decode()
            pos += 1
            out.append((name, item()))
        pos += 1
        return out

    def item():
        nonlocal pos
        t = toks[pos]
        pos += 1
        if t == "[":
            xs = []
            while toks[pos] != "]":
                xs.append(item())
            pos += 1
            return ("seq", xs)
        if t == "{":
            out = []
            while toks[pos] != "}":
                k = bytes.fromhex(toks[pos][:-1])
                pos += 1
                out.append((k, item()))
            pos += 1
            return ("map", sorted(out))
        if t == "none":
            return ("none",)
        if t == "some":
            return ("some", item())
        if t == "S(":
            return ("struct", fields(")"))
        if t.startswith("V"):
            idx, _, nm = t[1:].partition(":")
            name = bytes.fromhex(nm).decode()
            payload = None
            if pos < len(toks) and toks[pos] == "N(":
                pos += 1
                payload = ("new", item())
                if toks[pos] != ")":
                    raise Bad("model text")
                pos += 1
            elif pos < len(toks) and toks[pos] == "P(":
                pos += 1
                payload = ("fields", fields(")"))
            return ("var", int(idx), name, payload)
        if t.startswith("ff"):
            return ("f", int(t[2:], 16))
        if t[0] == "i":
            return ("i", int(t[1:]))
        if t[0] == "u":
            return ("u", int(t[1:]))
        if t in ("b0", "b1"):
            return ("b", t == "b1")
        if t[0] == "s":
            return ("s", bytes.fromhex(t[1:]))
        raise Bad("model token " + t)
    r = item()
    return r


def norm(t):
    """error messages are not modelled; parameter sets are unordered"""
    k = t[0]
    if k == "var":
        if t[2] in ("Misc", "Value", "Argument", "InvalidOp", "Runtime", "Internal") and t[3] and t[3][0] == "new" and t[3][1][0] == "s":
            return ("var", t[1], t[2], ("new", ("s", b"")))
        p = t[3]
        if p is None:
            return t
        if p[0] == "new":
            return ("var", t[1], t[2], ("new", norm(p[1])))
        return ("var", t[1], t[2], ("fields", [(n, norm(x)) for n, x in p[1]]))
    if k == "seq":
        return ("seq", [norm(x) for x in t[1]])
    if k == "map":
        return ("map", [(a, norm(b)) for a, b in t[1]])
    if k == "some":
        return ("some", norm(t[1]))
    if k == "struct":
        out = []
        for n, x in t[1]:
            x = norm(x)
            if n == "params" and x[0] == "seq":
                x = ("seq", sorted(x[1]))
            if n == "message":
                x = ("none",)
            out.append((n, x))
        return ("struct", out)
    return t


TEMPLATES = [
    "1", "-1", "9223372036854775807", "18446744073709551615u", "1.5", "2.0 / 0.0", "-2.0 / 0.0", "0.0 / 0.0", "-0.0", "5e-324",
    "true", "null", "'héllo€'", "''", "b'\\x00\\xff'", "b''", "[1, [2, [3]]]", "{'a': {'b': [1, null]}}", "{}", "[]", "int", "type(1)",
    "timestamp('2024-01-02T03:04:05.678Z')", "timestamp(0)", "timestamp(-1)", "timestamp('1969-12-31T23:59:59.999Z')",
    "timestamp('0001-01-01T00:00:00Z')", "timestamp('9999-12-31T23:59:59Z')", "timestamp('2300-01-01T00:00:00Z')",
    "duration('90s')", "duration('1ms')", "duration('-1500ms')", "duration(0)", "duration('100h')",
    "1 / 0", "1 % 0", "[1 / 0]", "x + 1", "x ? 1 : 2", "x || y && !z", "-x", "x in [1, 2]", "x[0].y", "f(x, 1)", "x.f(1)",
    "[1, 2].map(v, v * k)", "l1.filter(v, v > 1).all(w, w < 9)", "l1.reduce(a, v, a + v, 0)", "has(m1.a) ? m1.a : coalesce(zz, 3)",
    "f'{x}-{1 + 2}'", "f'plain'", "match x { case int: 1, case > 3: 2, case _: 3 }", "size('abc') + int('7')",
    "[1, 2u, 3.0, 'a', b'b', null, true, int, [1], {'k': 2}]", "{'t': timestamp(1000), 'd': duration('2s')}",
    "9223372036854775807 + 1", "'a' + 1", "[1][5]", "{'a': 1}.b", "uint(-1)", "x < y && y <= z || x == y && x != z || x >= y && x > z",
    "x + y - z * x / y % z", "x ? y ? 1 : 2 : 3", "[x, y][0]", "{'k': x}.k",
]


def run(chk):
    rng = random.Random(chk.seed)
    if not builds_or_die(chk):
        return
    quick = chk.tier == "quick"
    es = gen_sources(rng, 500 if quick else 8000, depth=(1, 5), use_unbound=0.03)
    srcs = list(TEMPLATES) + [render(e, 'min', 'one', rng) for e in es]
    # double constants (folded quotients and literals): a text format has to read back the very same double
    srcs += ["0.1 / 7u", "( 5 ? 1e-7 : d0 ) / ( 100.25 / 1.5 )", "1.0 / 3.0", "2.0 / 3.0", "0.1 + 0.2", "1e23", "5e-324", "1.7976931348623157e308",
             "2.2250738585072014e-308", "4.35", "0.000001 / 3.0", "123456789.123456789 / 7.0", "[0.1 / 7u, 1.0 / 49.0, 9007199254740993.0]"]
    # negative zero as a folded constant, observed through a division and through string()
    srcs += ["x / (0.0 * (0.0 - 1.0))", "x / (0.0 / (0.0 - 5.0))", "string(double('-0.0') * x)", "[0.0 * (0.0 - 1.0), 0.0][0] * x",
             "x / double('-0')", "1.0 / (y * (0.0 * (0.0 - 2.0)))", "x / (0.0 * 1.0)", "string(0.0 * (0.0 - 1.0))"]
    for _ in range(150 if quick else 3000):
        a = rng.choice([rng.random(), rng.uniform(-1e6, 1e6), rng.random() * 10 ** rng.randrange(-300, 300), float(rng.randrange(1, 1000))])
        b = rng.choice([float(rng.randrange(1, 100)), rng.random() + 0.5, rng.uniform(1, 1e9)])
        srcs.append("%r / %r" % (a, b))
    # (a) the implementation's own round trips
    rcases, rlabels = [], []
    for s in srcs:
        for fmt in ("json", "bincode"):
            rcases.append("serde %s %s %s" % (fmt, hx(s), binds_tokens(STD_BINDS + [("x", vi(4)), ("y", vi(7)), ("z", vi(2)), ("k", vi(3))])))
            rlabels.append((fmt, s))
    rimpl = run_impl(rcases, isolate=True)
    nrt = 0
    for c, (fmt, s), r in zip(rcases, rlabels, rimpl):
        if is_dead(r):
            chk.violation("serializing / deserializing a compiled program panics or aborts", dict(case=c, source=s, format=fmt, impl=r))
            continue
        if r.startswith("CERR"):
            continue
        nrt += 1
        if r.startswith(("SERFAIL", "DEFAIL")):
            chk.violation("a program the compiler produced cannot be %s" % ("serialized" if r.startswith("SER") else "read back"),
                          dict(case=c, source=s, format=fmt, impl=r[:300]))
        elif not r.startswith("code=true meta=true exec=true"):
            chk.violation("a deserialized program differs from the original (bytecode, source/parameters or result)",
                          dict(case=c, source=s, format=fmt, impl=r[:600]))
    chk.stream("template programs covering every value / instruction / error variant and generated programs, through JSON and "
               "bincode and back: same bytecode, source, parameters, same result under 33 bindings", len(rcases), len(srcs),
               exhaustive=False, note="%d round trips" % nrt)
    # (b) the written bytes, decoded independently, equal the model's tree
    jc = ["serform json " + hx(s) for s in srcs]
    bc = ["serform bincode " + hx(s) for s in srcs]
    jimpl = run_impl(jc, isolate=True)
    bimpl = run_impl(bc, isolate=True)
    mod = run_model(jc)
    ncmp = nun = 0
    for s, cj, cb, rj, rb, m in zip(srcs, jc, bc, jimpl, bimpl, mod):
        if is_dead(rj) or is_dead(rb) or rj.startswith("CERR"):
            continue
        if not (rj.startswith("OK ") and rb.startswith("OK ")):
            continue      # reported above
        try:
            tj = norm(from_json(json.loads(bytes.fromhex(rj[3:]).decode()), "Program"))
        except (Bad, ValueError) as e:
            chk.violation("the JSON written for a program does not have the documented shape: %s" % e,
                          dict(case=cj, source=s, impl=bytes.fromhex(rj[3:]).decode(errors="replace")[:600]))
            continue
        try:
            rd = Bin(bytes.fromhex(rb[3:]))
            tb = norm(rd.read("Program"))
            if rd.p != len(rd.b):
                raise Bad("trailing bytes")
        except (Bad, UnicodeDecodeError, struct.error) as e:
            chk.violation("the bincode written for a program does not decode with the derived layout: %s" % e,
                          dict(case=cb, source=s, impl=rb[:400]))
            continue
        if tj != tb:
            chk.violation("JSON and bincode of the same program carry different programs", dict(case=cj, source=s, json=repr(tj)[:500], bincode=repr(tb)[:500]))
            continue
        if m == "UNMOD":
            nun += 1
            continue
        if not m.startswith("OK "):
            chk.tie_broken("serialized form", dict(source=s, model=m, impl=rj[:200]))
            continue
        tm = norm(from_model(m[3:]))
        ncmp += 1
        if tm != tj:
            chk.tie_broken("serialized form", dict(source=s, model_tree=repr(tm)[:700], impl_tree=repr(tj)[:700]))
    chk.cov["model_unmodelled_cases"] = chk.cov.get("model_unmodelled_cases", 0) + nun
    chk.stream("the JSON text and the bincode bytes of each program decoded by independent schema-driven readers; both must "
               "agree with each other and with the model's serde tree of the model-compiled program", 2 * len(srcs), len(srcs),
               exhaustive=False, note="%d compared with the model (%d unmodelled)" % (ncmp, nun))
    chk.sample(dict(source=srcs[3], json=bytes.fromhex(jimpl[3][3:]).decode()[:300] if jimpl[3].startswith("OK ") else jimpl[3]))
    chk.sample(dict(source=srcs[40], roundtrip=rimpl[80][:200]))
    chk.cov["rule"] = ("templates enumerate every CelValue, ByteCode and CelError variant that a compiled program can hold; "
                       "generated programs add nesting; error messages and parameter order are not compared")


def replay(chk, rep):
    if not builds_or_die(chk):
        return
    r = run_impl([rep["case"]], isolate=True)[0]
    print("impl:", r[:800])
    c = rep["case"]
    if c.startswith("serde "):
        if is_dead(r) or (not r.startswith("CERR") and not r.startswith("code=true meta=true exec=true")):
            chk.violation(rep.get("what", "replayed"), rep)
    else:
        try:
            if c.startswith("serform json"):
                from_json(json.loads(bytes.fromhex(r[3:]).decode()), "Program")
            else:
                rd = Bin(bytes.fromhex(r[3:]))
                rd.read("Program")
        except Exception:
            chk.violation(rep.get("what", "replayed"), rep)
