"""Per-property claim texts used to generate MANIFEST.json (python3 gen/mkmanifest.py)."""
TB = ("Trusted: Coq 8.16.1 kernel; the stdlib axioms reached through Flocq's real-number theorems where a theorem mentions "
      "doubles (listed per run in the evidence); extraction with ExtrOcamlBasic; the OCaml driver; the Rust harness; the "
      "Python generators. The hand-written model (coq/Model) is tied to /repo only on the generated inputs.")
TECH = "Coq proof of model |= spec (all inputs) + extracted-model vs. implementation differential tie"

CLAIMS = {
 "C03": dict(
  text="Theorems (coq/Props/C03.v) characterise the model's + - * / % and unary - completely on every numeric operand pair (exact result of the widened pair when representable, error otherwise), on every other pair (error, except concat and time arithmetic), tie the double operations to Flocq's IEEE-754 binary64 operations, and show no result leaves its type's range. The model (coq/Model/Ops.v) is tied to rscel/src/types/cel_value.rs by running the extracted model and the implementation (debug and release builds of the current working tree) on an exhaustive boundary grid plus seeded random 64-bit operands; the extracted spec predicate is evaluated on the implementation's outputs, and literal/bound/mixed operands are compared through compile+exec.",
  note=TB),
 "C10": dict(
  text="Theorems (coq/Props/C10.v, axiom-free): every VM instruction has a fixed stack effect; a height assignment accepted by the validator is an invariant of every execution path of the block (no pop from an empty stack, joins agree, control only moves strictly forward and stays in [0,len], exactly one value at the end); the VM's jump check returns an error for every out-of-range target. The verified checker wf_code is extracted and run on the bytecode the implementation's compiler emits for every generated program (translation validation by a verified validator, hereditarily into nested blocks), the model's compiler output is compared with the implementation's, and random instruction sequences with out-of-range jumps are run on both VMs.",
  note=TB + " Not proved: the universal statement that the compiler only emits accepted code (checked per generated program instead)."),
}
