"""C05 — ||, &&, ?: and match are lazy and absorb failures by fixed rules; one truthiness."""
import itertools
import random
from streams import *

# ---- reference evaluator (the sentences of the property, written as code) -----------------
# outcome: ('v', token, truthy) | ('e',)  ; log: list of (fname, [arg tokens])

ATOMS = {
    # source: (outcome, log)
    "b1": (('v', "b1", True), []), "b0": (('v', "b0", False), []),
    "true": (('v', "b1", True), []), "false": (('v', "b0", False), []),
    "7": (('v', "i7", True), []), "0": (('v', "i0", False), []), "i1": (('v', "i5", True), []), "i0": (('v', "i0", False), []),
    "2u": (('v', "u2", True), []), "u0": (('v', "u0", False), []),
    "1.5": (('v', vf(1.5), True), []), "d0": (('v', vf(0.0), False), []), "dn": (('v', vf(float("nan")), True), []),
    "'a'": (('v', vs("a"), True), []), "s0": (('v', vs(""), False), []), "''": (('v', vs(""), False), []),
    "y1": (('v', vy(b"ab"), True), []), "y0": (('v', vy(b""), False), []),
    "l1": (('v', vlist([vi(1), vi(2), vi(3)]), True), []), "l0": (('v', vlist([]), False), []), "[]": (('v', vlist([]), False), []),
    "m1": (('v', dict(STD_BINDS)["m1"], True), []), "m0": (('v', vmap([]), False), []), "{}": (('v', vmap([]), False), []),
    "nl": (('v', VNULL, False), []), "null": (('v', VNULL, False), []),
    "t1": (('v', vtime(T1), True), []), "du1": (('v', dict(STD_BINDS)["du1"], True), []),
    "int": (('v', vtype("int"), True), []),
    "1/0": (('e',), []), "i1/i0": (('e',), []), "ub": (('e',), []), "m1.zz": (('e',), []),
    "ft()": (('v', "b1", True), [("ft", [])]), "ff()": (('v', "b0", False), [("ff", [])]),
    "fe()": (('e',), [("fe", [])]),
    "fa(7)": (('v', "i7", True), [("fa", ["i7"])]), "fa(0)": (('v', "i0", False), [("fa", ["i0"])]),
    "fa('')": (('v', vs(""), False), [("fa", [vs("")])]), "fa(l1)": (('v', vlist([vi(1), vi(2), vi(3)]), True), [("fa", [vlist([vi(1), vi(2), vi(3)])])]),
}


class OutOfOracle(Exception):
    pass


def ref(e):
    k = e[0]
    if k == 'atom':
        return ATOMS[e[1]]
    if k == 'or':
        a, la = ref(e[1])
        if a[0] == 'v' and a[2]:
            return ('v', "b1", True), la
        b, lb = ref(e[2])
        if b[0] == 'v' and b[2]:
            return ('v', "b1", True), la + lb
        if a[0] == 'e' or b[0] == 'e':
            return ('e',), la + lb
        return ('v', "b0", False), la + lb
    if k == 'and':
        a, la = ref(e[1])
        if a[0] == 'e':
            return ('e',), la
        if not a[2]:
            return ('v', "b0", False), la
        b, lb = ref(e[2])
        if b[0] == 'e':
            return ('e',), la + lb
        return ('v', vb(b[2]), b[2]), la + lb
    if k == 'tern':
        c, lc = ref(e[1])
        if c[0] == 'e':
            return ('e',), lc
        r, lr = ref(e[2] if c[2] else e[3])
        return r, lc + lr
    if k == 'not':
        a, la = ref(e[1])
        if a[0] == 'e':
            return ('e',), la
        return ('v', vb(not a[2]), not a[2]), la
    if k == 'match':
        s, ls = ref(e[1])
        log = list(ls)
        for pat, arm in e[2]:
            hit = False
            if pat[0] == 'any':
                hit = True
            elif pat[0] == 'type':
                hit = s[0] == 'v' and TYPE_OF(s[1]) == pat[1]
            else:
                p, lp = ref(pat[2])
                log += lp
                if s[0] == 'v' and p[0] == 'v' and s[1][0] == 'i' and p[1][0] == 'i':
                    x, y = int(s[1][1:]), int(p[1][1:])
                    hit = {'==': x == y, '!=': x != y, '<': x < y, '<=': x <= y, '>': x > y, '>=': x >= y}[pat[1] or '==']
                elif s[0] == 'v' and p[0] == 'v':
                    hit = (s[1] == p[1]) if (pat[1] or '==') == '==' else ((s[1] != p[1]) if pat[1] == '!=' else False)
                    if pat[1] in ('<', '<=', '>', '>=') and s[1][0] != p[1][0]:
                        hit = False      # unrelated types: the comparison fails, the case does not match
                    elif pat[1] in ('<', '<=', '>', '>='):
                        raise OutOfOracle()    # same-type non-int ordering: left to the model tie
                else:
                    hit = False
            if hit:
                r, lr = ref(arm)
                return r, log + lr
        return ('v', VNULL, False), log
    raise ValueError(k)


def TYPE_OF(tok):
    return {'i': 'int', 'u': 'uint', 'f': 'double', 'b': 'bool', 's': 'string', 'y': 'bytes', 'n': 'null',
            'L': 'list', 'M': 'map', 't': 'timestamp', 'd': 'duration', 'T': 'type'}.get(tok[0])


def src(e):
    k = e[0]
    if k == 'atom':
        return e[1]
    if k == 'or':
        return "(%s || %s)" % (src(e[1]), src(e[2]))
    if k == 'and':
        return "(%s && %s)" % (src(e[1]), src(e[2]))
    if k == 'tern':
        return "(%s ? %s : %s)" % (src(e[1]), src(e[2]), src(e[3]))
    if k == 'not':
        return "!(%s)" % src(e[1])
    if k == 'match':
        cs = []
        for pat, arm in e[2]:
            p = "_" if pat[0] == 'any' else (pat[1] if pat[0] == 'type' else ((pat[1] or "") + " " + src(pat[2])))
            cs.append("case %s: %s" % (p, src(arm)))
        return "(match %s { %s })" % (src(e[1]), ", ".join(cs))


def flat_src(e):
    """chains without redundant parentheses: a || b || c"""
    k = e[0]
    if k in ('or', 'and'):
        op = " || " if k == 'or' else " && "
        l = flat_src(e[1]) if e[1][0] in ('atom', k) else src(e[1])
        r = src(e[2])
        return l + op + r
    return src(e)


def fmt_log(log):
    return " ".join("%s n %s" % (hx(f), vlist(a)) for f, a in log)


def run(chk):
    rng = random.Random(chk.seed)
    if not builds_or_die(chk):
        return
    core = ["b1", "7", "s0", "0", "1/0", "ub", "ft()", "ff()", "fe()"]
    A = [('atom', a) for a in core]
    trees = []
    for a, b in itertools.product(A, A):
        trees += [('or', a, b), ('and', a, b)]
    for a, b, c in itertools.product(A, A, A):
        trees.append(('tern', a, b, c))
        for o1 in ('or', 'and'):
            for o2 in ('or', 'and'):
                trees.append((o2, (o1, a, b), c))
                trees.append((o2, a, (o1, b, c)))
    for a in A:
        trees.append(('not', a))
        trees.append(('not', ('not', a)))
    n_exh = len(trees)
    allatoms = [('atom', a) for a in ATOMS]

    def rnd(depth):
        if depth <= 0 or rng.random() < 0.25:
            return rng.choice(allatoms)
        k = rng.random()
        if k < 0.3:
            return ('or', rnd(depth - 1), rnd(depth - 1))
        if k < 0.6:
            return ('and', rnd(depth - 1), rnd(depth - 1))
        if k < 0.8:
            return ('tern', rnd(depth - 1), rnd(depth - 1), rnd(depth - 1))
        if k < 0.88:
            return ('not', rnd(depth - 1))
        cases = []
        for _ in range(rng.randrange(0, 4)):
            r = rng.random()
            if r < 0.25:
                pat = ('any',)
            elif r < 0.5:
                pat = ('type', rng.choice(["int", "string", "bool", "uint", "double"]))
            else:
                pat = ('cmp', rng.choice([None, '==', '!=', '<', '>=']), ('atom', rng.choice(["7", "0", "i1", "fa(7)", "fa(0)", "'a'"])))
            cases.append((pat, rnd(depth - 1)))
        return ('match', ('atom', rng.choice(["7", "0", "i1", "i0", "'a'", "fa(7)", "ub", "1/0"])), cases)
    nrand = 3000 if chk.tier == "quick" else 60000
    for _ in range(nrand):
        trees.append(rnd(rng.randrange(1, 5)))
    cases, exp, labels = [], [], []
    for t in trees:
        try:
            r, lg = ref(t)
        except OutOfOracle:
            continue
        s = flat_src(t) if rng.random() < 0.5 else src(t)
        cases.append(evalsrc_case(s))
        exp.append((r, lg))
        labels.append(s)
    impl, model = tie(chk, "logical/conditional trees", cases, labels=labels)
    for s, c, r, (w, wl) in zip(labels, cases, impl, exp):
        k, payload, log = split_result(r)
        bad = None
        if w[0] == 'e':
            if k != "ERR":
                bad = "a failing operand that is evaluated and not absorbed must make the result fail"
        else:
            if k != "OK" or payload != w[1]:
                bad = "wrong result for a lazy operator / truthiness (value expected: %s)" % w[1]
        if bad is None and log != fmt_log(wl):
            bad = "an operand was evaluated that must not be, or an operand that must be evaluated was not (call log differs)"
        if bad:
            chk.violation(bad, dict(source=s, case=c, impl=r, expected_outcome=w, expected_calls=fmt_log(wl)))
    chk.stream("all ||/&&/?:/! trees with up to 3 leaves over 9 atom kinds (truthy, falsy, failing, unbound, call-counting)",
               n_exh, n_exh, exhaustive=True)
    chk.stream("random larger trees incl. match, all value types as atoms", len(cases) - n_exh, len(set(cases[n_exh:])))
    chk.sample(dict(source=labels[100], impl=impl[100], expected=exp[100][0], calls=fmt_log(exp[100][1])))
    chk.sample(dict(source=labels[-1], impl=impl[-1], expected=exp[-1][0], calls=fmt_log(exp[-1][1])))

    # ---- operator level: or / and / not / truthiness over the whole value pool ----------------
    pool = numeric_pool() + other_pool()
    ocases, owant = [], []

    def truthy_tok(t, v):
        if t in ("int", "uint"):
            return int(v[1:]) != 0
        if t == "double":
            x = bits_f(int(v[1:], 16))
            return not (x == 0.0)
        if t == "bool":
            return v == "b1"
        if t in ("string", "bytes"):
            return len(v) > 1
        if t == "list":
            return v != "L( )" and v != "L()"
        if t == "map":
            return v != "M( )" and v != "M()"
        if t in ("type", "timestamp", "duration"):
            return True
        return False
    for (ta, a) in pool:
        ocases.append("truthy %s" % a); owant.append(vb(truthy_tok(ta, a)))
        ocases.append("unop not %s" % a); owant.append(a if ta == "err" else vb(not truthy_tok(ta, a)))
        ocases.append("ctor %s L( %s )" % (hx("bool"), a)); owant.append(None if ta == "err" else vb(truthy_tok(ta, a)))
    sub = pool[::3] + [p for p in pool if p[0] == "err"]
    for (ta, a) in sub:
        for (tb, b) in sub:
            ea, eb = ta == "err", tb == "err"
            xa, xb = (not ea) and truthy_tok(ta, a), (not eb) and truthy_tok(tb, b)
            ocases.append("binop or %s %s" % (a, b))
            owant.append("b1" if (xa or xb) else (a if ea else (b if eb else "b0")))
            ocases.append("binop and %s %s" % (a, b))
            owant.append(a if ea else (b if eb else vb(xa and xb)))
    oi, om = tie(chk, "or/and/not/truthy at operator level", ocases)
    for c, r, w in zip(ocases, oi, owant):
        if w is not None and r != w:
            chk.violation("truthiness / absorption rule violated at operator level", dict(case=c, impl=r, expected=w))
    chk.stream("truthy, !, bool(), || and && over the value pool (all pairs of a third of the pool + all error values)",
               len(ocases), len(set(ocases)), exhaustive=True)

    # ---- recorded findings: replay the witnesses ---------------------------------------------------
    kf = [("hard-error-operand:program-reference", evalsrc_case("p_err || true"), "OK b1"),
          ("hard-error-operand:call-argument", evalsrc_case("size(ub) || true"), "OK b1"),
          ("hard-error-operand:call-argument", evalsrc_case("fa(1/0) || ft()"), "OK b1"),
          ("bool-false-spellings", "ctor %s L( %s )" % (hx("bool"), vs("0")), "b1"),
          ("bool-false-spellings", "ctor %s L( %s )" % (hx("bool"), vs("false")), "b1"),
          ("bool-false-spellings", "ctor %s L( %s )" % (hx("bool"), vs("f")), "b1"),
          ("bool-false-spellings", "ctor %s L( %s )" % (hx("bool"), vs("FALSE")), "b1"),
          ("bool-false-spellings", "ctor %s L( %s )" % (hx("bool"), vs("False")), "b1")]
    kr = run_impl([c for _, c, _ in kf], isolate=True)
    for (key, c, want), r in zip(kf, kr):
        if not r.startswith(want):
            chk.violation("recorded deviation", dict(case=c, impl=r, expected=want), key=key)
    chk.cov["rule"] = ("exhaustive trees over {||, &&, ?:, !} with up to 3 leaves from 9 atom kinds, random trees of depth <= 4 "
                       "over 40 atoms of every value type incl. match; expected value AND expected call log computed by an "
                       "independent reference evaluator; distinct = distinct source text")


def replay(chk, rep):
    if not builds_or_die(chk):
        return
    r = run_impl([rep["case"]], isolate=True)[0]
    print("impl:", r, "\nexpected:", rep.get("expected_outcome") or rep.get("expected"), rep.get("expected_calls", ""))
    k, payload, log = split_result(r)
    if "expected_outcome" in rep:
        w = rep["expected_outcome"]
        bad = (k != "ERR") if w[0] == 'e' else (k != "OK" or payload != w[1])
        bad = bad or log != rep.get("expected_calls", log)
    else:
        bad = not r.startswith(str(rep.get("expected")))
    if bad:
        chk.violation(rep.get("what", "replayed"), rep)
