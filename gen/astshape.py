"""Reading the canonical text of the exposed syntax tree (harness `parse` case)
and abstracting it: shape without spans (for C02), nodes with spans (for C18)."""
import re

RNG = re.compile(r"@(\d+):(\d+)-(\d+):(\d+)")


def parse_sexp(text):
    """'(Tag@r.. child ..)' -> [head, child, ...]; atoms are strings"""
    toks = text.replace("(", " ( ").replace(")", " ) ").split()
    pos = 0

    def rd():
        nonlocal pos
        t = toks[pos]
        pos += 1
        if t == "(":
            out = []
            while toks[pos] != ")":
                out.append(rd())
            pos += 1
            return out
        return t
    r = rd()
    if pos != len(toks):
        raise ValueError("trailing text in AST")
    return r


def ranges(head):
    return [((int(a), int(b)), (int(c), int(d))) for a, b, c, d in RNG.findall(head)]


def tag(head):
    return head.split("@")[0]


RELOPS = {"Lt": "<", "Le": "<=", "Eq": "==", "Ne": "!=", "Ge": ">=", "Gt": ">", "In": "in"}
ADDOPS = {"Add": "+", "Sub": "-"}
MULOPS = {"Mult": "*", "Div": "/", "Mod": "%"}
WRAPPERS = ("EU", "OrU", "AndU", "RelU", "AddU", "MulU", "UM")


def oplist_len(n):
    k = 0
    while tag(n[0]) == "OL":
        k += 1
        n = n[1]
    return k


def shape(n, keep_parens=False):
    """abstract shape in the vocabulary of exprgen"""
    t = tag(n[0])
    if t in WRAPPERS:
        return shape(n[1], keep_parens)
    if t == "Tern":
        return ("tern", shape(n[1], keep_parens), shape(n[2], keep_parens), shape(n[3], keep_parens))
    if t == "Match":
        cases = []
        for c in n[2:]:
            p = c[1]
            pt = tag(p[0])
            if pt == "PAny":
                pat = ("any",)
            elif pt == "PType":
                pat = ("type", p[-1])
            else:
                pat = ("cmp", p[2], shape(p[3], keep_parens))
            cases.append((pat, shape(c[2], keep_parens)))
        return ("match", shape(n[1], keep_parens), cases)
    if t == "Or":
        return ("bin", "||", shape(n[1], keep_parens), shape(n[2], keep_parens))
    if t == "And":
        return ("bin", "&&", shape(n[1], keep_parens), shape(n[2], keep_parens))
    if t == "Rel":
        return ("bin", RELOPS.get(n[1], n[1]), shape(n[2], keep_parens), shape(n[3], keep_parens))
    if t == "AddB":
        return ("bin", ADDOPS.get(n[1], n[1]), shape(n[2], keep_parens), shape(n[3], keep_parens))
    if t == "MulB":
        return ("bin", MULOPS.get(n[1], n[1]), shape(n[2], keep_parens), shape(n[3], keep_parens))
    if t == "UNot":
        return ("un", "!", oplist_len(n[1]), shape(n[2], keep_parens))
    if t == "UNeg":
        return ("un", "-", oplist_len(n[1]), shape(n[2], keep_parens))
    if t == "Mem":
        cur = shape(n[1], keep_parens)
        for m in n[2:]:
            mt = tag(m[0])
            if mt == "Acc":
                cur = ("member", cur, bytes.fromhex(m[-1]).decode())
            elif mt == "Call":
                # the AST stores call arguments in reverse order
                cur = ("call", cur, [shape(a, keep_parens) for a in reversed(m[1:])])
            elif mt == "Idx":
                cur = ("index", cur, shape(m[1], keep_parens))
        return cur
    if t == "Id":
        return ("id", bytes.fromhex(n[1]).decode())
    if t == "Par":
        return ("paren", shape(n[1], keep_parens)) if keep_parens else shape(n[1], keep_parens)
    if t == "List":
        return ("list", [shape(a, keep_parens) for a in n[1:]])
    if t == "Obj":
        return ("map", [(shape(i[1], keep_parens), shape(i[2], keep_parens)) for i in n[1:]])
    if t == "Lit":
        return ("lit", n[1] if len(n) > 1 else "")
    raise ValueError("unknown AST tag " + t)


def gen_shape(e):
    """shape of a generator tree (exprgen vocabulary) with parentheses removed and literals opaque"""
    k = e[0]
    if k == "lit":
        return ("lit", None)
    if k == "id":
        return e
    if k == "paren":
        return gen_shape(e[1])
    if k == "bin":
        return ("bin", e[1], gen_shape(e[2]), gen_shape(e[3]))
    if k == "un":
        return ("un", e[1], e[2], gen_shape(e[3]))
    if k == "tern":
        return ("tern", gen_shape(e[1]), gen_shape(e[2]), gen_shape(e[3]))
    if k == "match":
        cases = []
        for pat, arm in e[2]:
            if pat[0] == "cmp":
                cases.append((("cmp", pat[1], gen_shape(pat[2])), gen_shape(arm)))
            else:
                cases.append((pat, gen_shape(arm)))
        return ("match", gen_shape(e[1]), cases)
    if k == "list":
        return ("list", [gen_shape(x) for x in e[1]])
    if k == "map":
        return ("map", [(gen_shape(a), gen_shape(b)) for a, b in e[1]])
    if k == "member":
        return ("member", gen_shape(e[1]), e[2])
    if k == "index":
        return ("index", gen_shape(e[1]), gen_shape(e[2]))
    if k == "call":
        return ("call", gen_shape(e[1]), [gen_shape(x) for x in e[2]])
    if k == "fstr":
        return ("lit", None)
    raise ValueError(k)


def opaque_lits(s):
    """make literal payloads opaque in an implementation shape"""
    if isinstance(s, tuple):
        if s and s[0] == "lit":
            return ("lit", None)
        if s and s[0] == "cmp":
            return ("cmp", None if s[1] in ("Eq",) else s[1], opaque_lits(s[2]))
        return tuple(opaque_lits(x) for x in s)
    if isinstance(s, list):
        return [opaque_lits(x) for x in s]
    return s


# ---- spans -----------------------------------------------------------------------------------

def nodes_with_spans(n, out=None, parent=None, depth=0):
    """flat list of (tag, primary range, parent index, node, all ranges)"""
    out = [] if out is None else out
    if not isinstance(n, list):
        return out
    rs = ranges(n[0])
    idx = len(out)
    out.append(dict(tag=tag(n[0]), range=rs[0] if rs else None, ranges=rs, parent=parent, node=n, depth=depth))
    for c in n[1:]:
        nodes_with_spans(c, out, idx, depth + 1)
    return out


class Src:
    """line/column (in characters) <-> offset"""

    def __init__(self, text):
        self.text = text
        self.lines = text.split("\n")
        self.starts = []
        o = 0
        for ln in self.lines:
            self.starts.append(o)
            o += len(ln) + 1

    def offset(self, lc):
        l, c = lc
        if l < 0 or l >= len(self.lines) or c < 0 or c > len(self.lines[l]):
            return None
        return self.starts[l] + c

    def slice(self, rng):
        a, b = self.offset(rng[0]), self.offset(rng[1])
        if a is None or b is None or a > b:
            return None
        return self.text[a:b]
