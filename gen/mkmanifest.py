#!/usr/bin/env python3
import json, os, sys
ROOT = os.path.dirname(os.path.dirname(os.path.abspath(__file__)))
sys.path.insert(0, os.path.join(ROOT, "gen"))
from claims import CLAIMS, TECH
props = [json.loads(l) for l in open(os.path.join(ROOT, "properties.jsonl"))]
NA = {}
if os.path.exists(os.path.join(ROOT, "gen", "not_applicable.json")):
    NA = json.load(open(os.path.join(ROOT, "gen", "not_applicable.json")))
m = dict(version=1, setup_cmd="./setup.sh",
         hooks=dict(guard="rscel_verif",
                    enable="RUSTFLAGS='--cfg rscel_verif --check-cfg cfg(rscel_verif)' when the harness (and /repo as its dependency) is built",
                    baseline_off_cmd="cd /repo && cargo test --workspace --no-fail-fast --offline",
                    source_commits=["851d6f0"], add_only=True),
         engines=[dict(name="coq-model", path="coq/", serves_properties=sorted(CLAIMS),
                       kind_free_text="Gallina model + theorems (Coq 8.16.1, Flocq), extracted to OCaml (ocaml/)"),
                  dict(name="harness", path="harness/", serves_properties=sorted(CLAIMS),
                       kind_free_text="Rust driver over rscel's public API, rebuilt from /repo's working tree on every check")],
         checks=[], notes="See DESIGN.md. `./check <ID> --tier quick|thorough`; VERIF_SEED and VERIF_TIER honoured.",
         not_applicable=[])
for p in props:
    pid = p["id"]
    if pid in CLAIMS:
        c = CLAIMS[pid]
        m["checks"].append(dict(property_id=pid, quick_cmd="./check %s --tier quick" % pid,
                                thorough_cmd="./check %s --tier thorough" % pid,
                                evidence_file="evidence/%s.json" % pid,
                                replay_cmd_template="./check %s --replay {path}" % pid, engine="coq-model",
                                level_claimed=dict(category="proof", text=c["text"], design_ref="DESIGN.md section 6 %s" % pid),
                                level_note=c["note"], technique=c.get("tech", TECH)))
    else:
        m["not_applicable"].append(dict(property_id=pid, reason=NA.get(pid, "check not built yet (work in progress; it will be claimed once its model, theorems and tie exist)")))
json.dump(m, open(os.path.join(ROOT, "MANIFEST.json"), "w"), indent=1)
print("claimed:", sorted(CLAIMS))
