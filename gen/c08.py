"""C08 — has() and coalesce() distinguish absent data from every other failure."""
import itertools
import random
from streams import *


def nested(depth, leaf):
    """map nested `depth` levels deep under keys f1..fn with `leaf` at the end"""
    v = leaf
    for i in range(depth, 0, -1):
        v = vmap([("f%d" % i, v)])
    return v


def run(chk):
    rng = random.Random(chk.seed)
    if not builds_or_die(chk):
        return
    cases, want, labels = [], [], []

    def add(src, binds, w):
        cases.append(evalsrc_case(src, binds=binds))
        want.append(w)
        labels.append("%s  [%s]" % (src, ", ".join(k for k, _ in binds)))

    # field paths of depth 0..4 x six configurations
    for depth in range(0, 5):
        path = "r" + "".join(".f%d" % i for i in range(1, depth + 1))
        idx = "r" + "".join("['f%d']" % i for i in range(1, depth + 1))
        configs = [("present", [("r", nested(depth, vi(7)))], True, "OK " + vi(7)),
                   ("leaf-null", [("r", nested(depth, VNULL))], True, "OK n"),
                   ("root-unbound", [], False, None)]
        if depth >= 1:
            configs.append(("leaf-missing", [("r", nested(depth - 1, vmap([("other", vi(1))])))], False, None))
            configs.append(("leaf-parent-not-a-map", [("r", nested(depth - 1, vi(3)))], False, None))
        if depth >= 2:
            configs.append(("intermediate-missing", [("r", nested(depth - 2, vmap([])))], False, None))
            configs.append(("intermediate-not-a-map", [("r", nested(depth - 2, vs("str")))], False, None))
        for name, binds, present, val in configs:
            for p in (path, idx) if depth else (path,):
                if p == idx and name in ("leaf-parent-not-a-map", "intermediate-not-a-map"):
                    continue          # index on a non-map is a Value error, not absent data
                add("has(%s)" % p, binds, "OK " + vb(present))
                add("[1].map(q, has(%s))[0]" % p, binds, "OK " + vb(present))
                add("has(%s) ? 1 : 2" % p, binds, "OK " + vi(1 if present else 2))
                if val is not None:
                    add("coalesce(%s, 99)" % p, binds, val if val != "OK n" else "OK " + vi(99))
                else:
                    add("coalesce(%s, 99)" % p, binds, "OK " + vi(99))
                    add("coalesce(%s)" % p, binds, "OK n")
    n_paths = len(cases)
    # other failures are propagated
    for src in ["has(1 / 0)", "has(i1 / i0)", "has([1][5])", "has(-'a')", "has(1 + 'a')", "has(int('x'))",
                "has(m1['a']['b'])", "has(x, y)", "has()", "has(1 < 'a')", "has((1 / 0).b)", "has((i1 / i0).b.c)",
                "has(nosuch(1))", "has(x(1))", "has([1].map(v, nosuch(v)))", "coalesce(nosuch(1), 2)",
                "coalesce(zz, m1.q, x(1), 3)", "has((1 / 0).size())", "has([1][3].b)", "coalesce((1 / 0).b, 2)",
                "[1, 2].map(v, has(nosuch(v)))"]:
        add(src, [("i1", vi(5)), ("i0", vi(0)), ("m1", vmap([("a", vi(1))])), ("x", vi(1)), ("y", vi(2))], "ERRANY")
    for src, w in [("has(1)", "OK b1"), ("has(null)", "OK b1"), ("has(false)", "OK b1"), ("has(m1.a)", "OK b1"),
                   ("has(m1.b)", "OK b0"), ("has(m1['b'])", "OK b0"), ("has(zz)", "OK b0"), ("has(m1) && has(m1.a)", "OK b1"),
                   # absent data as the RECEIVER of a method or macro call: still absent data, whatever is called on it
                   ("has(m1.b.size())", "OK b0"), ("has(zz.size())", "OK b0"), ("has(m1.b.map(v, v))", "OK b0"),
                   ("has(m1.b.contains('a'))", "OK b0"), ("coalesce(m1.b.size(), 7)", "OK " + vi(7)),
                   ("[1, 2].map(i, has(m1.b.size()))", "OK " + vlist([vb(False), vb(False)])), ("has(m1.b.c.toUpper())", "OK b0"),
                   ("has(zz.filter(v, true))", "OK b0"), ("has(m1.b.all(v, v))", "OK b0"), ("coalesce(zz.trim(), m1.b.size(), 3)", "OK " + vi(3)),
                   ("has(m1.b.reduce(a, v, a, 0))", "OK b0"), ("has(zz.exists(v, true))", "OK b0"), ("has(m1.b.getHours())", "OK b0"),
                   ("has(m1.a.size())", "ERRANY"), ("has(m1.a.map(v, v))", "ERRANY")]:
        add(src, [("m1", vmap([("a", vi(1))]))], w)
    # absent data in CONSTANT maps (the compiler folds the lookup to an error constant): still absent data
    for src, w in [("coalesce({'a': 1}['b'], 5)", "OK " + vi(5)), ("coalesce({'a': 1}.b, 5)", "OK " + vi(5)),
                   ("coalesce(null, {'a': 1}['b'], 7)", "OK " + vi(7)), ("[1, 2].map(i, coalesce({'a': 1}['b'], i))", "OK " + vlist([vi(1), vi(2)])),
                   ("has({'a': 1}['b'])", "OK b0"), ("has({'a': 1}.b)", "OK b0"), ("coalesce({'a': {'c': 1}}['a']['z'], 9)", "OK " + vi(9)),
                   ("coalesce({'a': {'c': 1}}.a.z, 9)", "OK " + vi(9)), ("coalesce({'a': 1}['b'])", "OK n"), ("has({'a': 1}['a'])", "OK b1"),
                   ("coalesce({'a': null}['a'], 3)", "OK " + vi(3)), ("coalesce({'a': 1}['b'], {'a': 1}['c'], {'a': 1}['a'])", "OK " + vi(1)),
                   ("coalesce({'a': 1}['b'], 1 / 0)", "ERRANY"), ("coalesce([1][5], 2)", "ERRANY"), ("coalesce({'a': 1}[0], 2)", "ERRANY"),
                   ("coalesce(m1['zz'], {'a': 1}['b'], 4)", "OK " + vi(4)), ("has({'a': 1}['b']) || coalesce({}['k'], true)", "OK b1")]:
        cases.append(evalsrc_case(src, binds=[("m1", vmap([("a", vi(1))]))], std=False))
        want.append(w)
        labels.append(src + "  [constant map]")
    # a bare name resolves like anywhere else: a type name, a bound variable, or another program of the same context
    progs = [("limit", "5"), ("ratio", "1 / 0"), ("nothing", "null"), ("alias", "limit"), ("missing", "zz9")]
    for src, w in [("has(limit)", "OK b1"), ("has(ratio)", "ERRANY"), ("has(nothing)", "OK b1"), ("has(alias)", "OK b1"),
                   ("has(missing)", "OK b0"), ("has(int)", "OK b1"), ("has(timestamp)", "OK b1"), ("has(v1)", "OK b1"), ("has(zz)", "OK b0"),
                   ("coalesce(limit, 99)", "OK " + vi(5)), ("coalesce(ratio, 1)", "ERRANY"), ("coalesce(nothing, 99)", "OK " + vi(99)),
                   ("coalesce(alias, 99)", "OK " + vi(5)), ("coalesce(missing, 99)", "OK " + vi(99)), ("coalesce(zz, limit)", "OK " + vi(5)),
                   ("coalesce(v1, 99)", "OK " + vi(3)), ("[1, 2].map(i, has(limit) ? limit + i : 0)", "OK " + vlist([vi(6), vi(7)])),
                   ("[1].map(i, coalesce(missing, limit))", "OK " + vlist([vi(5)])), ("has(limit) && !has(missing)", "OK b1"),
                   ("[0].map(i, has(ratio))", "ERRANY"), ("type(coalesce(int, 1)) == type", "OK b1")]:
        cases.append(evalsrc_case(src, progs=progs, binds=[("v1", vi(3))], std=False))
        want.append(w)
        labels.append(src + " with sibling programs")
    n_has = len(cases)
    # coalesce: argument lists of length 0..5 mixing present / null / absent / failing, with call counting
    kinds = {"P": ("fa(%d)", lambda i: ("val", vi(i))), "N": ("null", lambda i: ("skip", None)),
             "A": ("ub%d", lambda i: ("skip", None)), "M": ("m1.z%d", lambda i: ("skip", None)),
             "F": ("fa(%d) / 0", lambda i: ("fail", None)), "V": ("%d", lambda i: ("val", vi(i)))}
    for n in range(0, 6):
        combos = list(itertools.product("PNAMFV", repeat=n))
        if n >= 4 and chk.tier == "quick":
            rng.shuffle(combos)
            combos = combos[:300]
        for combo in combos:
            args, log, res = [], [], None
            for i, kch in enumerate(combo):
                fmt, f = kinds[kch]
                args.append(fmt % (i + 1) if "%d" in fmt else fmt)
            for i, kch in enumerate(combo):
                kind, v = kinds[kch][1](i + 1)
                if kch in "PF":
                    log.append(("fa", [vi(i + 1)]))
                if kind == "val":
                    res = "OK " + v
                    break
                if kind == "fail":
                    res = "ERRANY"
                    break
            if res is None:
                res = "OK n"
            cases.append(evalsrc_case("coalesce(%s)" % ", ".join(args), binds=[("m1", vmap([("a", vi(1))]))]))
            want.append((res, " ".join("%s n %s" % (hx(f), vlist(a)) for f, a in log)))
            labels.append("coalesce(%s)" % ", ".join(args))
    # recorded finding: an absent field whose name is also a built-in function yields an internal error
    kf = [("absent-field-named-like-builtin", evalsrc_case("has(m1.size)", binds=[("m1", vmap([("a", vi(1))]))]), "OK b0")]
    for (key, c, w), r in zip(kf, run_impl([c for _, c, _ in kf], isolate=True)):
        if not r.startswith(w):
            chk.violation("recorded deviation", dict(case=c, impl=r, expected=w), key=key)
    impl, model = tie(chk, "has/coalesce", cases, labels=labels)
    for lab, c, r, w in zip(labels, cases, impl, want):
        k, payload, log = split_result(r)
        wl = None
        if isinstance(w, tuple):
            w, wl = w
        if w == "ERRANY":
            ok = k == "ERR"
        else:
            ok = r.startswith(w + " ") or r == w
        if ok and wl is not None and log != wl:
            ok = False
        if not ok:
            chk.violation("has/coalesce does not classify absent data vs. other failures as specified, or evaluates "
                          "arguments after the chosen one", dict(source=lab, case=c, impl=r, expected=w, expected_calls=wl))
    chk.stream("has/coalesce over field paths of depth 0..4 x binding configurations (dot and index form, top level, "
               "macro body, condition)", n_paths, n_paths, exhaustive=True)
    chk.stream("has on other failures and arity", n_has - n_paths, n_has - n_paths, exhaustive=True)
    chk.stream("coalesce argument lists of length 0..5 over {present, literal, null, unbound, missing field, failing} with "
               "call counting", len(cases) - n_has, len(set(cases[n_has:])), exhaustive=(chk.tier == "thorough"))
    chk.sample(dict(source=labels[20], impl=impl[20], expected=want[20]))
    chk.sample(dict(source=labels[-1], impl=impl[-1], expected=want[-1]))
    chk.cov["rule"] = ("every path depth 0..4 crossed with the configurations root unbound / intermediate missing / leaf missing / "
                       "leaf null / leaf present / intermediate not a map; coalesce lists enumerate all kind sequences up to "
                       "length 3 (quick) or 5 (thorough); expected outcome and call log computed independently")


def replay(chk, rep):
    if not builds_or_die(chk):
        return
    r = run_impl([rep["case"]], isolate=True)[0]
    print("impl:", r, "\nexpected:", rep.get("expected"), rep.get("expected_calls"))
    k, payload, log = split_result(r)
    w = rep.get("expected")
    ok = (k == "ERR") if w == "ERRANY" else (r.startswith(w + " ") or r == w)
    if ok and rep.get("expected_calls") is not None and log != rep["expected_calls"]:
        ok = False
    if not ok:
        chk.violation(rep.get("what", "replayed"), rep)
