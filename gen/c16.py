"""C16 — time arithmetic, calendar accessors, zones and unit conversion are consistent.

Oracles: Python integers for the arithmetic laws and ranges; an independent civil
calendar (400-year cycle folded onto datetime's range) for the UTC fields; the
system time-zone database (zoneinfo) for the zoned fields; exact unit definitions
for uomConvert.  The model covers instants, durations, UTC and fixed-offset zones."""
import datetime
import random
import zoneinfo
from fractions import Fraction
from streams import *

LEVEL_NOTE = ("theorems: the civil calendar inverts the day count for every day (400-year sweep lifted by periodicity), field "
              "ranges, instant = fields, duration parts, arithmetic laws on instants and durations, zone-less = UTC; tie on "
              "instants/durations/fixed-offset zones; zoneinfo and unit-definition oracles for the rest")

TMIN = -8334601228800 * 10 ** 9
TMAX = 8210266876799 * 10 ** 9 + 999999999
DMAX = 9223372036854775807 * 10 ** 6
ACCS = ["getDate", "getDayOfMonth", "getDayOfWeek", "getDayOfYear", "getFullYear", "getHours", "getMilliseconds", "getMinutes",
        "getMonth", "getSeconds"]
EPOCH = datetime.datetime(1970, 1, 1, tzinfo=datetime.timezone.utc)


def utc_fields(ns):
    """independent of the model: fold the day onto 2000..2399 by whole 400-year cycles and ask datetime"""
    secs, sub = divmod(ns, 10 ** 9)
    days, sod = divmod(secs, 86400)
    base = datetime.date(2000, 1, 1).toordinal() - datetime.date(1970, 1, 1).toordinal()    # days 1970 -> 2000
    cyc, rem = divmod(days - base, 146097)
    d = datetime.date.fromordinal(datetime.date(2000, 1, 1).toordinal() + rem)
    year = d.year + 400 * cyc
    return dict(getDate=d.day, getDayOfMonth=d.day - 1, getDayOfWeek=(d.weekday() + 1) % 7,
                getDayOfYear=d.timetuple().tm_yday - 1, getFullYear=year, getHours=sod // 3600, getMilliseconds=sub // 10 ** 6,
                getMinutes=sod % 3600 // 60, getMonth=d.month - 1, getSeconds=sod % 60)


def zone_fields(ns, zone):
    secs, sub = divmod(ns, 10 ** 9)
    dt = (EPOCH + datetime.timedelta(seconds=secs)).astimezone(zoneinfo.ZoneInfo(zone))
    return dict(getDate=dt.day, getDayOfMonth=dt.day - 1, getDayOfWeek=(dt.weekday() + 1) % 7 + 1,     # recorded finding: one-based
                getDayOfYear=dt.timetuple().tm_yday - 1, getFullYear=dt.year, getHours=dt.hour, getMilliseconds=sub // 10 ** 6,
                getMinutes=dt.minute, getMonth=dt.month - 1, getSeconds=dt.second)


def tquot(a, b):
    q = abs(a) // abs(b)
    return q if (a >= 0) == (b >= 0) else -q


MASS = {"kg": Fraction(1), "g": Fraction(1, 1000), "mg": Fraction(1, 10 ** 6), "lb": Fraction(45359237, 10 ** 8),
        "oz": Fraction(45359237, 16 * 10 ** 8), "stone": Fraction(14 * 45359237, 10 ** 8), "ton": Fraction(1000)}
VOLUME = {"l": Fraction(1, 1000), "ml": Fraction(1, 10 ** 6), "m3": Fraction(1), "gal": Fraction(3785411784, 10 ** 12),
          "qt": Fraction(946352946, 10 ** 12), "pt": Fraction(473176473, 10 ** 12), "cup": Fraction(2365882365, 10 ** 13),
          "ft3": Fraction(28316846592, 10 ** 12)}
SPEED = {"m/s": Fraction(1), "km/h": Fraction(1000, 3600), "mph": Fraction(1609344, 3600 * 1000), "kn": Fraction(1852, 3600),
         "ft/s": Fraction(3048, 10000)}
ALIASES = {"kg": ["kilogram", "Kilograms", " KG "], "lb": ["lbs", "pound", "pounds"], "l": ["liter", "litres"], "mph": ["miles per hour"],
           "km/h": ["kph"], "c": ["celsius", "°C", "C"], "f": ["fahrenheit", "°F"], "k": ["kelvin", "K"]}


def run(chk):
    rng = random.Random(chk.seed)
    if not builds_or_die(chk):
        return
    quick = chk.tier == "quick"
    cases, want, labels = [], [], []

    def add(src, binds, w, lab=None):
        cases.append(evalsrc_case(src, binds=binds, ufuncs=[], std=False))
        want.append(w)
        labels.append(lab or ("%s [%s]" % (src, ", ".join("%s=%s" % kv for kv in binds))))

    # ---- arithmetic ------------------------------------------------------------------------------------------
    def rt(): return rng.choice([0, -1, 1, TMIN, TMAX, TMIN + 1, TMAX - 1, T1, rng.randrange(TMIN, TMAX), rng.randrange(-10 ** 18, 10 ** 18),
                                 rng.randrange(-62135596800, 253402300800) * 10 ** 9 + rng.randrange(10 ** 9)])

    def rd(): return rng.choice([0, 1, -1, 10 ** 9, -10 ** 9, DMAX, -DMAX, DMAX - 1, 86400 * 10 ** 9, rng.randrange(-DMAX, DMAX),
                                 rng.randrange(-10 ** 15, 10 ** 15), rng.randrange(-10 ** 10, 10 ** 10)])
    for _ in range(400 if quick else 6000):
        t, t2, d, d2 = rt(), rt(), rd(), rd()
        tin = lambda x: TMIN <= x <= TMAX
        din = lambda x: -DMAX <= x <= DMAX
        add("t + d", [("t", vtime(t)), ("d", vdur(d))], "OK " + vtime(t + d) if tin(t + d) else "ERR Eval")
        add("d + t", [("t", vtime(t)), ("d", vdur(d))], "OK " + vtime(t + d) if tin(t + d) else "ERR Eval")
        add("t - d", [("t", vtime(t)), ("d", vdur(d))], "OK " + vtime(t - d) if tin(t - d) else "ERR Eval")
        add("(t + d) - d == t", [("t", vtime(t)), ("d", vdur(d))], "OK b1" if tin(t + d) else "ERR Eval")
        add("t - t2", [("t", vtime(t)), ("t2", vtime(t2))], "OK " + vdur(t - t2) if din(t - t2) else "ERRANY")
        if din(t - t2):
            add("(t - t2) + t2 == t", [("t", vtime(t)), ("t2", vtime(t2))], "OK b1")
        add("d + d2", [("d", vdur(d)), ("d2", vdur(d2))], "OK " + vdur(d + d2) if din(d + d2) else "ERR Eval")
        add("d + d2 - d2 == d", [("d", vdur(d)), ("d2", vdur(d2))], "OK b1" if din(d + d2) else "ERR Eval")
        add("[t < t2, t <= t2, t == t2, t > t2]", [("t", vtime(t)), ("t2", vtime(t2))],
            "OK " + vlist([vb(t < t2), vb(t <= t2), vb(t == t2), vb(t > t2)]))
        add("[d < d2, d == d2, d >= d2]", [("d", vdur(d)), ("d2", vdur(d2))], "OK " + vlist([vb(d < d2), vb(d == d2), vb(d >= d2)]))
    n_ar = len(cases)
    # ---- UTC fields --------------------------------------------------------------------------------------------
    def at(y, mo, dd, h=0, mi=0, s=0, ns=0):
        """ns of a civil UTC date for any year (folded)"""
        cyc, yy = divmod(y - 2000, 400)
        days = datetime.date(2000 + yy, mo, dd).toordinal() - datetime.date(1970, 1, 1).toordinal() + cyc * 146097
        return ((days * 86400 + h * 3600 + mi * 60 + s) * 10 ** 9) + ns
    insts = [0, -1, 1, T1, TMIN, TMAX]
    for y in [1, 4, 100, 400, 1582, 1600, 1700, 1899, 1900, 1969, 1970, 1972, 1999, 2000, 2001, 2023, 2024, 2038, 2100, 2400, 9999,
              10000, 100000, 262000, -1, 0, -4, -400, -262000]:
        for (mo, dd) in [(1, 1), (2, 28), (3, 1), (12, 31), (6, 15)]:
            insts.append(at(y, mo, dd, rng.randrange(24), rng.randrange(60), rng.randrange(60), rng.randrange(10 ** 9)))
        if (y % 4 == 0 and y % 100 != 0) or y % 400 == 0:
            insts.append(at(y, 2, 29, 23, 59, 59, 999999999))
    insts = [t for t in insts if TMIN <= t <= TMAX]
    insts += [rng.randrange(TMIN, TMAX) for _ in range(150 if quick else 3000)]
    insts += [rng.randrange(-62135596800, 253402300800) * 10 ** 9 + rng.randrange(10 ** 9) for _ in range(150 if quick else 3000)]
    for t in insts:
        f = utc_fields(t)
        for a in ACCS:
            add("t.%s()" % a, [("t", vtime(t))], "OK " + vi(f[a]))
        a = rng.choice(ACCS)
        z = rng.choice(["UTC", "Etc/UTC", "GMT", "Zulu"])
        add("t.%s(z)" % a, [("t", vtime(t)), ("z", vs(z))], "OK " + vi(f[a] + (1 if a == "getDayOfWeek" else 0)))
        add("t.%s() == t.%s('UTC')" % (a, a), [("t", vtime(t))], "OK " + vb(a != "getDayOfWeek"),
            "zone-less equals UTC: %s at %d" % (a, t))
    n_utc = len(cases)
    # ---- zones ----------------------------------------------------------------------------------------------------
    zones = sorted(zoneinfo.available_timezones())
    zones = [z for z in zones if not z.startswith(("posix/", "right/")) and z not in ("localtime", "Factory", "posixrules")]
    fixed = [at(2010, 1, 15, 12), at(2010, 7, 15, 12), at(2015, 3, 1, 0, 30), at(2012, 12, 31, 23, 59, 59)]   # years on which tz database releases agree
    dst = [at(2018, 3, 11, 9, 59, 59), at(2018, 3, 11, 10), at(2018, 3, 11, 18), at(2018, 11, 4, 8, 59, 59), at(2018, 11, 4, 9), at(2018, 11, 4, 20),
           at(2018, 3, 25, 0, 59, 59), at(2018, 3, 25, 1), at(2018, 3, 25, 23, 30), at(2018, 10, 28, 0, 59, 59), at(2018, 10, 28, 1),
           at(2018, 10, 28, 12), at(2018, 4, 1, 2), at(2018, 10, 7, 3), at(2018, 3, 31, 23, 30), at(2018, 9, 30, 15)]
    majors = ["America/New_York", "America/Los_Angeles", "America/Chicago", "America/Denver", "America/Sao_Paulo", "America/Halifax",
              "America/St_Johns", "Europe/London", "Europe/Berlin", "Europe/Paris", "Europe/Moscow", "Europe/Lisbon", "Asia/Tokyo",
              "Asia/Kolkata", "Asia/Kathmandu", "Asia/Tehran", "Asia/Shanghai", "Australia/Sydney", "Australia/Adelaide",
              "Australia/Lord_Howe", "Pacific/Auckland", "Pacific/Chatham", "Pacific/Kiritimati", "Pacific/Honolulu", "Africa/Cairo",
              "Africa/Johannesburg", "US/Pacific", "US/Eastern", "Etc/GMT+5", "Etc/GMT-14", "Etc/GMT+12", "UTC"]
    zcases = []
    for z in zones:
        for t in (rng.sample(fixed, 2) if quick else fixed):
            zcases.append((z, t))
    for z in majors:
        for t in dst:
            zcases.append((z, t))
    # offsets that are not whole minutes: local mean time before the standard zones (these entries of the database do
    # not change between releases) and Liberia until 1972 (-0:44:30): every accessor, hours/minutes/seconds included
    odd = set()
    for z in ["America/New_York", "America/Los_Angeles", "America/Chicago", "America/Sao_Paulo", "Europe/London", "Europe/Berlin",
              "Europe/Paris", "Europe/Moscow", "Asia/Tokyo", "Asia/Shanghai", "Australia/Sydney", "Pacific/Auckland", "Africa/Cairo",
              "Africa/Johannesburg", "Pacific/Honolulu"]:
        for t in (at(1850, 6, 1, 12), at(1850, 12, 31, 23, 59, 59), at(1801, 1, 1, 0, 0, 1)):
            zcases.append((z, t)); odd.add((z, t))
    for t in (at(1970, 1, 1), at(1971, 12, 31, 23, 59, 59), at(1960, 2, 29, 0, 44, 29)):
        zcases.append(("Africa/Monrovia", t)); odd.add(("Africa/Monrovia", t))
    nzone = 0
    for z, t in zcases:
        try:
            f = zone_fields(t, z)
        except Exception:
            continue
        nzone += 1
        for a in (rng.sample(ACCS, 3) if quick and (z, t) not in odd else ACCS):
            add("t.%s(z)" % a, [("t", vtime(t)), ("z", vs(z))], "OK " + vi(f[a]), "%s(%s) at %d" % (a, z, t))
    for z in ["Nowhere/City", "", "utc ", "UTC+1", "+01:00", "Mars/Olympus", "Europe", "America/", "EST5EDTX", "12345"]:
        add("t.getHours(z)", [("t", vtime(T1)), ("z", vs(z))], "ERRANY", "unknown zone %r" % z)
    n_zone = len(cases)
    # ---- duration parts ---------------------------------------------------------------------------------------------
    for d in [0, 1, -1, 999999, 10 ** 6, -10 ** 6, 10 ** 9 - 1, 10 ** 9, -10 ** 9, -10 ** 9 - 1, 3599 * 10 ** 9, 3600 * 10 ** 9, -3600 * 10 ** 9 - 1,
              90 * 10 ** 9 + 500 * 10 ** 6, -(90 * 10 ** 9 + 500 * 10 ** 6), DMAX, -DMAX] + [rd() for _ in range(200 if quick else 3000)]:
        add("d.getHours()", [("d", vdur(d))], "OK " + vi(tquot(d, 3600 * 10 ** 9)))
        add("d.getMinutes()", [("d", vdur(d))], "OK " + vi(tquot(d, 60 * 10 ** 9)))
        add("d.getSeconds()", [("d", vdur(d))], "OK " + vi(tquot(d, 10 ** 9)))
        rem = d - tquot(d, 10 ** 9) * 10 ** 9
        add("d.getMilliseconds()", [("d", vdur(d))], "OK " + vi(tquot(rem, 10 ** 6)))
    for a in ["getDate", "getMonth", "getFullYear", "getDayOfWeek", "getDayOfYear", "getDayOfMonth"]:
        add("d.%s()" % a, [("d", vdur(5))], "ERRANY", "calendar accessor on a duration")
    n_dur = len(cases)
    # ---- units -----------------------------------------------------------------------------------------------------
    ucases, uwant, ulabels = [], [], []

    def uadd(src, binds, w, lab):
        ucases.append(evalsrc_case(src, binds=binds, ufuncs=[], std=False))
        uwant.append(w)
        ulabels.append(lab)
    for table in (MASS, VOLUME, SPEED):
        for a in table:
            for b in table:
                for _ in range(2 if quick else 8):
                    x = rng.choice([0.0, 1.0, 2.5, 1000.0, rng.uniform(-1e6, 1e6), rng.uniform(0, 10)])
                    exp = float(Fraction(x) * table[a] / table[b])
                    uadd("uomConvert(x, a, b)", [("x", vf(x)), ("a", vs(a)), ("b", vs(b))], ("F", exp), "%r %s -> %s" % (x, a, b))
                    uadd("uomConvert(uomConvert(x, a, b), b, a)", [("x", vf(x)), ("a", vs(a)), ("b", vs(b))], ("F", x), "%r %s -> %s -> %s" % (x, a, b, a))
            uadd("uomConvert(x, a, a)", [("x", vf(3.25)), ("a", vs(a))], ("F", 3.25), "identity " + a)
            uadd("uomConvert(7, a, a)", [("a", vs(a))], ("F", 7.0), "identity int " + a)
            uadd("uomConvert(7u, a, a)", [("a", vs(a))], ("F", 7.0), "identity uint " + a)
    for x, c in [(0.0, 32.0), (100.0, 212.0), (-40.0, -40.0), (37.0, 98.6)]:
        uadd("uomConvert(x, 'c', 'f')", [("x", vf(x))], ("F", c), "%r C -> F" % x)
        uadd("uomConvert(x, 'f', 'c')", [("x", vf(c))], ("F", x), "%r F -> C" % c)
        uadd("uomConvert(x, 'c', 'k')", [("x", vf(x))], ("F", x + 273.15), "%r C -> K" % x)
    for base, als in ALIASES.items():
        for al in als:
            uadd("uomConvert(2.0, a, b) == uomConvert(2.0, b, b)", [("a", vs(al)), ("b", vs(base))], "OK b1", "alias %r of %s" % (al, base))
    for a, b in [("kg", "l"), ("l", "mph"), ("c", "kg"), ("mph", "k"), ("kg", "furlong"), ("parsec", "kg"), ("", "kg"), ("kg", ""),
                 # both unknown: the same spelling twice, two different ones, empty
                 ("furlong", "lightyear"), ("parsec", "parsec"), ("", ""), ("x", "x"), ("kgg", "kgg"), ("furlong", "parsec"),
                 ("zz", "zz"), ("k g", "k g")]:
        uadd("uomConvert(1.0, a, b)", [("a", vs(a)), ("b", vs(b))], "ERRANY", "incompatible or unknown %r -> %r" % (a, b))
    uimpl = run_impl(ucases, isolate=True)
    for lab, c, r, w in zip(ulabels, ucases, uimpl, uwant):
        if is_dead(r):
            chk.violation("uomConvert panics/aborts", dict(case=c, label=lab, impl=r))
            continue
        k, payload, _ = split_result(r)
        key = None
        if w == "ERRANY":
            ok = k == "ERR"
        elif isinstance(w, tuple):
            ok = k == "OK" and payload.startswith("f")
            if ok:
                got = bits_f(int(payload[1:], 16))
                err = abs(got - w[1]) / max(1.0, abs(w[1]))
                ok = err <= 1e-9
                if not ok and err <= 1e-6:
                    key = "uom-rounded-unit-constants"
            w = "OK f~%r" % w[1]
        else:
            ok = ("%s %s" % (k, payload)) == w
        if not ok:
            chk.violation("uomConvert is not the identity / invertible / in agreement with the unit definitions, or accepts "
                          "incompatible units", dict(case=c, label=lab, impl=r, expected=w), key=key)
    chk.stream("uomConvert over all unit pairs within mass / volume / speed and temperature fixed points (relative tolerance "
               "1e-9 against exact rational definitions), inverses, identities, aliases, incompatible and unknown units",
               len(ucases), len(ucases), exhaustive=False)
    # ---- run ---------------------------------------------------------------------------------------------------------
    impl, model = tie(chk, "time", cases, labels=labels)
    for lab, c, r, w in zip(labels, cases, impl, want):
        if is_dead(r):
            continue
        k, payload, _ = split_result(r)
        ok = (k == "ERR") if w == "ERRANY" else ("%s %s" % (k, payload)) == w
        if not ok:
            key = None
            chk.violation("time arithmetic / calendar accessor / zone handling disagrees with the civil calendar and the laws",
                          dict(case=c, label=lab, impl=r, expected=w), key=key)
    chk.stream("arithmetic laws and ordering on instants and durations (boundaries of both ranges, random)", n_ar, n_ar, exhaustive=False)
    chk.stream("UTC fields of boundary years (1, 1582, 1900, 2000, 2100, 9999, +-262000), leap days, random instants over the "
               "whole range; zone-less = UTC", n_utc - n_ar, len(insts), exhaustive=False)
    chk.stream("every IANA zone of the system database at fixed instants; 32 major zones at 16 instants around DST transitions; "
               "invalid names", n_zone - n_utc, nzone, exhaustive=False)
    chk.stream("duration parts (truncation toward zero, signed millisecond part); calendar accessors rejected on durations",
               n_dur - n_zone, n_dur - n_zone, exhaustive=False)
    # ---- an unknown zone fails every time: whatever zone was resolved before it, how often it is asked for, through which
    # accessor, and whether the receiver is a constant the compiler tried to fold first (one process, in this order)
    hseq, hwant = [], []

    def hadd(src, binds, ok):
        hseq.append(evalsrc_case(src, binds=binds, ufuncs=[], std=False)); hwant.append(ok)
    tb = [("t", vtime(T1))]
    for z in ["Mars/Olympus_Mons", "Bogus/Zone", "Europe/Pariss", "utc ", ""]:
        zb = tb + [("z", vs(z))]
        hadd("t.getHours('UTC')", tb, True)
        hadd("t.getHours(z)", zb, False); hadd("t.getHours(z)", zb, False); hadd("t.getMinutes(z)", zb, False)
        hadd("timestamp(0).getHours('%s')" % z, tb, False); hadd("timestamp(0).getHours('%s')" % z, tb, False)
        hadd("t.getFullYear('Europe/Paris')", tb, True)
        hadd("t.getDate(z)", zb, False); hadd("t.getDate(z)", zb, False); hadd("[t.getHours(z), 1].size()", zb, True)
        hadd("t.getHours(z)", zb, False)
        hadd("t.getHours('America/New_York') + t.getHours('Asia/Tokyo')", tb, True)
        hadd("t.getSeconds(z)", zb, False)
    assert len(hseq) < 200
    hres = run_impl(hseq, isolate=True)
    for c_, ok_, r_ in zip(hseq, hwant, hres):
        k_ = split_result(r_)[0]
        if (k_ == "OK") != ok_ and not is_dead(r_):
            chk.violation("an unknown zone is accepted (or a known one refused) depending on which zones were asked for before",
                          dict(case=c_, impl=r_, expected="a value" if ok_ else "a failure", sequence=hseq[:hseq.index(c_) + 1][-6:]))
    chk.stream("known and unknown zones asked for repeatedly and alternately in one process (the same unknown name twice in a row, through "
               "different accessors, with constant receivers)", len(hseq), len(hseq), exhaustive=True)
    # the recorded finding: one-based getDayOfWeek with a zone
    kf = run_impl([evalsrc_case("t.getDayOfWeek('UTC') == t.getDayOfWeek()", binds=[("t", vtime(T1))], ufuncs=[], std=False)], isolate=True)[0]
    if not kf.startswith("OK b1"):
        chk.violation("getDayOfWeek with a zone differs from the zone-less form", dict(case="t.getDayOfWeek('UTC') == t.getDayOfWeek()", impl=kf),
                      key="getDayOfWeek-zone-one-based")
    chk.sample(dict(label=labels[3], impl=impl[3], expected=want[3]))
    chk.sample(dict(label=labels[n_ar + 5], impl=impl[n_ar + 5], expected=want[n_ar + 5]))
    chk.sample(dict(label=labels[n_utc + 5], impl=impl[n_utc + 5], expected=want[n_utc + 5]))
    chk.cov["rule"] = ("UTC fields from a 400-year folding onto datetime; zoned fields from zoneinfo (getDayOfWeek with a zone is "
                       "expected one-based: recorded finding); durations by truncating division")


def replay(chk, rep):
    if not builds_or_die(chk):
        return
    c = rep["case"]
    if not c.startswith("evalsrc"):
        c = evalsrc_case(c, binds=[("t", vtime(T1))], ufuncs=[], std=False)
    r = run_impl([c], isolate=True)[0]
    print("impl:", r, "\nexpected:", rep.get("expected"))
    k, payload, _ = split_result(r)
    w = rep.get("expected", "OK b1")
    if w == "ERRANY":
        ok = k == "ERR"
    elif w.startswith("OK f~"):
        ok = k == "OK" and abs(bits_f(int(payload[1:], 16)) - float(w[5:])) <= 1e-9 * max(1.0, abs(float(w[5:])))
    else:
        ok = ("%s %s" % (k, payload)).strip() == w
    if is_dead(r) or not ok:
        chk.violation(rep.get("what", "replayed"), rep)
