"""C10 — emitted bytecode is well-formed on every path; the VM checks jump targets."""
import random
from streams import *

LEVEL_NOTE = ("compile_wf (for every source the compiler's output passes the checker) is not proved as a universal "
              "theorem; it is established per program by running the proved checker on the implementation's and the "
              "model's bytecode (translation validation)")


def run(chk):
    rng = random.Random(chk.seed)
    if not builds_or_die(chk):
        return
    n = 3000 if chk.tier == "quick" else 40000
    es = gen_sources(rng, n, depth=(1, 6))
    srcs = [render(e, rng.choice(['min', 'full', 'rand']), rng.choice(['min', 'one', 'rand']), rng) for e in es]
    srcs += ["a || b || c", "a && b && c || d", "a ? b : c ? d : e", "match x { case 1: a || b, case int: c ? d : e, case _: f(g ? 1 : 2) }",
             "[1,2].map(v, v > 1 ? v : -v).filter(w, w in [1, 2] || false)", "f'{a || b}{c ? d : e}'", "coalesce(a ? b : c, d && e)",
             "x.f(a || b, c ? d : e)[g && h]", "!(a || b) && -(c ? 1 : 2) > 0", "{'k': a || b, 'j': [c ? d : e]}"]
    cases = ["compile " + vs(s) for s in srcs]
    impl, model = tie(chk, "compile", cases, labels=srcs)
    codes, owners = [], []
    for s, r in zip(srcs, impl):
        if r.startswith("OK "):
            codes.append(r[3:r.index(" PARAMS(")])
            owners.append(s)
    verdict = run_model(["wfcode " + c for c in codes])
    nested = 0
    for s, c, v in zip(owners, codes, verdict):
        nested += c.count("C(") - 1
        if v != "b1":
            chk.violation("the compiler emitted a block that the verified well-formedness checker rejects "
                          "(a jump out of its block, an unbalanced stack, disagreeing joins or a loop)",
                          dict(source=s, bytecode=c, checker=v))
    chk.stream("generated programs: implementation bytecode through the proved checker wf_code (+ model/impl bytecode tie)",
               len(cases), len(set(codes)), note="%d nested blocks checked hereditarily" % nested)
    chk.sample(dict(source=owners[0], bytecode=codes[0], checker=verdict[0]))
    chk.sample(dict(source=owners[-1], bytecode=codes[-1], checker=verdict[-1]))

    # ---- every construct leaves exactly one value, whatever its operands turn out to be at run time --------------------
    # The static analysis gives each instruction a fixed stack effect; the VM has to honour it on its data-dependent
    # paths too (a key that is not a string, an operand that failed, a callee that is not callable ...).  A sentinel
    # pushed before the construct must still be where the enclosing constructor expects it afterwards.
    KS = ["k0", "ub", "l1", "ks"]
    xs = []
    for K in KS:
        xs += ["{'a': 1, %s: 2}" % K, "{%s: 1, 'a': 2}" % K, "{'a': 1, %s: 2, 'b': 3}" % K, "{'a': z0, %s: 2, %s: 3}" % (K, K),
               "{'a': 1, 'b': 2, 'c': 3, %s: 4}" % K, "{%s: {'a': 1, %s: 2}}" % (K, K), "l1[%s]" % K, "m1[%s]" % K, "%s[0]" % K, "%s.f" % K,
               "%s.f(1, 2)" % K, "%s(1, 2)" % K, "size(%s)" % K, "f'{%s}{l1}'" % K, "%s ? 1 : 2" % K, "match %s { case 1: 2, case _: 3 }" % K,
               "match k0 { case %s: 1, case _: 2 }" % K, "match k0 { case > %s: 1 }" % K, "%s || ks" % K, "(1 / z0) && %s" % K, "!%s" % K,
               "-%s" % K, "l1.map(v, %s)" % K, "%s.map(v, v)" % K, "l1.reduce(a, v, a + %s, 0)" % K, "has(%s.a.b)" % K,
               "coalesce(%s, 1 / z0, 3)" % K, "[1, %s, 3]" % K, "%s in l1" % K, "l1.filter(v, %s)" % K, "l1.map(%s, 2)" % K,
               "l1.all(v, v > %s)" % K, "l1.exists_one(v, %s)" % K, "[1, 2].map(v, %s, v)" % K, "fa(%s, 2)" % K, "timestamp(%s)" % K]
    xs += ["[1 / z0, 2]", "l1[99]", "m1.nosuch", "nosuch(1, 2)", "l1.nosuch(1, 2)", "fa(1 / z0, 2)", "(1 / z0) ? 1 : 2", "l1.map(v, v / z0)",
           "l1.map(1, 2)", "{'a': 1 / z0, 'b': 2}", "{'a': 1}.a.b.c", "[[1, 2][5], 3]", "int('x')", "[1, 2].map(v, v)[7]"]
    embeds = [("[7, %s][0]", "i7"), ("[%s, 7][1]", "i7"), ("{'s': 7, 't': %s}.s", "i7"), ("fargs(7, %s)[0]", "i7"), ("[7, %s, 8][2]", "i8"),
              ("[[7, %s][0], 9][1]", "i9"), ("[7, [%s]][0]", "i7"), ("7 + size([%s]) - 1", "i7")]
    pb = [("k0", vi(0)), ("ks", vs("z")), ("l1", vlist([vi(1), vi(2)])), ("m1", vmap([("a", vi(1))])), ("z0", vi(0))]
    pcases, pinfo = [], []
    for x in xs:
        for emb, want in embeds:
            src = emb % x
            pcases.append(evalsrc_case(src, binds=pb, ufuncs=[("fa", "arg0"), ("fargs", "args")], std=False))
            pinfo.append((src, want))
    pimpl, pmodel = tie(chk, "sentinel probes", pcases, labels=[a for a, _ in pinfo])
    for (src, want), c, r in zip(pinfo, pcases, pimpl):
        if is_dead(r):
            continue
        k, payload, _ = split_result(r)
        if not (k in ("ERR", "CERR") or (k == "OK" and payload == want)):
            chk.violation("a construct did not leave exactly one value on the stack: a value pushed before it is not where the "
                          "enclosing constructor takes it from", dict(source=src, impl=r, expected="OK %s (or a failure)" % want, case=c))
    chk.stream("sentinel probes: %d constructs on data-dependent paths (non-string keys, failed / unbound / ill-typed operands, "
               "callees that are not callable) x %d enclosing constructors that consume positionally" % (len(xs), len(embeds)),
               len(pcases), len(pcases), exhaustive=True)
    chk.sample(dict(source=pinfo[0][0], impl=pimpl[0], expected=pinfo[0][1]))

    # the VM's own bounds checks: arbitrary instruction sequences with forward and out-of-range jumps
    m = 3000 if chk.tier == "quick" else 30000
    plain = ["P i1", "P i2", "P b1", "P b0", "P n", "P Ediv", "pop", "dup", "test", "not", "neg", "add", "sub", "lt",
             "eq", "or", "and", "P s61", "mklist:1", "mklist:2", "P I78", "index"]
    vcases = []
    for _ in range(m):
        ln = rng.randrange(1, 12)
        code = []
        for pc in range(ln):
            r = rng.random()
            if r < 0.3:
                k = rng.random()
                if k < 0.6:
                    dist = rng.randrange(0, ln - pc + 1)              # forward, possibly exactly at the end
                elif k < 0.8:
                    dist = rng.choice([ln - pc, ln - pc + 1, ln + 5, 2 ** 31 - 1])   # at/after the end
                else:
                    dist = rng.choice([-(pc + 2), -(pc + 1) - 1, -(2 ** 31), -1000])  # before the start
                code.append(rng.choice(["jmp:%d", "jt:%d", "jf:%d"]) % dist)
            else:
                code.append(rng.choice(plain))
        vcases.append("run %s P( %s C( %s ) ) B( %s i7 ) F( )" % (hx("main"), hx("main"), " ".join(code), hx("x")))
    vires, vmres = tie(chk, "vm-jump-bounds", vcases)
    oob = sum(1 for r in vires if r.startswith("ERR Erun"))
    chk.stream("random instruction sequences with forward, end-of-block and out-of-range jumps on the VM", m,
               len(set(vcases)), note="%d ended in the Runtime error of the range/stack checks" % oob)
    chk.sample(dict(case=vcases[0], impl=vires[0], model=vmres[0]))
    chk.cov["rule"] = ("programs from the typed expression generator (every operator, nested ||/&&/?:/match, calls, macros, "
                       "f-strings) rendered with three parenthesisation and three white-space policies; distinct = distinct "
                       "bytecode; plus random raw instruction sequences for the VM's bounds checks")


def replay(chk, rep):
    if not builds_or_die(chk):
        return
    if "source" in rep:
        r = run_impl(["compile " + vs(rep["source"])])[0]
        print("compile:", r)
        if r.startswith("OK "):
            c = r[3:r.index(" PARAMS(")]
            v = run_model(["wfcode " + c])[0]
            print("checker:", v)
            if v != "b1":
                chk.violation(rep.get("what", "replayed"), rep)
    elif "case" in rep:
        r = run_impl([rep["case"]], isolate=True)[0]
        print("impl:", r)
        if is_dead(r):
            chk.violation(rep.get("what", "replayed"), rep)
