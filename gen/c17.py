"""C17 — the reported parameter list covers every variable a program can read."""
import random
from streams import *

LEVEL_NOTE = ("the evaluation-relevance clause (two bindings that agree on the reported names give the same result) is "
              "checked by perturbation, not proved")

DEFAULT_FUNCS = ["contains", "containsI", "size", "sort", "startsWith", "endsWith", "startsWithI", "endsWithI", "matches",
                 "matchCaptures", "matchReplaceOnce", "matchReplace", "toLower", "toUpper", "remove", "replace", "rsplit",
                 "split", "splitAt", "trim", "trimStart", "trimStartMatches", "trimEnd", "trimEndMatches", "splitWhiteSpace",
                 "abs", "sqrt", "pow", "log", "lg", "ceil", "floor", "round", "min", "max", "getDate", "getDayOfMonth",
                 "getDayOfWeek", "getDayOfYear", "getFullYear", "getHours", "getMilliseconds", "getMinutes", "getMonth",
                 "getSeconds", "now", "zip", "uomConvert"]
DEFAULT_MACROS = ["has", "all", "exists", "exists_one", "filter", "map", "reduce", "coalesce"]
TYPES_ = ["bool", "int", "uint", "float", "double", "string", "bytes", "type", "timestamp", "duration", "null_type", "dyn"]

POSITIONS = [
    "q1 + 1", "1 + q1", "-q1", "!q1", "q1 ? 1 : 2", "true ? 1 : q1", "false ? q1 : 2", "true ? q1 : q2", "1 ? q1 : q2",
    "f(q1)", "f(1, q1)", "q1.f()", "q1.f(q2)", "f(1).g(q1)", "size(q1)", "q1.size()", "[1].map(v, v + q1)", "[1].map(q1, 2)",
    "q1.map(v, v)", "[1].filter(v, q1)", "[1].all(v, v > q1)", "[1].reduce(a, v, a + q1, q2)", "q1.reduce(a, v, a, 0)",
    "f'{q1}'", "f'a{q1 + q2}b'", "f'{[q1][0]}'", "l[q1]", "q1[0]", "[1, 2][q1]", "{q1: 1}", "{'a': q1}", "{q1: q2}",
    "{'k': [q1]}.k", "[q1, q2]", "[1, q1, 2, q2]", "[q1, 1 + 1, q2]", "match q1 { case 1: 2 }", "match 1 { case q1: 2 }",
    "match 1 { case > q1: 2, case _: q2 }", "match 1 { case _: q1 }", "match 1 { case int: q1, case 2: q2 }",
    "has(q1)", "has(q1.q2)", "coalesce(q1, q2)", "q1 in [1]", "1 in q1", "q1 || true", "true || q1", "false && q1",
    "(q1)", "((q1))[q2]", "q1.a.b", "x.q1", "type(q1)", "int(q1)", "[[q1]]", "{'a': {'b': q1}}", "max(q1, q2, 3)",
    "[1].map(v, [2].map(w, v + w + q1))", "f(g(h(q1)))", "q1(1)", "q1()(q2)", "1 < q1 && q2 > 2 || q1 == q2",
    # names that survive only in the parameter list: inside a sub-expression the compiler folds away (an untaken branch
    # of a constant condition, a call or macro over constants), below every construct that folds in its turn
    "{'k': false ? q1 : 1}.k", "{'k': true ? 1 : q1}.k", "{'lo': true ? 1 : q1, 'hi': 10}.lo + q2", "{'a': {'b': false ? q1 : 1}}.a.b",
    "{'k': false ? q1 : 1}['k']", "[false ? q1 : 1][0]", "[true ? 1 : q1].size()", "size([true ? 1 : q1])", "dyn(false ? q1 : 2)",
    "(false ? q1 : 1) + 1", "-(true ? 1 : q1)", "!(true ? false : q1)", "(true ? 1 : q1) < 2", "(true ? 1 : q1) in [1]",
    "false ? q1 : (true ? 2 : q2)", "f'{true ? 1 : q1}'", "{'n': size('ab')}.n", "{'n': [1, 2].map(q1, q1 * 2)}.n",
    "{'n': [1, 2].map(q1, 3)}.n[0]", "{'k': {'j': true ? 1 : q1}}.k.j + 1", "[{'k': false ? q1 : 1}][0].k", "{'k': [true ? 1 : q1]}.k[0]",
    "{'a': 1, 'b': false ? q1 : 2}.a", "{'a': true ? 1 : q1}.a == 1 ? 5 : q2", "max({'k': false ? q1 : 1}.k, 0)",
    "match {'k': true ? 1 : q1}.k { case 1: 2 }", "[1].map(v, {'k': false ? q1 : v}.k)", "coalesce({'k': true ? 1 : q1}.k)",
    "{'k': true || q1}.k", "{'k': false && q1}.k", "{'k': (true ? 1 : q1) + (false ? q2 : 2)}.k", "string({'k': true ? 1 : q1}.k)",
    # names that a normalising or de-duplicating list would merge: they differ only in letter case, by an underscore, by a
    # suffix, or one is a prefix of the other; and one name many times
    "q1 + Q1", "rate * Rate", "[items].map(v, ITEMS)", "{'a': q1, 'b': Q1}.a", "q1 ? Q1 : qQ1", "f'{q1}{Q1}'", "q1.f(Q1)", "q_1 + q1 + q1_",
    "q1 + q11 + q111", "ab + aB + Ab + AB", "x1 + X1 + x_1 + _x1", "q1 + q1 + q1", "match q1 { case Q1: qq1 }", "[q1, Q1].map(Q1, q1 + Q1)",
    "zz + ZZ + zZ + Zz", "i + I", "has(q1.Q1) && has(Q1.q1)", "size + Size", "int + Int + INT",
    # the variable called `_` (only directly after `case` is it the wildcard) and its neighbours
    "_ + 1", "q1 + _", "match _ { case int: _ + q1, case _: 0 }", "[1].map(v, v + _)", "f(_)", "__ + _x + x_ + _", "{'k': _}.k", "f'{_}'",
    "match 1 { case _: _ }", "match 1 { case == _: 2 }", "_.f(_1)", "[_][0]", "true ? 1 : _", "has(_.a)", "_ || q1",
]


def run(chk):
    rng = random.Random(chk.seed)
    if not builds_or_die(chk):
        return
    n = 2500 if chk.tier == "quick" else 40000
    es = gen_sources(rng, n, depth=(1, 6), use_unbound=0.15, use_progs=0.0)
    srcs = [render(e, rng.choice(['min', 'full', 'rand']), rng.choice(['min', 'one', 'rand']), rng) for e in es]
    expect = [sorted(free_idents(e)) for e in es]
    for ptxt in POSITIONS:
        srcs.append(ptxt); expect.append(template_names(ptxt))
    cases = ["compile " + vs(s) for s in srcs]
    impl, model = tie(chk, "compile (params)", cases, labels=srcs)
    got_params = []
    for s, r, w in zip(srcs, impl, expect):
        if not r.startswith("OK "):
            got_params.append(None)
            continue
        ps = [unhexs(x) for x in r[r.index(" PARAMS(") + 8:].rstrip(")").split()]
        got_params.append(ps)
        missing = sorted(set(w) - set(ps))
        extra = sorted(set(ps) - set(w))
        if missing:
            chk.violation("an identifier the program can read is not reported by params()",
                          dict(source=s, reported=ps, missing=missing, case="compile " + vs(s)))
        elif extra:
            chk.violation("params() reports a name that does not occur in the source", dict(source=s, reported=ps, extra=extra,
                                                                                          case="compile " + vs(s)))
    chk.stream("generated programs + %d position templates: params() vs. an independent free-identifier computation" % len(POSITIONS),
               len(cases), len(set(cases)))
    chk.sample(dict(source=srcs[0], reported=got_params[0], free_identifiers=expect[0]))
    chk.sample(dict(source=srcs[-3], reported=got_params[-3], free_identifiers=expect[-3]))

    # relevance: bindings that agree on the reported names give the same result; binding every reported name
    # rules out unbound-variable failures
    known = set(k for k, _ in STD_BINDS) | set(DEFAULT_FUNCS) | set(DEFAULT_MACROS) | set(TYPES_) | \
        set(k for k, _ in STD_UFUNCS)
    rcases, rinfo = [], []
    noise = [("ub", vi(1)), ("ub2", vs("zz")), ("zz9", vi(0))]
    for s, ps in list(zip(srcs, got_params))[:(1500 if chk.tier == "quick" else 20000)]:
        if ps is None:
            continue
        base = [(k, v) for k, v in STD_BINDS]
        unreported = [(k, v) for k, v in base if k not in ps]
        changed = [(k, v) for k, v in base if k in ps] + [(k, vi(424242)) for k, _ in unreported] + \
            [(k, v) for k, v in noise if k not in ps]
        rcases.append(evalsrc_case(s, binds=base, std=False)); rinfo.append((s, ps, "base"))
        rcases.append(evalsrc_case(s, binds=changed, std=False)); rinfo.append((s, ps, "perturbed"))
    rres = run_impl(rcases, isolate=True)
    for i in range(0, len(rcases), 2):
        s, ps, _ = rinfo[i]
        a, b = rres[i], rres[i + 1]
        if is_dead(a) or is_dead(b):
            continue
        if a != b:
            chk.violation("changing a binding that params() does not report changed the result",
                          dict(source=s, reported=ps, base=a, perturbed=b, case=rcases[i + 1]))
        elif set(ps) <= known and "Ebind" in a:
            chk.violation("every reported name is bound, yet evaluation fails with an unbound-variable error",
                          dict(source=s, reported=ps, result=a, case=rcases[i]))
    chk.stream("relevance: unreported bindings perturbed / removed, all reported names bound", len(rcases), len(rcases) // 2)

    # filter_from_bindings
    fcases, fwant = [], []
    for s, ps in list(zip(srcs, got_params))[-400:]:
        if ps is None:
            continue
        bound = rng.sample([k for k, _ in STD_BINDS], 10) + ["q1"]
        fcases.append("filterparams %s %s" % (hx(s), binds_tokens([(k, vi(1)) for k in bound])))
        left = sorted(x for x in ps if x not in bound and x not in DEFAULT_FUNCS and x not in DEFAULT_MACROS)
        fwant.append("PARAMS( %s )" % " ".join(hx(x) for x in sorted(left, key=lambda z: z.encode())))
    fres = run_impl(fcases, isolate=True)
    for c, r, w in zip(fcases, fres, fwant):
        if r.split() != w.split():
            chk.violation("filter_from_bindings does not remove exactly the names bound as variables, functions or macros",
                          dict(case=c, impl=r, expected=w))
    chk.stream("filter_from_bindings against random binding sets", len(fcases), len(set(fcases)))
    chk.cov["rule"] = ("generated programs with variables in every syntactic position plus the hand-written position templates (every syntactic position; names that survive only inside folded sub-expressions) "
                       "(call arguments, receivers, macro ranges and bodies, f-strings, index, map keys/values, match scrutinee/"
                       "patterns/arms, untaken branches of constant conditions); the expected set is computed from the generator's "
                       "tree, independently of the compiler")


def template_names(txt):
    """identifiers of a template: text outside string literals plus f-string expression segments;
    names after '.', keywords, '_' and type patterns directly after 'case' are not identifiers"""
    import re
    out, i, n = [], 0, len(txt)
    while i < n:
        c = txt[i]
        if c in "'\"" or (c == 'f' and i + 1 < n and txt[i + 1] in "'\"" and (i == 0 or not (txt[i - 1].isalnum() or txt[i - 1] == '_'))):
            isf = c == 'f'
            if isf:
                i += 1
            q = txt[i]
            i += 1
            seg, depth = "", 0
            while i < n and not (txt[i] == q and depth == 0):
                if isf and txt[i] == '{':
                    depth += 1
                    if depth == 1:
                        seg = ""
                        i += 1
                        continue
                if isf and txt[i] == '}':
                    depth -= 1
                    if depth == 0:
                        out.append(" (" + seg + ") ")
                        i += 1
                        continue
                if depth > 0:
                    seg += txt[i]
                i += 1
            i += 1
            out.append(" ")
        else:
            out.append(c)
            i += 1
    flat = "".join(out)
    if flat != txt and ("'" in flat or '"' in flat):
        return template_names(flat)
    names = set()
    for m in re.finditer(r"(?<![A-Za-z0-9_.])([A-Za-z_][A-Za-z0-9_]*)", flat):
        w = m.group(1)
        if w in ("true", "false", "null", "in", "match", "case"):
            continue
        before = flat[:m.start()].rstrip()
        if w == "_" and before.endswith("case"):
            continue        # the wildcard pattern; everywhere else `_` is an ordinary variable name
        if before.endswith("case") and w in ("int", "uint", "string", "bool", "double", "float", "bytes", "timestamp",
                                              "duration", "type", "dyn", "null_type"):
            continue
        if re.match(r"\d", w):
            continue
        names.add(w)
    return sorted(names)


def replay(chk, rep):
    if not builds_or_die(chk):
        return
    c = rep["case"]
    r = run_impl([c], isolate=True)[0]
    print("impl:", r)
    if c.startswith("compile ") and r.startswith("OK "):
        ps = set(unhexs(x) for x in r[r.index(" PARAMS(") + 8:].rstrip(")").split())
        if set(rep.get("missing", [])) - ps or (set(rep.get("extra", [])) & ps):
            chk.violation(rep.get("what", "replayed"), rep)
    elif "perturbed" in rep and r != rep.get("base"):
        chk.violation(rep.get("what", "replayed"), rep)
    elif "expected" in rep and r.split() != rep["expected"].split():
        chk.violation(rep.get("what", "replayed"), rep)
