"""C02 — parsing assigns the grammar's precedence, associativity and grouping.

Oracles independent of implementation and model:
  * flat operator sequences: an 8-line precedence-climbing reader over the token
    list with the grammar's level table, left associativity, prefix runs;
  * deeper trees: the generator's own tree; every rendering of it (minimal,
    full, random parentheses x minimal, single, random white space) must give
    that shape and the same value.
The model parser is tied to the implementation on the complete tree text with spans."""
import itertools
import random
from streams import *
from astshape import *

LEVEL_NOTE = ("theorems: the generic left-associative loop, the ladder of levels built from it, the shape of the "
              "conditional, parentheses; tie on the full syntax tree; shapes against an independent reader / the generator")

OPS = ['||', '&&', '<', '<=', '==', '!=', '>=', '>', 'in', '+', '-', '*', '/', '%']
PREFIX = ["", "!", "-", "!!", "--", "!!!", "---"]


def climb(operands, ops):
    """shape of o0 op0 o1 op1 ... by precedence climbing (higher level binds tighter, equal levels group left)"""
    pos = 0

    def parse(minlvl):
        nonlocal pos
        left = operands[pos]
        while pos < len(ops) and LEVEL[ops[pos]] >= minlvl:
            op = ops[pos]
            pos += 1
            right = parse(LEVEL[op] + 1)
            left = ('bin', op, left, right)
        return left
    return parse(1)


def operand(name, prefix):
    e = ('id', name)
    return ('un', prefix[0], len(prefix), e) if prefix else e


def norm_gen(e):
    """generator tree -> comparable shape (negative literals are a minus applied to a literal)"""
    k = e[0]
    if k == 'lit':
        t = e[1]
        if t.startswith("(-") and " - 1)" in t:
            return ('bin', '-', ('un', '-', 1, ('lit', None)), ('lit', None))
        if t.startswith("(-"):
            return ('un', '-', 1, ('lit', None))
        return ('lit', None)
    if k == 'id':
        return e
    if k == 'paren':
        return norm_gen(e[1])
    if k == 'bin':
        return ('bin', e[1], norm_gen(e[2]), norm_gen(e[3]))
    if k == 'un':
        return ('un', e[1], e[2], norm_gen(e[3]))
    if k == 'tern':
        return ('tern', norm_gen(e[1]), norm_gen(e[2]), norm_gen(e[3]))
    if k == 'match':
        return ('match', norm_gen(e[1]), [((p[0],) if p[0] != 'cmp' else ('cmp', norm_gen(p[2])), norm_gen(a)) for p, a in e[2]])
    if k == 'list':
        return ('list', [norm_gen(x) for x in e[1]])
    if k == 'map':
        return ('map', [(norm_gen(a), norm_gen(b)) for a, b in e[1]])
    if k == 'member':
        return ('member', norm_gen(e[1]), e[2])
    if k == 'index':
        return ('index', norm_gen(e[1]), norm_gen(e[2]))
    if k == 'call':
        return ('call', norm_gen(e[1]), [norm_gen(x) for x in e[2]])
    if k == 'fstr':
        return ('lit', None)
    raise ValueError(k)


def norm_impl(s):
    if isinstance(s, tuple):
        if not s:
            return s
        if s[0] == 'lit':
            return ('lit', None)
        if s[0] == 'cmp':
            return ('cmp', norm_impl(s[2]))
        if s[0] == 'type':
            return ('type',)
        if s[0] == 'any':
            return ('any',)
        return tuple(norm_impl(x) for x in s)
    if isinstance(s, list):
        return [norm_impl(x) for x in s]
    return s


def impl_shape(r):
    if not r.startswith("OK "):
        return None
    return norm_impl(shape(parse_sexp(r[3:])))


def run(chk):
    rng = random.Random(chk.seed)
    if not builds_or_die(chk):
        return
    quick = chk.tier == "quick"
    names = ["a", "b", "c", "d"]
    srcs, wants = [], []

    def add_flat(ops, prefixes):
        operands = [operand(n, p) for n, p in zip(names, prefixes)]
        toks_ = []
        for i, o in enumerate(operands):
            if i:
                toks_.append(ops[i - 1])
            toks_ += ([o[1]] * o[2] + [o[3][1]]) if o[0] == 'un' else [o[1]]
        srcs.append(''.join(join_tokens(toks_, 'one', rng)))
        wants.append(climb(operands, list(ops)))

    for k in range(0, 4):
        for ops in itertools.product(OPS, repeat=k):
            add_flat(ops, [""] * (k + 1))
    n_plain = len(srcs)
    for k in range(0, 3):
        for ops in itertools.product(OPS, repeat=k):
            for pf in itertools.product(PREFIX[:3] if k == 2 else PREFIX, repeat=k + 1):
                if any(pf):
                    add_flat(ops, pf)
    all3 = list(itertools.product(OPS, repeat=3))
    for _ in range(2000 if quick else 60000):
        add_flat(rng.choice(all3), [rng.choice(PREFIX) for _ in range(4)])
    n_flat = len(srcs)
    # conditionals around flat sequences: cond ? then : else, the else branch nesting to the right
    for _ in range(1500 if quick else 20000):
        def seq(ns):
            k = rng.randrange(0, 3)
            ops = [rng.choice(OPS) for _ in range(k)]
            operands = [operand(rng.choice(ns), rng.choice(PREFIX[:3])) for _ in range(k + 1)]
            toks_ = []
            for i, o in enumerate(operands):
                if i:
                    toks_.append(ops[i - 1])
                toks_ += ([o[1]] * o[2] + [o[3][1]]) if o[0] == 'un' else [o[1]]
            return toks_, climb(operands, ops)
        depth = rng.randrange(1, 4)
        parts = [seq(names) for _ in range(2 * depth + 1)]
        toks_, shp = parts[-1]
        for i in range(depth - 1, -1, -1):
            ct, cs = parts[2 * i]
            tt, ts = parts[2 * i + 1]
            toks_ = ct + ['?'] + tt + [':'] + toks_
            shp = ('tern', cs, ts, shp)
        srcs.append(''.join(join_tokens(toks_, rng.choice(['min', 'one', 'rand']), rng)))
        wants.append(shp)
    n_tern = len(srcs)
    cases = ["parse " + vs(s) for s in srcs]
    impl, model = tie(chk, "flat operator sequences", cases, labels=srcs)
    for s, c, r, w in zip(srcs, cases, impl, wants):
        if is_dead(r):
            continue
        got = impl_shape(r)
        if got != w:
            chk.violation("the syntax tree does not have the grouping the grammar's precedence and associativity define",
                          dict(case=c, source=s, impl=r[:400], expected_shape=repr(w), got_shape=repr(got)))
    chk.stream("every sequence of 0..3 binary operators over 4 operands, no prefixes", n_plain, n_plain, exhaustive=True)
    chk.stream("sequences of 0..2 binary operators x every combination of prefix runs (!, -, up to three deep); random prefix "
               "runs on sequences of 3", n_flat - n_plain, len(set(srcs[n_plain:n_flat])), exhaustive=False,
               note="exhaustive for 0..2 operators")
    chk.stream("conditionals nested 1..3 deep in the else branch around operator sequences", n_tern - n_flat,
               len(set(srcs[n_flat:])), exhaustive=False)
    chk.sample(dict(source=srcs[900], shape=repr(wants[900])))
    chk.sample(dict(source=srcs[-1], shape=repr(wants[-1])))
    # ---- values of flat arithmetic sequences: the grouping the compiler *evaluates* ---------------------
    AR = ['+', '-', '*', '/', '%']
    vals = {'x': 10, 'y': 7, 'z': -3}

    def ev(t):
        if t[0] == 'id':
            return vals[t[1]]
        if t[0] == 'lit':
            return t[1]
        if t[0] == 'un':
            v = ev(t[3])
            return -v if t[2] % 2 else v
        a, b = ev(t[2]), ev(t[3])
        if t[1] == '+':
            return a + b
        if t[1] == '-':
            return a - b
        if t[1] == '*':
            return a * b
        if b == 0:
            raise ZeroDivisionError
        q = abs(a) // abs(b) * (1 if (a < 0) == (b < 0) else -1)
        return q if t[1] == '/' else a - q * b

    def full(t):
        if t[0] == 'id':
            return t[1]
        if t[0] == 'lit':
            return str(t[1])
        if t[0] == 'un':
            return '-' * t[2] + full(t[3])
        return '(' + full(t[2]) + ' ' + t[1] + ' ' + full(t[3]) + ')'
    vsrc, vwant, vfull = [], [], []
    for k in (2, 3):
        for ops in itertools.product(AR, repeat=k):
            kinds = list(itertools.product("vl", repeat=k + 1))
            if k == 3 and quick:
                kinds = rng.sample(kinds, 6)
            for kd in kinds:
                operands, toks_ = [], []
                for i, kk in enumerate(kd):
                    o = ('id', rng.choice(['x', 'y', 'z'])) if kk == 'v' else ('lit', rng.choice([1, 2, 3, 5]))
                    if rng.random() < 0.15:
                        o = ('un', '-', 1, o)
                    operands.append(o)
                    if i:
                        toks_.append(ops[i - 1])
                    toks_ += (['-'] if o[0] == 'un' else []) + [str((o[3] if o[0] == 'un' else o)[1])]
                t = climb(operands, list(ops))
                try:
                    w = "OK " + vi(ev(t))
                except ZeroDivisionError:
                    w = "ERR Ediv"
                vsrc.append(' '.join(toks_))
                vwant.append(w)
                vfull.append(full(t))
    binds = [(k_, vi(v_)) for k_, v_ in vals.items()]
    vcases = [evalsrc_case(s_, binds=binds, ufuncs=[], std=False) for s_ in vsrc]
    fcases = [evalsrc_case(s_, binds=binds, ufuncs=[], std=False) for s_ in vfull]
    vimpl, _ = tie(chk, "values of flat arithmetic sequences", vcases, labels=vsrc)
    fimpl, _ = tie(chk, "values of their fully parenthesised forms", fcases, labels=vfull)
    for s_, f_, c, r, rf, w in zip(vsrc, vfull, vcases, vimpl, fimpl, vwant):
        if is_dead(r):
            continue
        got = "%s %s" % split_result(r)[:2]
        if got != w:
            chk.violation("an operator sequence evaluates to the value of a different grouping than the grammar's",
                          dict(case=c, source=s_, grouping=f_, impl=r, expected=w))
        elif "%s %s" % split_result(rf)[:2] != got:
            chk.violation("adding parentheses that agree with the structure changed the result",
                          dict(case=c, source=s_, other=f_, impl=r, other_result=rf))
    chk.stream("arithmetic sequences of 2..3 operators over variables and literals: value against an independent evaluation "
               "of the climbed tree, and against the fully parenthesised form", len(vcases), len(set(vsrc)),
               exhaustive=not quick, note="all operator sequences; operand kinds sampled for 3 operators in the quick tier")
    chk.sample(dict(source=vsrc[40], grouping=vfull[40], impl=vimpl[40], expected=vwant[40]))
    # ---- ... where the grouping matters: operands at the edges of their types, of mixed types, and doubles whose
    # rounding depends on the order: the flat spelling and the spelling with the grammar's own parentheses must agree
    bnd_binds = [("x", vi(-1)), ("bx", vi(I64_MAX)), ("nx", vi(I64_MIN)), ("ux", vu(U64_MAX)), ("u1", vu(1)), ("dx", vf(1e16)),
                 ("d1", vf(1.0)), ("tb", vb(True)), ("i2", vi(2)), ("i0", vi(0)), ("sx", vs("a")), ("lx", vlist([vi(1)]))]
    atoms = ["x", "bx", "nx", "ux", "u1", "dx", "d1", "tb", "i2", "i0", "1", "2", "9223372036854775807", "18446744073709551615u",
             "1u", "1.0", "1e16", "0.1", "true", "0", "3", "'b'", "[2]", "4611686018427387904", "0.5", "1e308"]
    gsrc, gfull = [], []
    for k in (2, 3):
        for _ in range(1500 if quick else 30000):
            level = rng.choice([['+', '-'], ['*', '/', '%'], ['+', '-', '*', '/', '%']])
            ops_ = [rng.choice(level) for _ in range(k)]
            # a variable first or somewhere, then constants: the shapes a constant folder could regroup
            kinds_ = rng.choice(["vcc", "cvc", "ccv", "vvc", "ccc", "vcv"]) + ("c" if k == 3 else "")
            operands = []
            for kk in kinds_[:k + 1]:
                a = rng.choice(atoms[:10] if kk == 'v' else atoms[10:])
                operands.append(a)
            flat = operands[0]
            t = operands[0]
            # the grammar's grouping of a flat sequence of + - * / %: climb by precedence, left associative
            tree = climb([('lit', o) for o in operands], ops_)

            def show(n):
                if n[0] == 'lit':
                    return n[1]
                return '(' + show(n[2]) + ' ' + n[1] + ' ' + show(n[3]) + ')'
            for o_, a_ in zip(ops_, operands[1:]):
                flat += ' ' + o_ + ' ' + a_
            gsrc.append(flat)
            gfull.append(show(tree))
    gcases = [evalsrc_case(s_, binds=bnd_binds, ufuncs=[], std=False) for s_ in gsrc]
    gfcases = [evalsrc_case(s_, binds=bnd_binds, ufuncs=[], std=False) for s_ in gfull]
    gimpl, _ = tie(chk, "flat sequences over boundary operands", gcases, labels=gsrc)
    gfimpl, _ = tie(chk, "their fully parenthesised forms", gfcases, labels=gfull)
    for s_, f_, c, r, rf in zip(gsrc, gfull, gcases, gimpl, gfimpl):
        if is_dead(r) or is_dead(rf):
            continue
        a_, b_ = split_result(r)[:2], split_result(rf)[:2]
        if a_ != b_ and not (a_[0] == "ERR" and b_[0] == "ERR"):
            chk.violation("adding parentheses that agree with the structure changed the result",
                          dict(case=c, source=s_, other=f_, impl=r, other_result=rf))
    chk.stream("arithmetic sequences of 2..3 operators over operands at the edges of int / uint / double, of mixed types, variables "
               "and literals in every order: the flat spelling against the spelling with the grammar's own parentheses",
               2 * len(gcases), len(set(gsrc)), exhaustive=False)
    # ---- deeper trees: every rendering gives the generator's shape and the same value -------------
    es = gen_sources(rng, 700 if quick else 12000, depth=(2, 6), use_unbound=0.02)
    # the loosest-binding constructs (?:, ||, match) standing unparenthesised in every place that takes an expression: the
    # spelling with the parentheses the grammar implies must compile too and evaluate to the same result
    LOOSE = ["b1 ? 'a' : 'b'", "b0 ? 'a' : b1 ? 'p' : 'q'", "b0 || b1", "b1 && b0 || b1", "match b1 { case true: 'a', case _: 'b' }",
             "b0 ? 1 : 2", "i1 > 0 ? 'a' : 'b'"]
    SLOTS = ["{E: 1}", "{'k': E}", "{'j': 0, E: 1}", "{E: E}", "[E]", "[0, E]", "[E, 0]", "size([E])", "fa(E)", "fa(0, E)",
             "{'a': 1, 'b': 2, 'p': 3, 'q': 4}[E]", "f'{E}'", "f'x{E}y{E}'", "(E)", "s1.contains(E)", "match E { case 'a': 1, case _: 2 }",
             "match 1 { case 1: E }", "match 1 { case 2: 0, case _: E }", "false ? 0 : E", "[1].map(v, E)", "[1].filter(v, E)",
             "[1].reduce(a, v, E, E)", "has(E)", "coalesce(E, 0)", "string(E)", "[E][0]", "{'k': E}.k", "E"]
    qcases, qlabels = [], []
    for le in LOOSE:
        for sl in SLOTS:
            a, b = sl.replace("E", le), sl.replace("E", "(" + le + ")")
            qcases += [evalsrc_case(a), evalsrc_case(b)]
            qlabels += [a, b]
    qimpl, _ = tie(chk, "loosest-binding constructs in every expression position", qcases, labels=qlabels)
    for i in range(0, len(qcases), 2):
        ra, rb = split_result(qimpl[i])[:2], split_result(qimpl[i + 1])[:2]
        if ra[0] in ("ERR", "CERR"):
            ra = (ra[0], "")
        if rb[0] in ("ERR", "CERR"):
            rb = (rb[0], "")
        if not is_dead(qimpl[i]) and not is_dead(qimpl[i + 1]) and ra != rb:
            chk.violation("adding parentheses that agree with the structure, or changing white space, changed the result",
                          dict(case=qcases[i], source=qlabels[i], other=qlabels[i + 1], impl=qimpl[i], other_result=qimpl[i + 1]))
    chk.stream("?: / || / match unparenthesised and parenthesised in %d expression positions (map keys and values, list elements, call "
               "arguments, indexes, f-string segments, match scrutinees and arms, conditional branches, macro bodies)" % len(SLOTS),
               len(qcases), len(qcases) // 2, exhaustive=True)
    pcases, pwant, plabels, groups = [], [], [], []
    ecases = []
    for e in es:
        w = norm_gen(e)
        variants = []
        for pm, wm in [('min', 'min'), ('min', 'one'), ('full', 'one'), ('rand', 'rand'), ('rand', 'rand'), ('min', 'rand')]:
            s = render(e, pm, wm, rng)
            if s not in variants:
                variants.append(s)
        groups.append((len(pcases), len(variants)))
        for s in variants:
            pcases.append("parse " + vs(s))
            pwant.append(w)
            plabels.append(s)
            ecases.append(evalsrc_case(s))
    # the same trees with every prefix run split by parentheses: !!x as !(!(x)), --x as -(-(x)) (value only: the tree
    # differs by the parentheses)
    def split_runs(e):
        if not isinstance(e, tuple):
            return e
        if e and e[0] == 'un':
            inner = split_runs(e[3])
            for _ in range(e[2]):
                inner = ('un', e[1], 1, ('paren', inner))
            return inner
        return tuple(split_runs(x) if isinstance(x, tuple) else ([split_runs(y) if isinstance(y, tuple) else y for y in x] if isinstance(x, list) else x)
                     for x in e)
    scases, slabels = [], []
    for e in es:
        if "('un'," in repr(e):
            a, b = render(e, 'min', 'one', rng), render(split_runs(e), 'min', 'one', rng)
            scases += [evalsrc_case(a), evalsrc_case(b)]
            slabels += [a, b]
    for a, b in [("!!i1", "!(!i1)"), ("!!s1 == true", "(!(!s1)) == true"), ("--u1", "-(-u1)"), ("--imin", "-(-imin)"), ("!!!l1", "!(!(!l1))"),
                 ("[!!i0, --d1]", "[!(!i0), -(-d1)]"), ("-2.5.max(1)", "-(2.5.max(1))"), ("-3 .max(1)", "-(3 .max(1))"),
                 ("-2.5.min(9.0)", "-(2.5.min(9.0))"), ("--2.5.max(1)", "-(-(2.5.max(1)))"), ("-7 .fargs()", "-(7 .fargs())"),
                 ("!0 .max(1)", "!(0 .max(1))"), ("-1.5.coalesce()", "-(1.5.coalesce())"), ("[-2.5.max(1), -3 .min(5)]", "[-(2.5.max(1)), -(3 .min(5))]"),
                 ("-'ab'.size()", "-('ab'.size())"), ("-[1, 2].size()", "-([1, 2].size())"), ("-2[0]", "-(2[0])"), ("-1 .a", "-(1 .a)"), ("!!nl ? 1 : 2", "!(!nl) ? 1 : 2"), ("----i1", "-(-(-(-i1)))"), ("--s1", "-(-s1)")]:
        scases += [evalsrc_case(a), evalsrc_case(b)]
        slabels += [a, b]
    simpl, _ = tie(chk, "prefix runs split by parentheses (value)", scases, labels=slabels)
    for i in range(0, len(scases), 2):
        ra, rb = split_result(simpl[i])[:2], split_result(simpl[i + 1])[:2]
        if ra[0] in ("ERR", "CERR"):
            ra = (ra[0], "")        # which failure, and for a source that does not compile where (the two texts differ in length), is not compared
        if rb[0] in ("ERR", "CERR"):
            rb = (rb[0], "")
        if not is_dead(simpl[i]) and not is_dead(simpl[i + 1]) and ra != rb:
            chk.violation("adding parentheses that agree with the structure, or changing white space, changed the result",
                          dict(case=scases[i], source=slabels[i], other=slabels[i + 1], impl=simpl[i], other_result=simpl[i + 1]))
    chk.stream("prefix runs written as a run and as nested parenthesised single operators: same value", len(scases), len(scases) // 2,
               exhaustive=False)
    pimpl, pmodel = tie(chk, "renderings of generated trees (syntax tree)", pcases, labels=plabels)
    eimpl, emodel = tie(chk, "renderings of generated trees (value)", ecases, labels=plabels)
    nshape = 0
    for (start, n) in groups:
        base = None
        for i in range(start, start + n):
            r = pimpl[i]
            if is_dead(r):
                continue
            if r.startswith("ERR"):
                # a rendering the parser rejects although the tree is well formed: e.g. an out-of-range literal
                continue
            got = impl_shape(r)
            nshape += 1
            if got != pwant[i]:
                chk.violation("a rendering of an expression does not parse to the expression's structure",
                              dict(case=pcases[i], source=plabels[i], expected_shape=repr(pwant[i]), got_shape=repr(got)))
                break
            ev = split_result(eimpl[i])[:2]
            if ev[0] in ("ERR", "CERR"):
                ev = (ev[0], "")
            if base is None:
                base = (ev, plabels[i])
            elif ev != base[0]:
                chk.violation("adding parentheses that agree with the structure, or changing white space, changed the result",
                              dict(case=ecases[i], source=plabels[i], other=base[1], impl=eimpl[i], other_result=repr(base[0])))
                break
    chk.stream("generated trees (depth 2..5) x up to 6 renderings: minimal / full / random parentheses x minimal / single / "
               "random white space (tabs, newlines)", len(pcases), len(groups), exhaustive=False,
               note="%d renderings compared with the generator's tree" % nshape)
    chk.sample(dict(renderings=plabels[groups[0][0]:groups[0][0] + groups[0][1]]))
    chk.cov["rule"] = ("flat sequences: all operator triples; expected grouping by precedence climbing over the level table "
                       "|| < && < relations/in < + - < * / %, prefix runs tightest; trees: the generator's tree")


def replay(chk, rep):
    if not builds_or_die(chk):
        return
    r = run_impl([rep["case"]], isolate=True)[0]
    print("impl:", r[:600])
    if "expected" in rep:
        if "%s %s" % split_result(r)[:2] != rep["expected"]:
            chk.violation(rep.get("what", "replayed"), rep)
    elif "expected_shape" in rep:
        if is_dead(r) or repr(impl_shape(r)) != rep["expected_shape"]:
            chk.violation(rep.get("what", "replayed"), rep)
    elif "other" in rep:
        o = run_impl([evalsrc_case(rep["other"])], isolate=True)[0]
        a, b = split_result(r)[:2], split_result(o)[:2]
        if not (a == b or (a[0] == "ERR" and b[0] == "ERR")):
            chk.violation(rep.get("what", "replayed"), rep)
