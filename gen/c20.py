"""C20 — CEL-to-SQL translation preserves structure and cannot be escaped by literals.

The SQL text is re-read by an independent tokenizer (standard SQL: '' inside a
string, `--` comments to end of line, /* */ comments) and parser for the emitted
dialect, and the tree it denotes is compared with the generator's CEL tree."""
import random
import re
from streams import *

LEVEL_NOTE = ("theorems on the translator model (string literal read back by SQL as the same content, operators and "
              "operand order, call arguments in source order, casts, unsupported constructs); tie on the SQL text; SQL re-read "
              "by an independent tokenizer/parser and compared with the source tree")

CASTS = {"integer": "int", "bigint": "uint", "double precision": "double", "text": "string", "boolean": "bool",
         "bytea": "bytes", "timestamp": "timestamp", "interval": "duration"}
SQLOPS = {"OR": "||", "AND": "&&", "=": "==", "<>": "!=", "<": "<", "<=": "<=", ">": ">", ">=": ">=", "in": "in",
          "+": "+", "-": "-", "*": "*", "/": "/", "%": "%"}


class SqlError(Exception):
    pass


def sql_tokens(s):
    """standard SQL lexing of the emitted text"""
    out = []
    i, n = 0, len(s)
    while i < n:
        c = s[i]
        if c in " \t\r\n":
            i += 1
        elif s.startswith("--", i):
            j = s.find("\n", i)
            i = n if j < 0 else j + 1
            out.append(("comment", "--"))
        elif s.startswith("/*", i):
            j = s.find("*/", i + 2)
            i = n if j < 0 else j + 2
            out.append(("comment", "/*"))
        elif c == "'":
            j = i + 1
            buf = []
            while True:
                if j >= n:
                    raise SqlError("unterminated string literal")
                if s[j] == "'":
                    if j + 1 < n and s[j + 1] == "'":
                        buf.append("'")
                        j += 2
                        continue
                    break
                buf.append(s[j])
                j += 1
            out.append(("str", "".join(buf)))
            i = j + 1
        elif c.isdigit():
            j = i
            while j < n and (s[j].isdigit() or s[j] in ".eE" or (s[j] in "+-" and s[j - 1] in "eE")):
                j += 1
            out.append(("num", s[i:j]))
            i = j
        elif c.isalpha() or c == "_":
            j = i
            while j < n and (s[j].isalnum() or s[j] == "_"):
                j += 1
            out.append(("word", s[i:j]))
            i = j
        else:
            for op in ("->>", "->", "::", "<=", ">=", "<>"):
                if s.startswith(op, i):
                    out.append(("op", op))
                    i += len(op)
                    break
            else:
                if c in "()[],":
                    out.append((c, c))
                elif c in "+-*/%<>=!":
                    out.append(("op", c))
                else:
                    raise SqlError("unexpected character %r" % c)
                i += 1
    return out


def group(toks):
    """nest by () and []"""
    pos = 0

    def rd(close):
        nonlocal pos
        items = []
        while pos < len(toks):
            k, v = toks[pos]
            if k in ")]":
                if k != close:
                    raise SqlError("unbalanced %s" % k)
                pos += 1
                return items
            pos += 1
            if k == "(":
                items.append(("G", rd(")")))
            elif k == "[":
                items.append(("B", rd("]")))
            else:
                items.append((k, v))
        if close:
            raise SqlError("unclosed group")
        return items
    r = rd(None)
    return r


def split_commas(items):
    out, cur = [], []
    for it in items:
        if it[0] == ",":
            out.append(cur)
            cur = []
        else:
            cur.append(it)
    if cur or out:
        out.append(cur)
    return out


def interp(items):
    """items of one nesting level -> tree in the generator's vocabulary"""
    if any(it[0] == "comment" for it in items):
        raise SqlError("the text contains an SQL comment")
    if not items:
        raise SqlError("empty expression")
    # case (c)::bool when true then (a) else (b) end
    if items[0] == ("word", "case"):
        pat = [("word", "case"), "G", ("op", "::"), ("word", "bool"), ("word", "when"), ("word", "true"), ("word", "then"), "G",
               ("word", "else"), "G", ("word", "end")]
        if len(items) != len(pat) or any((p != "G" and p != it) or (p == "G" and it[0] != "G") for p, it in zip(pat, items)):
            raise SqlError("malformed case expression")
        return ("tern", interp(items[1][1]), interp(items[7][1]), interp(items[9][1]))
    # (l) OP (r)
    if len(items) == 3 and items[0][0] == "G" and items[2][0] == "G" and \
            ((items[1][0] == "op" and items[1][1] in SQLOPS) or (items[1][0] == "word" and items[1][1] in SQLOPS)):
        return ("bin", SQLOPS[items[1][1]], interp(items[0][1]), interp(items[2][1]))
    # prefix runs
    if items[0][0] == "op" and items[0][1] in "-!":
        op = items[0][1]
        k = 0
        while k < len(items) and items[k] == ("op", op):
            k += 1
        # prefix operators bind tighter than -> / ->> : the operand must be a single postfix operand without a field access
        if any(x in (("op", "->"), ("op", "->>")) for x in items[k:]):
            raise SqlError("a prefix operator is followed by a field access without parentheses: it applies to the object, "
                           "not to the value read")
        return ("un", op, k, interp(items[k:]))
    # postfix sequence
    it = items[0]
    rest = items[1:]
    if it[0] == "G":
        cur = ("paren", interp(it[1]))
    elif it[0] == "word":
        if it[1] == "ARRAY" and rest and rest[0][0] == "B":
            cur = ("list", [interp(x) for x in split_commas(rest[0][1])])
            rest = rest[1:]
        elif it[1] == "json_build_object" and rest and rest[0][0] == "G":
            parts = [interp(x) for x in split_commas(rest[0][1])]
            if len(parts) % 2:
                raise SqlError("odd json_build_object")
            cur = ("map", [(parts[i], parts[i + 1]) for i in range(0, len(parts), 2)])
            rest = rest[1:]
        elif it[1] in ("TRUE", "FALSE", "NULL"):
            cur = ("lit", {"TRUE": True, "FALSE": False, "NULL": None}[it[1]])
        else:
            cur = ("id", it[1])
    elif it[0] == "num":
        cur = ("lit", int(it[1]) if it[1].isdigit() else float(it[1]))
    elif it[0] == "str":
        cur = ("lit", it[1])
    else:
        raise SqlError("unexpected %r" % (it,))
    while rest:
        r0 = rest[0]
        if r0 == ("op", "->") or r0 == ("op", "->>"):
            if len(rest) < 2 or rest[1][0] != "str":
                raise SqlError("-> without a field")
            last = r0[1] == "->>"
            cur = ("member", cur, rest[1][1], last)
            rest = rest[2:]
            # `::` binds tighter than -> / ->> : written after the field name it casts that literal, not the value read
            # (the translator itself parenthesises such an operand: cast_operand_needs_parens)
            if rest and rest[0] == ("op", "::"):
                raise SqlError("a cast follows a field name without parentheses: it applies to the name, not to the value read")
            if rest and rest[0][0] == "B":
                raise SqlError("a subscript follows a field name without parentheses: it applies to the name, not to the value read")
        elif r0[0] == "G":
            cur = ("call", cur, [interp(x) for x in split_commas(r0[1])])
            rest = rest[1:]
        elif r0[0] == "B":
            cur = ("index", cur, interp(r0[1]))
            rest = rest[1:]
        elif r0 == ("op", "::"):
            words = []
            rest = rest[1:]
            while rest and rest[0][0] == "word":
                words.append(rest[0][1])
                rest = rest[1:]
            ty = " ".join(words)
            if cur == ("lit", "{}") and ty == "json":
                cur = ("map", [])
            elif ty in CASTS:
                cur = ("call", ("id", CASTS[ty]), [] if cur == ("lit", None) and False else [cur])
            else:
                raise SqlError("unknown cast " + ty)
        else:
            raise SqlError("unexpected %r after an operand" % (r0,))
    return cur


def read_sql(text):
    return interp(group(sql_tokens(text)))


def strip(t):
    """remove parentheses and the ->/->> distinction; unify float/double"""
    k = t[0]
    if k == "paren":
        return strip(t[1])
    if k == "bin":
        return ("bin", t[1], strip(t[2]), strip(t[3]))
    if k == "un":
        return ("un", t[1], t[2], strip(t[3]))
    if k == "tern":
        return ("tern", strip(t[1]), strip(t[2]), strip(t[3]))
    if k == "member":
        return ("member", strip(t[1]), t[2])
    if k == "index":
        return ("index", strip(t[1]), strip(t[2]))
    if k == "call":
        callee = strip(t[1])
        if callee == ("id", "float"):
            callee = ("id", "double")
        return ("call", callee, [strip(x) for x in t[2]])
    if k == "list":
        return ("list", [strip(x) for x in t[1]])
    if k == "map":
        return ("map", [(strip(a), strip(b)) for a, b in t[1]])
    return t


# ---- generator over the translatable subset ------------------------------------------------------------
ALPHA = ["'", "''", "\\", "-", "--", ";", "\n", "/*", "*/", "a", "b", " ", "é", "\"", ")", "(", "'--", "\\'", "x'; DROP TABLE t; --",
         "%", "_", "\t", "'||'", "$$", ":", "0"]


def cel_string(rng, val):
    q = rng.choice("'\"")
    out = []
    for ch in val:
        if ch == q or ch == "\\":
            out.append("\\" + ch)
        elif ch == "\n":
            out.append(rng.choice(["\\n", "\n"]))
        else:
            out.append(ch)
    return q + "".join(out) + q


class G:
    def __init__(self, rng):
        self.rng = rng

    def lit(self):
        r = self.rng
        k = r.randrange(6)
        if k == 0:
            v = r.choice([0, 1, 42, 9223372036854775807, r.randrange(0, 10 ** 6)])
            return ("lit", str(v)), ("lit", v)
        if k == 1:
            v = r.choice([0, 7, 18446744073709551615])
            return ("lit", "%du" % v), ("lit", v)
        if k == 2:
            b = r.random() < 0.5
            return ("lit", "true" if b else "false"), ("lit", b)
        if k == 3:
            return ("lit", "null"), ("lit", None)
        val = "".join(r.choice(ALPHA) for _ in range(r.randrange(0, 5)))
        return ("lit", cel_string(r, val)), ("lit", val)

    def gen(self, d):
        """returns (CEL tree for rendering, expected tree)"""
        r = self.rng
        if d <= 0 or r.random() < 0.2:
            if r.random() < 0.5:
                n = r.choice(["x", "y", "z", "user_id", "t1", "tbl"])
                return ("id", n), ("id", n)
            return self.lit()
        k = r.randrange(11)
        if k <= 2:
            op = r.choice(['||', '&&', '<', '<=', '==', '!=', '>=', '>', 'in', '+', '-', '*', '/', '%'])
            a, ea = self.gen(d - 1)
            b, eb = self.gen(d - 1)
            return ("bin", op, a, b), ("bin", op, ea, eb)
        if k == 3:
            op = r.choice("!-")
            a, ea = self.gen(d - 1)
            return ("un", op, 1, a), ("un", op, 1, ea)
        if k == 4:
            c, ec = self.gen(d - 1)
            a, ea = self.gen(d - 1)
            b, eb = self.gen(d - 1)
            return ("tern", c, a, b), ("tern", ec, ea, eb)
        if k == 5:
            f = r.choice(["f", "size", "lower", "coalesce", "g2"])
            args = [self.gen(d - 1) for _ in range(r.randrange(0, 4))]
            return ("call", ("id", f), [a for a, _ in args]), ("call", ("id", f), [e for _, e in args])
        if k == 6:
            a, ea = self.gen(d - 1)
            n = r.choice(["name", "f", "size", "b"])
            if r.random() < 0.5:
                args = [self.gen(d - 1) for _ in range(r.randrange(0, 3))]
                return ("call", ("member", a, n), [x for x, _ in args]), ("call", ("member", ea, n), [e for _, e in args])
            return ("member", a, n), ("member", ea, n)
        if k == 7:
            a, ea = self.gen(d - 1)
            i, ei = self.gen(d - 1)
            return ("index", a, i), ("index", ea, ei)
        if k == 8:
            xs = [self.gen(d - 1) for _ in range(r.randrange(0, 4))]
            return ("list", [a for a, _ in xs]), ("list", [e for _, e in xs])
        if k == 9:
            xs = [(self.lit(), self.gen(d - 1)) for _ in range(r.randrange(0, 3))]
            return ("map", [(k_[0], v_[0]) for k_, v_ in xs]), ("map", [(k_[1], v_[1]) for k_, v_ in xs])
        t = r.choice(["int", "uint", "double", "float", "string", "bool", "bytes", "timestamp", "duration"])
        a, ea = self.gen(d - 1)
        return ("call", ("id", t), [a]), ("call", ("id", "double" if t == "float" else t), [ea])


def run(chk):
    rng = random.Random(chk.seed)
    if not builds_or_die(chk):
        return
    quick = chk.tier == "quick"
    g = G(rng)
    srcs, wants = [], []
    for _ in range(2500 if quick else 40000):
        cel, exp = g.gen(rng.randrange(1, 5))
        srcs.append(render(cel, rng.choice(["min", "rand"]), rng.choice(["one", "rand", "min"]), rng))
        wants.append(exp)
    # every string of up to 3 alphabet items, alone and inside structure
    import itertools
    n_gen = len(srcs)
    for n in range(0, 3 if quick else 4):
        for combo in itertools.product(ALPHA, repeat=n):
            val = "".join(combo)
            s = cel_string(rng, val)
            form = rng.randrange(4)
            if form == 0:
                srcs.append(s)
                wants.append(("lit", val))
            elif form == 1:
                srcs.append("x == %s && y" % s)
                wants.append(("bin", "&&", ("bin", "==", ("id", "x"), ("lit", val)), ("id", "y")))
            elif form == 2:
                srcs.append("f(%s, 1)" % s)
                wants.append(("call", ("id", "f"), [("lit", val), ("lit", 1)]))
            else:
                srcs.append("[%s, %s]" % (s, s))
                wants.append(("list", [("lit", val), ("lit", val)]))
    n_str = len(srcs)
    # unsupported constructs and the recorded finding
    unsup = ["match x { case 1: 2 }", "b'ab'", "f'{x}'", "x + b'a'", "[1, match x { case _: 2 }]", "f(f'{x}')"]
    for pad in range(0, 48):
        unsup.append("x == f'%s\u00e9 {y}'" % ("a" * pad))
        if pad % 4 == 0:
            unsup += ["f'%s\U0001F600{y}\u20ac'" % ("b" * pad), "[1, f'%s\u00e9\u00e9{y}']" % ("c" * pad), "x + b'%s\u00e9'" % ("d" * pad),
                      "match x { case 1: '%s\u00e9\u20ac' }" % ("e" * pad)]
    known = [("double-negation-is-sql-comment", "--x"), ("double-negation-is-sql-comment", "a + --b"),
             ("double-negation-is-sql-comment", "- - x")]
    cases = ["tosql " + hx(s) for s in srcs + unsup + [s for _, s in known]]
    impl, model = tie(chk, "SQL text", cases, labels=srcs + unsup + [s for _, s in known])
    nread = 0
    for s, c, r, w in zip(srcs, cases, impl, wants):
        if is_dead(r):
            continue
        if r.startswith("CERR"):
            continue                       # the generator produced a literal the CEL parser rejects
        if not r.startswith("SQL "):
            chk.violation("a translatable expression is reported as unsupported", dict(case=c, source=s, impl=r))
            continue
        sql = bytes.fromhex(r[4:]).decode()
        try:
            got = strip(read_sql(sql))
        except SqlError as e:
            chk.violation("the SQL text does not read as one expression of the emitted dialect: %s" % e,
                          dict(case=c, source=s, sql=sql, expected_tree=repr(w)))
            continue
        nread += 1
        if got != w:
            chk.violation("the SQL text denotes a different tree than the CEL source (operators, operand order, grouping, "
                          "call arguments, literal content)", dict(case=c, source=s, sql=sql, expected_tree=repr(w), got_tree=repr(got)))
    for s, c, r in zip(unsup, cases[len(srcs):], impl[len(srcs):]):
        if not is_dead(r) and r != "NOSQL":
            chk.violation("a construct without a translation is not reported as unsupported", dict(case=c, source=s, impl=r))
    for (key, s), c, r in zip(known, cases[len(srcs) + len(unsup):], impl[len(srcs) + len(unsup):]):
        if is_dead(r) or not r.startswith("SQL "):
            continue
        sql = bytes.fromhex(r[4:]).decode()
        try:
            read_sql(sql)
        except SqlError as e:
            chk.violation("the SQL text does not read as one expression of the emitted dialect: %s" % e,
                          dict(case=c, source=s, sql=sql), key=key)
    chk.stream("generated expressions over the translatable subset (operators, ?:, calls alone and in chains, member/index "
               "paths, lists, maps, casts; strings over quotes, backslashes, dashes, semicolons, newlines, comment markers)",
               n_gen, len(set(srcs[:n_gen])), exhaustive=False, note="%d SQL texts re-read and compared" % nread)
    chk.stream("every string of up to %d items of the %d-item hostile alphabet, alone / in a comparison / as a call argument / in "
               "a list" % (2 if quick else 3, len(ALPHA)), n_str - n_gen, n_str - n_gen, exhaustive=True)
    chk.stream("constructs without a translation; double negation", len(unsup) + len(known), len(unsup) + len(known), exhaustive=True)
    chk.sample(dict(source=srcs[1], sql=bytes.fromhex(impl[1][4:]).decode() if impl[1].startswith("SQL ") else impl[1]))
    chk.sample(dict(source=srcs[n_gen + 40], sql=bytes.fromhex(impl[n_gen + 40][4:]).decode() if impl[n_gen + 40].startswith("SQL ") else impl[n_gen + 40]))
    chk.cov["rule"] = "the reader implements standard SQL lexing ('' inside strings, -- and /* */ comments) and the emitted shapes only"


def replay(chk, rep):
    if not builds_or_die(chk):
        return
    r = run_impl([rep["case"]], isolate=True)[0]
    print("impl:", r)
    if is_dead(r):
        chk.violation(rep.get("what", "replayed"), rep)
        return
    if "expected_tree" in rep:
        try:
            got = repr(strip(read_sql(bytes.fromhex(r[4:]).decode()))) if r.startswith("SQL ") else r
        except SqlError as e:
            got = "unreadable: %s" % e
        print("got:", got)
        if got != rep["expected_tree"]:
            chk.violation(rep.get("what", "replayed"), rep)
    elif r.startswith("SQL "):
        try:
            read_sql(bytes.fromhex(r[4:]).decode())
        except SqlError:
            chk.violation(rep.get("what", "replayed"), rep)
    elif rep.get("impl") and r != "NOSQL":
        chk.violation(rep.get("what", "replayed"), rep)
