"""Shared stream: expressions -> (implementation compiler) -> bytecode -> VM of
the implementation vs. the extracted VM model, under the standard environment."""
from common import *
from values import *
from exprgen import *


def compile_sources(srcs, profile="debug"):
    """[(ok, code_tokens, params) | (False, err, None)] from the implementation's compiler"""
    res = run_impl(["compile " + vs(s) for s in srcs], profile, isolate=True)
    out = []
    for r in res:
        if r.startswith("OK "):
            i = r.index(" PARAMS(")
            code = r[3:i]
            params = [unhexs(x) for x in r[i + 8:].strip().rstrip(")").split()]
            out.append((True, code, params))
        else:
            out.append((False, r, None))
    return out


_STD = {}


def std_progs_tokens(profile="debug"):
    if profile not in _STD:
        comp = compile_sources([s for _, s in STD_PROGS], profile)
        assert all(c[0] for c in comp), comp
        _STD[profile] = " ".join("%s %s" % (hx(n), c[1]) for (n, _), c in zip(STD_PROGS, comp))
    return _STD[profile]


def run_case_for(code, binds=None, extra_progs="", ufuncs=None, profile="debug"):
    binds = STD_BINDS if binds is None else binds
    ufuncs = STD_UFUNCS if ufuncs is None else ufuncs
    return "run %s P( %s %s %s %s ) %s %s" % (hx("main"), hx("main"), code, std_progs_tokens(profile), extra_progs,
                                          binds_tokens(binds), ufuncs_tokens(ufuncs))


def vm_tie(chk, srcs, stream, profile="debug", binds=None, ufuncs=None):
    """Compile each source with the implementation, run the bytecode on the
    implementation's VM and on the model; returns list of dicts
    (src, compiled, code, params, impl, model)."""
    comp = compile_sources(srcs, profile)
    cases, idx = [], []
    for i, c in enumerate(comp):
        if c[0]:
            cases.append(run_case_for(c[1], binds=binds, ufuncs=ufuncs, profile=profile))
            idx.append(i)
    impl = run_impl(cases, profile, isolate=True)
    model = run_model(cases)
    out = [dict(src=s, compiled=c[0], code=c[1], params=c[2], impl=None, model=None) for s, c in zip(srcs, comp)]
    for k, i in enumerate(idx):
        out[i]["impl"] = impl[k]
        out[i]["model"] = model[k]
        out[i]["case"] = cases[k]
        if impl[k] == "PANIC" or impl[k].startswith(("ABORT", "TIMEOUT")):
            chk.violation("evaluation panics/aborts/hangs instead of returning a value or an error",
                          dict(source=s_(srcs[i]), case=cases[k], impl=impl[k]), key=None)
        elif model[k] == "UNMOD":
            pass
        elif model[k].startswith(("MODEL_", "BADCASE", "UNSUPPORTED", "ABORT", "TIMEOUT", "NOTRUN")):
            chk.tie_broken(stream, dict(source=srcs[i], impl=impl[k], model=model[k]))
        elif impl[k] != model[k]:
            chk.tie_broken(stream, dict(source=srcs[i], case=cases[k], impl=impl[k], model=model[k]))
    return out


def s_(x):
    return x
