"""C14 — type conversions are exact on their domain and reject the rest; f-strings.

Every case is evaluated by implementation and model (tie; the model answers UNMOD for
float/time printing and chrono parsing); expectations are computed here in Python."""
import math
import random
import re
from streams import *

LEVEL_NOTE = ("theorems on the constructor model (round trips over the whole 64-bit ranges, range errors, saturating "
              "truncation, UTF-8 round trip, result types, FMT = concatenation); tie and Python oracle on generated values")


def py_trunc_sat(x, lo, hi):
    if x != x:
        return 0
    if x == float("inf"):
        return hi
    if x == float("-inf"):
        return lo
    return max(lo, min(hi, int(x)))


def rust_int(s, signed):
    if not re.fullmatch(r"[+-]?[0-9]+" if signed else r"\+?[0-9]+", s, flags=re.A):
        return None
    v = int(s)
    if signed and I64_MIN <= v <= I64_MAX:
        return v
    if not signed and 0 <= v <= U64_MAX:
        return v
    return None


def rust_float(s):
    t = s[1:] if s[:1] in "+-" else s
    if t.lower() in ("inf", "infinity", "nan"):
        return float(s)
    if not re.fullmatch(r"[+-]?([0-9]+\.?[0-9]*|\.[0-9]+)([eE][+-]?[0-9]+)?", s, flags=re.A):
        return None
    return float(s)


def run(chk):
    rng = random.Random(chk.seed)
    if not builds_or_die(chk):
        return
    quick = chk.tier == "quick"
    cases, want, labels = [], [], []

    def add(src, binds, w, note=""):
        cases.append(evalsrc_case(src, binds=binds, ufuncs=[], std=False))
        want.append(w)
        labels.append("%s [%s] %s" % (src, ", ".join("%s=%s" % kv for kv in binds), note))

    n = 300 if quick else 5000
    ivals = [0, 1, -1, 9, 10, -10, 99, 100, I64_MAX, I64_MIN, I64_MAX - 1, I64_MIN + 1, 2 ** 31, -2 ** 31, 2 ** 53, 2 ** 53 + 1,
             -(2 ** 53) - 1] + [rng.randrange(I64_MIN, I64_MAX + 1) for _ in range(n)] + \
            [rng.randrange(-10 ** rng.randrange(1, 19), 10 ** rng.randrange(1, 19)) for _ in range(n // 3)]
    uvals = [0, 1, 9, 10, I64_MAX, I64_MAX + 1, U64_MAX, U64_MAX - 1, 2 ** 53 + 1] + [rng.randrange(0, U64_MAX + 1) for _ in range(n)]
    for i in ivals:
        add("[int(string(x)) == x, string(x), int(string(x))]", [("x", vi(i))], "OK " + vlist([vb(True), vs(str(i)), vi(i)]))
        add("uint(x)", [("x", vi(i))], "OK " + vu(i) if i >= 0 else "ERR Eval")
        add("double(x)", [("x", vi(i))], "OK " + vf(float(i)))
        add("type(int(x)) == int && type(string(x)) == string && type(double(x)) == double", [("x", vi(i))], "OK b1")
    for u in uvals:
        add("[uint(string(x)) == x, string(x), uint(string(x))]", [("x", vu(u))], "OK " + vlist([vb(True), vs(str(u)), vu(u)]))
        add("int(x)", [("x", vu(u))], "OK " + vi(u) if u <= I64_MAX else "ERR Eval")
        add("double(x)", [("x", vu(u))], "OK " + vf(float(u)))
    n_int0 = len(cases)
    # whole seconds -> timestamp / duration, signed and unsigned, with every boundary of the two ranges and of the
    # unsigned -> signed step (a uint above the int range is an error, never a wrapped second count)
    T_MIN, T_MAX, D_MAX = -8334601228800, 8210266876799, 9223372036854775
    svals = [0, 1, -1, 59, 86400, -86400, T_MIN, T_MIN - 1, T_MIN + 1, T_MAX, T_MAX + 1, T_MAX - 1, D_MAX, D_MAX + 1, -D_MAX, -D_MAX - 1,
             I64_MAX, I64_MIN, I64_MAX - 1, I64_MIN + 1, 2 ** 31, 2 ** 32, -2 ** 31, 253402300799, 253402300800, -62135596800, -62135596801]
    svals += [rng.randrange(T_MIN - 10 ** 6, T_MAX + 10 ** 6) for _ in range(n // 3)] + [rng.randrange(I64_MIN, I64_MAX + 1) for _ in range(n // 6)]
    for z in svals:
        okt = T_MIN <= z <= T_MAX
        add("timestamp(x)", [("x", vi(z))], "OK " + vtime(z * 10 ** 9) if okt else "ERR Eval")
        if okt:
            add("int(timestamp(x)) == x", [("x", vi(z))], "OK b1")
        add("duration(x)", [("x", vi(z))], "OK " + vdur(z * 10 ** 9) if -D_MAX <= z <= D_MAX else "ERR Eval")
    usec = [0, 1, 86400, T_MAX, T_MAX + 1, T_MAX - 1, I64_MAX, I64_MAX + 1, I64_MAX + 2, U64_MAX, U64_MAX - 1, U64_MAX - 59, U64_MAX - 86399,
            U64_MAX - 86400, U64_MAX + 1 + T_MIN, U64_MAX + T_MIN, U64_MAX + 2 + T_MIN, 2 ** 63 + T_MAX, 2 ** 64 - 2 ** 31, 2 ** 32, 2 ** 32 - 1]
    usec += [U64_MAX - rng.randrange(0, 10 ** rng.randrange(1, 14)) for _ in range(n // 6)] + [rng.randrange(0, U64_MAX + 1) for _ in range(n // 6)] + \
            [rng.randrange(0, T_MAX + 10 ** 6) for _ in range(n // 6)]
    for u in usec:
        add("timestamp(x)", [("x", vu(u))], "OK " + vtime(u * 10 ** 9) if u <= T_MAX else "ERR Eval")
    n_int = len(cases)
    # doubles
    fbits = [0, 1 << 63, 0x3ff0000000000000, 0xbff0000000000000, 0x7ff0000000000000, 0xfff0000000000000, 0x7ff8000000000000,
             0x43e0000000000000, 0xc3e0000000000000, 0x43f0000000000000, 0x43dfffffffffffff, 0xc3e0000000000001,
             0x43efffffffffffff, 0x3fe0000000000000, 0xbfe0000000000000, 0x3fefffffffffffff, 0x4000000000000000, 1,
             0x7fefffffffffffff, 0x4330000000000001, 0x4340000000000000, 0x3fb999999999999a]
    fbits += [rng.getrandbits(64) for _ in range(n)]
    fbits += [f_bits(rng.uniform(-1e6, 1e6)) for _ in range(n // 2)] + [f_bits(float(rng.randrange(-10 ** 6, 10 ** 6))) for _ in range(n // 4)]
    fbits += [f_bits(rng.choice([1, -1]) * rng.random() * 2.0 ** rng.randrange(55, 70)) for _ in range(n // 4)]
    nd = 0
    dcases = []
    for b in fbits:
        x = bits_f(b)
        add("int(x)", [("x", vf_bits(b))], "OK " + vi(py_trunc_sat(x, I64_MIN, I64_MAX)))
        add("uint(x)", [("x", vf_bits(b))], "OK " + vu(py_trunc_sat(x, 0, U64_MAX)))
        if x == x:
            add("double(string(x))", [("x", vf_bits(b))], "OK " + vf_bits(b), "float round trip")
            dcases.append(len(cases))
            add("string(x)", [("x", vf_bits(b))], ("FLOATSTR", b))
            add("type(double(x)) == double && type(int(x)) == int && type(uint(x)) == uint && type(string(x)) == string",
                [("x", vf_bits(b))], "OK b1")
        else:
            add("string(x)", [("x", vf_bits(b))], "OK " + vs("NaN"))
    n_dbl = len(cases)
    # text -> number
    texts = ["1", "+1", "-1", "-0", "+0", "00012", " 1", "1 ", "1_0", "0x10", "1e3", "1.0", "", "+", "-", "--1", "+-1", "١٢٣",
             "9223372036854775807", "9223372036854775808", "-9223372036854775808", "-9223372036854775809",
             "18446744073709551615", "18446744073709551616", "99999999999999999999999", "1.5", ".5", "5.", ".", "1e", "e1",
             "inf", "-inf", "+inf", "Infinity", "INFINITY", "nan", "NaN", "-nan", "infinit", "1e400", "-1e400", "1e-400",
             "0.1", "1E5", "1e+5", "1e-5", "1d", "1f", "1.2.3", "0b1", "1,5", "\t1", "1\n", "a", "true", "é", "1é",
             "4.9e-324", "2.4703282292062327e-324", "2.4703282292062328e-324", "1.7976931348623157e308",
             "1.7976931348623158e308", "1.7976931348623159e308", "123456789012345678901234567890"]
    for _ in range(200 if quick else 3000):
        k = rng.random()
        if k < 0.4:
            t = str(rng.randrange(-2 ** 70, 2 ** 70))
        elif k < 0.7:
            t = repr(bits_f(rng.getrandbits(64)))
        else:
            t = "".join(rng.choice("0123456789+-.eE xa_") for _ in range(rng.randrange(1, 8)))
        texts.append(t)
    for t in texts:
        vi_ = rust_int(t, True)
        add("int(s)", [("s", vs(t))], "OK " + vi(vi_) if vi_ is not None else "ERR Eval")
        vu_ = rust_int(t, False)
        add("uint(s)", [("s", vs(t))], "OK " + vu(vu_) if vu_ is not None else "ERR Eval")
        try:
            vf_ = rust_float(t)
        except ValueError:
            vf_ = None
        add("double(s)", [("s", vs(t))], "OK " + vf(vf_) if vf_ is not None else "ERR Eval")
    n_txt = len(cases)
    # string <-> bytes
    for _ in range(200 if quick else 3000):
        k = rng.random()
        if k < 0.5:
            s = "".join(chr(rng.choice([rng.randrange(32, 127), rng.randrange(128, 0x800), 0x20ac, 0x1f600, 0xd7ff, 0xe000,
                                        0x10ffff, 0, rng.randrange(0x800, 0xd800)])) for _ in range(rng.randrange(0, 8)))
            add("[string(bytes(s)) == s, bytes(s), string(bytes(s))]", [("s", vs(s))],
                "OK " + vlist([vb(True), vy(s.encode()), vs(s)]))
        else:
            b = bytes(rng.choice([rng.randrange(256), rng.randrange(128), 0xc3, 0xa9, 0xe2, 0x82, 0xac, 0xf0, 0x9f, 0x98, 0x80,
                                  0xed, 0xa0, 0x80, 0xc0, 0xaf, 0xf4, 0x90]) for _ in range(rng.randrange(0, 7)))
            try:
                w = "OK " + vs(b.decode("utf-8"))
            except UnicodeDecodeError:
                w = "ERR Eval"
            add("string(b)", [("b", vy(b))], w)
    for b in [b"\xed\xa0\x80", b"\xed\x9f\xbf", b"\xee\x80\x80", b"\xc0\x80", b"\xc1\xbf", b"\xc2\x80", b"\xe0\x80\x80",
              b"\xe0\x9f\xbf", b"\xe0\xa0\x80", b"\xf0\x80\x80\x80", b"\xf0\x8f\xbf\xbf", b"\xf0\x90\x80\x80", b"\xf4\x8f\xbf\xbf",
              b"\xf4\x90\x80\x80", b"\xf5\x80\x80\x80", b"\xff", b"\x80", b"\xc2", b"\xe2\x82", b"\xf0\x9f\x98"]:
        try:
            w = "OK " + vs(b.decode("utf-8"))
        except UnicodeDecodeError:
            w = "ERR Eval"
        add("string(b)", [("b", vy(b))], w)
    for s_ in ["\ufeff", "\ufeffabc", "\ufeff\ufeff", "a\ufeff", "\ufffe", "\u200b\ufeff", "\ufeff ", " \ufeff", "\u00ef\u00bb\u00bf", "\x00abc",
               "\u2060x", "\ufffd", "\ufeff\u00e9"]:
        add("[string(bytes(s)) == s, bytes(s), string(bytes(s))]", [("s", vs(s_))], "OK " + vlist([vb(True), vy(s_.encode()), vs(s_)]))
        add("string(b)", [("b", vy(s_.encode()))], "OK " + vs(s_))
        add("size(string(b)) == size(b)", [("b", vy(s_.encode()))], "OK b1")
    # other constructors on every kind of value: identities, dyn, type, and rejections
    for name, v in STD_BINDS:
        add("dyn(x) == x || type(x) == double", [("x", v)], "OK b1" if name not in ("m1", "m0", "l0") else None)
        add("type(dyn(x)) == type(x)", [("x", v)], "OK b1")
    # every constructor on every kind of value: whatever it accepts, the result has the constructor's type (and the value
    # the model computes: tie); for the two booleans the integer forms are spelled out
    for T in ["int", "uint", "double", "string", "bytes", "bool", "timestamp", "duration"]:
        for name, v in STD_BINDS + [("bt", vb(True)), ("bf", vb(False))]:
            add("type(%s(x)) == %s" % (T, T), [("x", v)], "B1ORERR", "result type of %s on %s" % (T, name))
            if not (T == "timestamp" and v == VNULL):       # timestamp(null) reads the clock (null padding of the dispatcher)
                add("[%s(x)]" % T, [("x", v)], None)
    for b, n_ in ((True, 1), (False, 0)):
        add("int(x)", [("x", vb(b))], "OK " + vi(n_))
        add("uint(x)", [("x", vb(b))], "OK " + vu(n_))
        add("[uint(x) - 1u, -uint(x)]", [("x", vb(b))], None)
    n_misc = len(cases)
    # ---- f-strings ---------------------------------------------------------------------------------
    fvals = [("i1", vi(5), "5"), ("i2", vi(-3), "-3"), ("u1", vu(7), "7"), ("s1", vs("hé{}"), "hé{}"), ("s0", vs(""), ""),
             ("im", vi(I64_MIN), str(I64_MIN)), ("um", vu(U64_MAX), str(U64_MAX)), ("d1", vf(2.5), None), ("b1", vb(True), None),
             ("l1", vlist([vi(1)]), "ERR"), ("nl", VNULL, "ERR?"), ("y1", vy(b"ab"), "ab"), ("m1", vmap([("a", vi(1))]), "ERR?")]
    fbinds = [(n_, v) for n_, v, _ in fvals]
    fcases, fwant, flabels = [], [], []
    for _ in range(300 if quick else 4000):
        q = rng.choice("'\"")
        nseg = rng.randrange(0, 6)
        src, cat = "", []
        for _ in range(nseg):
            if rng.random() < 0.5:
                lit = "".join(rng.choice("ab {}\\né'%d") for _ in range(rng.randrange(0, 5)))
                for ch in lit:
                    if ch in "{}":
                        src += ch * 2
                    elif ch == "\\":
                        src += "\\\\"
                    elif ch == "\n":
                        src += "\\n"
                    elif ch == q:
                        src += "\\" + ch
                    else:
                        src += ch
                cat.append("'" + lit.replace("\\", "\\\\").replace("'", "\\'").replace("\n", "\\n") + "'")
            elif rng.random() < 0.35:
                # a constant segment: the compiler may evaluate it, string() must still be what is applied
                lit = rng.choice(["1", "-7", "3u", "1.5", "'s'", "b'ab'", "b'\\xff'", "true", "false", "null", "[1, 2]", "{'a': 1}",
                                  "1 + 2", "'a' + 'b'", "duration('90s')", "timestamp(0)", "timestamp('2024-01-02T03:04:05Z')",
                                  "duration(3600)", "int", "type(1)", "1 / 0", "[1][0]", "size('abc')", "double(2)", "bytes('hé')"])
                if q in lit:
                    lit = lit.replace("'", '"') if q == "'" else lit.replace('"', "'")
                src += "{ " + lit + " }"
                cat.append("string(%s)" % lit)
            else:
                e = rng.choice(fvals)[0]
                form = rng.choice(["{%s}", "{ %s }", "{%s + %s}" if e.startswith(("i", "u", "s", "d")) and e not in ("im", "um") else "{%s}"])
                body = form % ((e, e) if form.count("%s") == 2 else e)
                src += body
                cat.append("string(%s)" % body.strip("{} ") if form.count("%s") == 1 else "string(%s)" % body[1:-1])
        fsrc = "f" + q + src + q
        ref = " + ".join(cat) if cat else "''"
        fcases.append(evalsrc_case(fsrc, binds=fbinds, ufuncs=[], std=False))
        fcases.append(evalsrc_case(ref, binds=fbinds, ufuncs=[], std=False))
        flabels.append(fsrc)
        flabels.append(ref)
    fimpl, fmodel = tie(chk, "f-strings and their concatenation form", fcases, labels=flabels)
    for i in range(0, len(fcases), 2):
        a, b = fimpl[i], fimpl[i + 1]
        if is_dead(a) or is_dead(b):
            continue
        ka, pa, _ = split_result(a)
        kb, pb, _ = split_result(b)
        if (ka, pa) != (kb, pb) and not (ka == "ERR" and kb == "ERR"):
            chk.violation("an f-string differs from the concatenation of its literal parts and string(e) of its expressions",
                          dict(case=fcases[i], ref_case=fcases[i + 1], fstring=flabels[i], concatenation=flabels[i + 1], impl=a, ref=b))
    chk.stream("f-strings of 0..5 random segments (literal text with {{ }} and escapes; expressions of every kind) vs. the "
               "explicit concatenation", len(fcases) // 2, len(set(fcases)) // 2, exhaustive=False)
    chk.sample(dict(fstring=flabels[2], concatenation=flabels[3], impl=fimpl[2]))
    # ---- run the conversion cases -------------------------------------------------------------------
    impl, model = tie(chk, "conversions", cases, labels=labels)
    nshort = 0
    for lab, c, r, w in zip(labels, cases, impl, want):
        if is_dead(r) or w is None:
            continue
        k, payload, _ = split_result(r)
        if isinstance(w, tuple):
            # string(double): must read back to the same double, and be a shortest such decimal
            b = w[1]
            x = bits_f(b)
            ok = k == "OK" and payload.startswith("s")
            if ok:
                txt = bytes.fromhex(payload[1:]).decode()
                try:
                    ok = (f_bits(float(txt)) == b) or (x == 0 and float(txt) == 0 and (txt.startswith("-") == (b >> 63 == 1)))
                except ValueError:
                    ok = False
                if ok and x not in (float("inf"), float("-inf")):
                    nd_impl = len(txt.replace("-", "").replace(".", "").strip("0"))
                    r_ = repr(abs(x))
                    mant = r_.split("e")[0]
                    nd_py = len(mant.replace(".", "").strip("0"))
                    if nd_impl > max(nd_py, 1):
                        ok = False
                    nshort += 1
            if not ok:
                chk.violation("string(double) does not print the shortest decimal that reads back as the same double",
                              dict(case=c, label=lab, impl=r, bits="%016x" % b))
            continue
        if w == "B1ORERR":
            if not (k == "ERR" or (k, payload) == ("OK", "b1")):
                chk.violation("a conversion that succeeds does not return a value of the type converted to",
                              dict(case=c, label=lab, impl=r, expected="true, or a failure"))
            continue
        if ("%s %s" % (k, payload)).strip() != w:
            chk.violation("a conversion is not exact on its domain or does not reject a value outside it",
                          dict(case=c, label=lab, impl=r, expected=w))
    chk.stream("int/uint values: string round trip, cross-signedness, to double, result types", n_int0, n_int0, exhaustive=False)
    chk.stream("whole seconds (int and uint, every range boundary, the top of the uint range) -> timestamp / duration and back",
               n_int - n_int0, n_int - n_int0, exhaustive=False)
    chk.stream("double bit patterns: saturating truncation to int/uint, string round trip (reads back, shortest), result types",
               n_dbl - n_int, n_dbl - n_int, exhaustive=False, note="%d printed doubles checked for shortness" % nshort)
    chk.stream("text -> int/uint/double: signs, whitespace, exponent forms, non-ASCII, range edges", n_txt - n_dbl,
               len(set(cases[n_dbl:n_txt])), exhaustive=False)
    chk.stream("string <-> bytes over random scalar strings and random / boundary byte sequences; dyn and type on every kind",
               n_misc - n_txt, len(set(cases[n_txt:n_misc])), exhaustive=False)
    chk.sample(dict(label=labels[3], impl=impl[3], expected=want[3]))
    chk.sample(dict(label=labels[n_int + 2], impl=impl[n_int + 2], expected=want[n_int + 2]))
    chk.sample(dict(label=labels[n_dbl + 7], impl=impl[n_dbl + 7], expected=want[n_dbl + 7]))
    chk.cov["rule"] = ("expected values from Python integers, float() (correctly rounded), int() truncation with explicit "
                       "saturation, strict UTF-8 decoding; f-strings against their own concatenation form on the implementation")


def replay(chk, rep):
    if not builds_or_die(chk):
        return
    r = run_impl([rep["case"]], isolate=True)[0]
    print("impl:", r, "\nexpected:", rep.get("expected"))
    if "ref_case" in rep:
        b = run_impl([rep["ref_case"]], isolate=True)[0]
        print("ref:", b)
        if split_result(r)[:2] != split_result(b)[:2] and not (r.startswith("ERR") and b.startswith("ERR")):
            chk.violation(rep.get("what", "replayed"), rep)
        return
    k, payload, _ = split_result(r)
    if "expected" in rep:
        if ("%s %s" % (k, payload)).strip() != rep["expected"]:
            chk.violation(rep.get("what", "replayed"), rep)
    elif "bits" in rep:
        b = int(rep["bits"], 16)
        try:
            ok = k == "OK" and f_bits(float(bytes.fromhex(payload[1:]).decode())) == b
        except ValueError:
            ok = False
        if not ok:
            chk.violation(rep.get("what", "replayed"), rep)
