#!/bin/sh
# Builds the whole framework offline from files on disk:
#   Coq development (full .vo), extracted model + OCaml driver, Rust harness
#   (debug and release) against /repo's current working tree.
set -e
cd "$(dirname "$0")"
export CARGO_NET_OFFLINE=true
mkdir -p work evidence
( cd coq && coq_makefile -f _CoqProject -o Makefile >/dev/null && timeout 7200 make -j16 ) > work/setup_coq.log 2>&1 || { tail -50 work/setup_coq.log; exit 1; }
( cd ocaml && sh ./build.sh ) > work/setup_ocaml.log 2>&1 || { tail -50 work/setup_ocaml.log; exit 1; }
cp /repo/Cargo.lock harness/Cargo.lock
( cd harness && RUSTFLAGS="--cfg rscel_verif --check-cfg cfg(rscel_verif) -Awarnings" cargo build --offline \
  && RUSTFLAGS="--cfg rscel_verif --check-cfg cfg(rscel_verif) -Awarnings" cargo build --offline --release ) > work/setup_cargo.log 2>&1 || { tail -50 work/setup_cargo.log; exit 1; }
echo "setup ok"
