#!/bin/sh
# runs every claimed check (quick tier) for the given seeds; prints the summary line and any alarm
cd /verif
for seed in "$@"; do
  for id in $(python3 -c "import json;print(' '.join(p['property_id'] for p in json.load(open('MANIFEST.json'))['checks']))" 2>/dev/null || python3 -c "import sys;sys.path.insert(0,'gen');import claims;print(' '.join(sorted(claims.CLAIMS)))"); do
    out=$(VERIF_SEED=$seed ./check $id 2>&1 | grep -E "VIOLATION|tier=" | tail -3 | tr '\n' ' ')
    echo "seed=$seed $out"
  done
done
